"""Shared machinery of the anthem verification checks (see DESIGN.md §1, §3).

A check run for property P:
  1. builds (under a lock): Coq development up to Properties/P.vo, extraction + OCaml driver,
     Rust harness against /repo's current working tree (feature `verif`);
  2. audits the Coq sources and re-compiles Properties/P.v, parsing `Print Assumptions`;
  3. runs the correspondence: corpus + generated cases through the real code (harness) and the
     extracted model (driver), compared line by line;
  4. cross-checks the implementation's actual outputs semantically (driver `sem_*` ops);
  5. replays known findings;
  6. on any break searches for a failing input, writes a replay, prints VIOLATION, exits 1;
  7. writes evidence/<P>.json.
"""
import concurrent.futures
import fcntl
import hashlib
import json
import os
import re
import subprocess
import threading
import sys
import time

VERIF = os.path.dirname(os.path.dirname(os.path.abspath(__file__)))
REPO = os.environ.get("ANTHEM_REPO", "/repo")
COQ = os.path.join(VERIF, "coq")
OCAML = os.path.join(VERIF, "ocaml")
HARNESS = os.path.join(VERIF, "harness")
WORK = os.path.join(VERIF, "work")
REPLAY = os.environ.get("VERIF_REPLAY_DIR") or os.path.join(VERIF, "replay")
EVIDENCE = os.environ.get("VERIF_EVIDENCE_DIR") or os.path.join(VERIF, "evidence")
DRIVER_EXE = os.path.join(OCAML, "_build", "default", "driver", "driver.exe")
HARNESS_EXE = os.path.join(HARNESS, "target", "debug", "harness")
NPROC = min(16, os.cpu_count() or 4)

ALLOWED_AXIOMS = {
    # standard-library axioms only (named in the trusted base of each evidence file)
    "Classical_Prop.classic",
    "FunctionalExtensionality.functional_extensionality_dep",
    "functional_extensionality_dep",
    "ProofIrrelevance.proof_irrelevance",
    "Eqdep.Eq_rect_eq.eq_rect_eq",
    "JMeq.JMeq_eq",
    "PropExtensionality.propositional_extensionality",
}

FORBIDDEN = re.compile(
    r"\b(Admitted|admit|Axiom|Axioms|Parameter|Parameters|Conjecture|Conjectures|Abort)\b"
    r"|Unset\s+Guard|Unset\s+Positivity|Unset\s+Universe|bypass_check|type-in-type|impredicative-set"
    r"|Admit\s+Obligations|\bgive_up\b"
)


class Broken(Exception):
    """A proof obligation or a tie between model and code no longer checks."""

    def __init__(self, what, detail=""):
        super().__init__(what)
        self.what = what
        self.detail = detail


def log(msg):
    print(f"[check] {msg}", flush=True)


def sh(cmd, cwd=None, timeout=3600, env=None, check=True, capture=True):
    e = dict(os.environ)
    e.setdefault("CARGO_NET_OFFLINE", "true")
    if env:
        e.update(env)
    p = subprocess.run(cmd, cwd=cwd, shell=isinstance(cmd, str), timeout=timeout, env=e,
                       stdout=subprocess.PIPE if capture else None,
                       stderr=subprocess.STDOUT if capture else None, text=True)
    if check and p.returncode != 0:
        raise Broken(f"command failed: {cmd if isinstance(cmd, str) else ' '.join(cmd)}", (p.stdout or "")[-4000:])
    return p


class Lock:
    def __init__(self, name):
        os.makedirs(WORK, exist_ok=True)
        self.path = os.path.join(WORK, name + ".lock")

    def __enter__(self):
        self.f = open(self.path, "w")
        fcntl.flock(self.f, fcntl.LOCK_EX)
        return self

    def __exit__(self, *a):
        fcntl.flock(self.f, fcntl.LOCK_UN)
        self.f.close()


# ------------------------------------------------------------------ builds

def coq_project_files():
    files = []
    for line in open(os.path.join(COQ, "_CoqProject")):
        line = line.strip()
        if line.endswith(".v"):
            files.append(line)
    return files


def tree_hash(paths):
    h = hashlib.sha256()
    for p in sorted(paths):
        h.update(p.encode())
        with open(p, "rb") as f:
            h.update(f.read())
    return h.hexdigest()


def pre_build_hooks():
    """Regenerating translators (DESIGN §3.2) run before the Coq build, then the project files."""
    gen = os.path.join(VERIF, "tools", "regen.py")
    if os.path.exists(gen):
        p = sh([sys.executable, gen], cwd=VERIF, check=False)
        if p.returncode != 0:
            raise Broken("translator: regenerating Gen/*.v from /repo sources failed", p.stdout[-4000:])
    sh([sys.executable, os.path.join(VERIF, "tools", "gen_coqproject.py")], cwd=VERIF)


def build_coq(targets=None):
    """Full .vo build (never -vos) of the given targets (default: everything in _CoqProject)."""
    with Lock("coq"):
        pre_build_hooks()
        if (not os.path.exists(os.path.join(COQ, "Makefile"))
                or os.path.getmtime(os.path.join(COQ, "Makefile")) < os.path.getmtime(os.path.join(COQ, "_CoqProject"))):
            sh("coq_makefile -f _CoqProject -o Makefile", cwd=COQ)
        tg = " ".join(targets) if targets else ""
        p = sh(f"timeout 3000 make -j{NPROC} {tg}", cwd=COQ, check=False, timeout=3100)
        if p.returncode != 0:
            raise Broken("coq: the development no longer compiles", p.stdout[-6000:])
        return p.stdout


def build_driver():
    """Extract the model to OCaml and build the driver; cached on the hash of the .v sources."""
    with Lock("ocaml"):
        sh([sys.executable, os.path.join(VERIF, "tools", "gen_coqproject.py")], cwd=VERIF)
        srcs = [os.path.join(COQ, f) for f in coq_project_files()
                if "/Proofs/" not in f and "/Properties/" not in f]
        srcs.append(os.path.join(COQ, "theories", "Extract", "Extract.v"))
        for root, _, names in os.walk(os.path.join(OCAML, "driver")):
            srcs += [os.path.join(root, n) for n in names if n.endswith(".ml") or n == "dune"]
        h = tree_hash(srcs)
        stamp = os.path.join(WORK, "driver.stamp")
        if os.path.exists(stamp) and open(stamp).read() == h and os.path.exists(DRIVER_EXE):
            return
        gen = os.path.join(OCAML, "gen")
        for n in os.listdir(gen):
            if n.endswith(".ml") or n.endswith(".mli"):
                os.remove(os.path.join(gen, n))
        p = sh("timeout 900 coqc -Q ../../coq/theories Anthem ../../coq/theories/Extract/Extract.v", cwd=gen, check=False)
        if p.returncode != 0:
            raise Broken("extraction: Extract.v no longer compiles", p.stdout[-4000:])
        p = sh("timeout 1800 dune build 2>&1", cwd=OCAML, check=False)
        if p.returncode != 0:
            raise Broken("ocaml: the model driver no longer builds", p.stdout[-4000:])
        with open(stamp, "w") as f:
            f.write(h)


def build_harness():
    """Build the Rust harness against /repo's CURRENT working tree (cargo decides what is stale)."""
    with Lock("cargo"):
        tmpl = open(os.path.join(HARNESS, "Cargo.toml.in")).read().replace("@REPO@", REPO)
        toml = os.path.join(HARNESS, "Cargo.toml")
        if not os.path.exists(toml) or open(toml).read() != tmpl:
            with open(toml, "w") as f:
                f.write(tmpl)
        lock_src = os.path.join(REPO, "Cargo.lock")
        lock_dst = os.path.join(HARNESS, "Cargo.lock")
        base = os.path.join(HARNESS, "Cargo.lock.base")
        # harness lock = repo lock + the harness package itself; regenerate offline when repo's changes
        if not os.path.exists(base) or open(base).read() != open(lock_src).read():
            with open(lock_dst, "w") as f:
                f.write(open(lock_src).read())
            with open(base, "w") as f:
                f.write(open(lock_src).read())
        p = sh("timeout 1800 cargo build --offline 2>&1", cwd=HARNESS, check=False, timeout=1900)
        if p.returncode != 0:
            raise Broken("harness: does not build against /repo's working tree (hook API changed?)", p.stdout[-6000:])


# ------------------------------------------------------------------ audit

def audit_sources():
    """No Admitted/admit/Axiom/Parameter/... anywhere in the development (comments excluded)."""
    bad = []
    for root, _, names in os.walk(os.path.join(COQ, "theories")):
        for n in names:
            if not n.endswith(".v"):
                continue
            path = os.path.join(root, n)
            text = strip_coq_comments(open(path).read())
            for i, line in enumerate(text.split("\n"), 1):
                if FORBIDDEN.search(line):
                    bad.append(f"{os.path.relpath(path, COQ)}:{i}: {line.strip()[:120]}")
    proj = open(os.path.join(COQ, "_CoqProject")).read()
    if re.search(r"type-in-type|impredicative-set|-vos|-vok|bypass", proj):
        bad.append("_CoqProject: forbidden flag")
    return bad


def strip_coq_comments(s):
    out = []
    depth = 0
    i = 0
    instr = False
    while i < len(s):
        if depth == 0 and s[i] == '"':
            instr = not instr
            out.append(s[i])
            i += 1
        elif not instr and s.startswith("(*", i):
            depth += 1
            i += 2
        elif not instr and depth > 0 and s.startswith("*)", i):
            depth -= 1
            i += 2
        else:
            if depth == 0:
                out.append(s[i])
            elif s[i] == "\n":
                out.append("\n")
            i += 1
    return "".join(out)


def check_property_file(prop_file):
    """Re-compile Properties/<P>.v (statements + `exact`) and parse its Print Assumptions output.
    Returns a list of {theorem, statement, axioms}."""
    path = os.path.join(COQ, "theories", prop_file)
    text = strip_coq_comments(open(path).read())
    names = re.findall(r"Print Assumptions\s+([A-Za-z0-9_']+)\s*\.", text)
    stmts = {}
    for m in re.finditer(r"(?:Theorem|Corollary|Lemma)\s+([A-Za-z0-9_']+)\s*:(.*?)Proof\.", text, re.S):
        stmts[m.group(1)] = " ".join(m.group(2).split()).rstrip(".").strip()
    # every theorem must be closed by `exact <lemma>.` and be followed by Print Assumptions
    thms = re.findall(r"(?:Theorem|Corollary)\s+([A-Za-z0-9_']+)", text)
    for t in thms:
        if t not in names:
            raise Broken(f"audit: theorem {t} in {prop_file} has no Print Assumptions")
    with Lock("coq"):
        p = sh(f"timeout 900 coqc -q -Q theories Anthem theories/{prop_file}", cwd=COQ, check=False)
    if p.returncode != 0:
        raise Broken(f"coq: {prop_file} no longer compiles (a property theorem is not proved)", p.stdout[-6000:])
    blocks = parse_assumptions(p.stdout)
    if len(blocks) != len(names):
        raise Broken(f"audit: {len(names)} Print Assumptions commands but {len(blocks)} answers in {prop_file}", p.stdout[-3000:])
    result = []
    for name, axioms in zip(names, blocks):
        illegal = [a for a in axioms if a not in ALLOWED_AXIOMS]
        if illegal:
            raise Broken(f"audit: theorem {name} depends on non-allow-listed axioms {illegal}")
        result.append({"theorem": name, "statement": stmts.get(name, ""), "axioms": axioms})
    return result


def parse_assumptions(out):
    blocks = []
    cur = None
    for line in out.split("\n"):
        if line.startswith("Closed under the global context"):
            if cur is not None:
                blocks.append(cur)
                cur = None
            blocks.append([])
        elif line.startswith("Axioms:"):
            if cur is not None:
                blocks.append(cur)
            cur = []
        elif cur is not None:
            m = re.match(r"^([A-Za-z_][A-Za-z0-9_.']*)\s*:", line)
            if m:
                cur.append(m.group(1))
            elif line.strip() == "" or not line.startswith(" "):
                if line.strip() and not line.startswith(" "):
                    blocks.append(cur)
                    cur = None
    if cur is not None:
        blocks.append(cur)
    return blocks


def coqchk(prop_file):
    """Thorough tier: independent re-check of the property's .vo closure."""
    mod = "Anthem." + prop_file[:-2].replace("/", ".")
    p = sh(f"timeout 3000 coqchk -silent -o -Q theories Anthem {mod}", cwd=COQ, check=False, timeout=3100)
    if p.returncode != 0:
        raise Broken(f"coqchk rejects {mod}", p.stdout[-4000:])
    axioms = []
    grab = False
    for line in p.stdout.split("\n"):
        if line.strip().startswith("* Axioms:"):
            grab = True
            rest = line.split("Axioms:")[1].strip()
            if rest and rest != "<none>":
                axioms.append(rest)
            continue
        if grab:
            if line.strip().startswith("*"):
                grab = False
            elif line.strip():
                axioms.append(line.strip())
    return axioms


# ------------------------------------------------------------------ running cases

CASE_TIMEOUT = float(os.environ.get("VERIF_CASE_TIMEOUT", "20"))
MAX_TIMEOUTS_PER_SHARD = int(os.environ.get("VERIF_MAX_TIMEOUTS", "3"))
NOT_RUN = "(not-run)"


def _run_shard(args):
    """One process per shard; one output line per input line.  A case that produces no output line within
    CASE_TIMEOUT seconds is answered `(timeout)` (the implementation or the model hangs on it), a case on
    which the process dies `(process-died rc=N)`; the remaining lines of the shard continue in a new process.
    After MAX_TIMEOUTS_PER_SHARD hanging cases the rest of the shard is answered `(not-run)`."""
    import select
    exe, lines, extra_env = args
    env = dict(os.environ)
    mode = "run"
    if isinstance(extra_env, tuple):
        extra_env, mode = extra_env
    env.update(extra_env or {})
    limit = CASE_TIMEOUT * (3 if exe == DRIVER_EXE else 1) * float(env.get("VERIF_CASE_TIMEOUT_FACTOR", "1"))
    out = []
    timeouts = 0
    while len(out) < len(lines):
        if timeouts >= MAX_TIMEOUTS_PER_SHARD:
            # enough hanging cases to report; the rest of the shard is not run (neither agreement nor disagreement)
            out.extend([NOT_RUN] * (len(lines) - len(out)))
            break
        rest = lines[len(out):]
        p = subprocess.Popen([exe] + ([] if exe == DRIVER_EXE else [mode]), stdin=subprocess.PIPE,
                             stdout=subprocess.PIPE, stderr=subprocess.DEVNULL, env=env)
        data = ("\n".join(rest) + "\n").encode("utf-8", "surrogateescape")

        def feed(proc=p, data=data):
            try:
                proc.stdin.write(data)
                proc.stdin.close()
            except (BrokenPipeError, OSError, ValueError):
                pass
        th = threading.Thread(target=feed, daemon=True)
        th.start()
        fd = p.stdout.fileno()
        buf = b""
        got = 0
        hung = False
        while True:
            r, _, _ = select.select([fd], [], [], limit)
            if not r:
                hung = True
                break
            chunk = os.read(fd, 1 << 16)
            if not chunk:
                break
            buf += chunk
            while True:
                k = buf.find(b"\n")
                if k < 0:
                    break
                out.append(buf[:k].decode("utf-8", "replace"))
                got += 1
                buf = buf[k + 1:]
            if got >= len(rest):
                break
        if hung:
            p.kill()
            p.wait()
            out.append("(timeout)")
            timeouts += 1
            continue
        try:
            p.wait(timeout=limit)
        except subprocess.TimeoutExpired:
            p.kill()
            p.wait()
        if got < len(rest):
            # a crash of the whole process (abort, stack overflow) on the case after the last answer
            out.append("(process-died rc=%d)" % p.returncode)
    return out[:len(lines)]


def run_lines(exe, lines, shards=NPROC, env=None, mode="run"):
    """Run case lines through the harness (`run`) or the driver, sharded over processes."""
    if not lines:
        return []
    n = max(1, min(shards, (len(lines) + 49) // 50))
    size = (len(lines) + n - 1) // n
    chunks = [lines[i:i + size] for i in range(0, len(lines), size)]
    with concurrent.futures.ThreadPoolExecutor(max_workers=n) as ex:
        outs = list(ex.map(_run_shard, [(exe, c, (env, mode)) for c in chunks]))
    return [x for o in outs for x in o]


# id of the part (props/<part>.json) whose pipeline is running; set by bin/check.  Every op's
# generator seed is derived from (VERIF_SEED, part id, op name): two parts (or two properties) that
# use the same op draw different cases, not a common prefix (audit 2, B12).
PART = ""


def derived_seed(op, seed, part=None):
    part = PART if part is None else part
    h = hashlib.sha256(f"{seed}|{part}|{op}".encode()).digest()
    return int.from_bytes(h[:8], "big") >> 1


GEN_TIMEOUT = float(os.environ.get("VERIF_GEN_TIMEOUT", "300"))


def generate(op, seed, count, part=None):
    # some generators pre-flight their cases with the code under test (component tables, tame cases): a
    # change of /repo that makes that code spin would hang `gen`, which has no per-case watchdog
    try:
        p = subprocess.run([HARNESS_EXE, "gen", op, str(derived_seed(op, seed, part)), str(count)], stdout=subprocess.PIPE,
                           text=True, timeout=GEN_TIMEOUT)
    except subprocess.TimeoutExpired:
        raise Broken(f"harness: `gen {op}` does not return within {GEN_TIMEOUT:.0f} s (its generator runs the code under test, "
                     "which hangs)")
    if p.returncode != 0:
        raise Broken(f"harness gen {op} failed")
    lines = p.stdout.split("\n")
    if lines and lines[-1] == "":
        lines.pop()
    return lines


def corpus_lines(ops):
    """corpus/<op>.txt: minimised past disagreements and hand-picked cases, run first."""
    lines = []
    for op in ops:
        path = os.path.join(VERIF, "corpus", op + ".txt")
        if os.path.exists(path):
            for line in open(path):
                line = line.rstrip("\n")
                if line and not line.startswith("#"):
                    lines.append(line if "\t" in line else f"{op}\t{line}")
    return lines


def sexp_size(s):
    return s.count("(")


def histogram(values, buckets=(2, 5, 10, 20, 40, 80, 160)):
    h = {}
    for v in values:
        for b in buckets:
            if v <= b:
                h[f"<={b}"] = h.get(f"<={b}", 0) + 1
                break
        else:
            h[f">{buckets[-1]}"] = h.get(f">{buckets[-1]}", 0) + 1
    return h


_TOKEN = re.compile(r'"((?:[^"\\]|\\.)*)"|([^\s()"]+)')


def tag_histogram(lines, tags):
    """occurrences of each tag as a TOKEN of the wire format: a constructor head `(tag ..`, a bare
    atom (`forward`, `inf`, `true`, ..) or the content of a string (`"V18446744073709551615"`).
    (The first version counted `(tag ` only, so tags written as atoms or strings read 0: audit 2, B12.)"""
    tags = [t for t in tags if not t.startswith("@")]
    h = {t: 0 for t in tags}
    if not tags:
        return h
    want = set(tags)
    for line in lines:
        for m in _TOKEN.finditer(line):
            tok = m.group(1) if m.group(2) is None else m.group(2)
            if tok in want:
                h[tok] += 1
    return h


def substring_histogram(lines, subs):
    """number of lines that contain each substring"""
    return {t: sum(1 for line in lines if t in line) for t in subs}


def feature_histogram(op, inputs, outputs, wanted):
    """`@name` tags: facts about a case (input and implementation output) computed by the harness
    itself from the parsed trees (harness/src/features.rs), e.g. `@ug-assumption-private-pred`;
    returns the number of cases that have each wanted feature (and of every other feature seen)."""
    wanted = [t for t in wanted if t.startswith("@")]
    h = {t: 0 for t in wanted}
    if not wanted:
        return h
    lines = [f"{op}\t{i}\t{o}" for i, o in zip(inputs, outputs)]
    outs = run_lines(HARNESS_EXE, lines, mode="features")
    for o in outs:
        for f in set(o.split()):
            k = "@" + f
            h[k] = h.get(k, 0) + 1
    return h


def write_replay(prop, payload):
    os.makedirs(REPLAY, exist_ok=True)
    blob = json.dumps(payload, indent=1, sort_keys=True)
    name = f"{prop}-{hashlib.sha256(blob.encode()).hexdigest()[:12]}.json"
    path = os.path.join(REPLAY, name)
    with open(path, "w") as f:
        f.write(blob + "\n")
    return path


def git_state(path):
    """(commit, dirty) of the git tree at `path`; dirty = tracked files differ from HEAD"""
    try:
        c = subprocess.run(["git", "-C", path, "rev-parse", "HEAD"], stdout=subprocess.PIPE, stderr=subprocess.DEVNULL, text=True).stdout.strip()
        d = subprocess.run(["git", "-C", path, "status", "--porcelain", "--untracked-files=no"], stdout=subprocess.PIPE, stderr=subprocess.DEVNULL, text=True).stdout.strip()
        return c or "unknown", bool(d)
    except Exception:
        return "unknown", False


def provenance():
    """which trees this run looked at (audit 2, B12): /repo and /verif commits + dirty flags, UTC time"""
    rc, rd = git_state(REPO)
    vc, vd = git_state(VERIF)
    return {"repo": REPO, "repo_commit": rc, "repo_dirty": rd, "verif": VERIF, "verif_commit": vc, "verif_dirty": vd,
            "utc": time.strftime("%Y-%m-%dT%H:%M:%SZ", time.gmtime())}


def write_evidence(prop, ev):
    os.makedirs(EVIDENCE, exist_ok=True)
    path = os.path.join(EVIDENCE, prop + ".json")
    with open(path, "w") as f:
        json.dump(ev, f, indent=1)
        f.write("\n")
    return path


def known_findings(prop):
    path = os.path.join(VERIF, "known_findings.jsonl")
    out = []
    if os.path.exists(path):
        for line in open(path):
            line = line.strip()
            if line and not line.startswith("#"):
                e = json.loads(line)
                if e.get("property") == prop:
                    out.append(e)
    return out


TRUSTED_BASE_COMMON = [
    "Coq 8.16.1 kernel (coqc; coqchk in the thorough tier); vm_compute only in Examples; no native_compute",
    "spec layer: Sem/Domain.v (standard domain and order), Sem/Sat.v (classical and HT satisfaction) - trusted by inspection",
    "hand-written Gallina model of the Rust functions, tied to /repo by the differential correspondence run of this check (sampled)",
    "extraction: ExtrOcamlBasic + ExtrOcamlString only (bool/option/unit/list/prod/sumbool/comparison -> OCaml natives, ascii -> char, string -> char list); Z/N/positive/nat stay extracted inductives; OCaml 4.13.1, zarith only in the wire-format conversion",
    "wire format: hand-written S-expression writers/readers (Rust harness conv.rs, OCaml conv.ml)",
    "not modelled: pest, clap, walkdir, petgraph, regex, threadpool, std I/O, process management, rustc",
]


# ------------------------------------------------------------------ S-expressions and shrinking

def sx_parse(s):
    pos = 0
    n = len(s)

    def skip():
        nonlocal pos
        while pos < n and s[pos] in " \t\r\n":
            pos += 1

    def expr():
        nonlocal pos
        skip()
        if pos >= n:
            raise ValueError("eof")
        c = s[pos]
        if c == "(":
            pos += 1
            items = []
            while True:
                skip()
                if pos >= n:
                    raise ValueError("unclosed")
                if s[pos] == ")":
                    pos += 1
                    return items
                items.append(expr())
        if c == '"':
            start = pos
            pos += 1
            while pos < n and s[pos] != '"':
                if s[pos] == "\\":
                    pos += 1
                pos += 1
            pos += 1
            return s[start:pos]
        start = pos
        while pos < n and s[pos] not in ' \t\r\n()"':
            pos += 1
        return s[start:pos]

    e = expr()
    skip()
    if pos != n:
        raise ValueError("trailing")
    return e


def sx_print(e):
    if isinstance(e, list):
        return "(" + " ".join(sx_print(x) for x in e) + ")"
    return e


def _sx_candidates(e):
    """Single-step reductions of an S-expression: replace a list node by one of its list children,
    or delete one element of a list with more than two elements."""
    out = []

    def walk(node, rebuild):
        if not isinstance(node, list):
            return
        for i, c in enumerate(node):
            if isinstance(c, list):
                out.append(rebuild(c))
        if len(node) > 2:
            for i in range(1, len(node)):
                out.append(rebuild(node[:i] + node[i + 1:]))
        for i, c in enumerate(node):
            if isinstance(c, list):
                walk(c, lambda new, i=i, node=node, rebuild=rebuild: rebuild(node[:i] + [new] + node[i + 1:]))

    walk(e, lambda x: x)
    return out


def shrink_case(op, inp, still_fails, max_rounds=25, max_cands=400):
    """Greedy shrinking of a failing wire-format input.  still_fails(list of inputs) -> list of bool
    (evaluated in one batch).  Returns the smallest input found that still fails."""
    try:
        cur = sx_parse(inp)
    except ValueError:
        return inp
    deadline = time.time() + float(os.environ.get("VERIF_SHRINK_BUDGET", "180"))
    for _ in range(max_rounds):
        if time.time() > deadline:
            break
        cands = _sx_candidates(cur)
        seen = set()
        texts = []
        for c in cands:
            t = sx_print(c)
            if t not in seen and len(t) < len(sx_print(cur)):
                seen.add(t)
                texts.append(t)
        texts.sort(key=len)
        texts = texts[:max_cands]
        if not texts:
            break
        res = still_fails(texts)
        winners = [t for t, r in zip(texts, res) if r]
        if not winners:
            break
        cur = sx_parse(winners[0])
    return sx_print(cur)
