//! Generator of mini-gringo programs for the natural / mu / regularity checks (C08, C11-regularity).
//! Biased to the shapes on which the natural translation has something to decide:
//!   * variables occurring both inside and outside arithmetic,
//!   * intervals in heads and on the right of `=` comparisons,
//!   * symbols / #inf / #sup next to arithmetic,
//!   * choice heads with intervals,
//!   * head variables named like the fresh N<i> / N<i>_<j> variables,
//!   * regular and irregular rules in comparable proportions.
use crate::rng::Rng;
use anthem::syntax_tree::asp::mini_gringo as asp;

pub struct NatCfg {
    pub vars: Vec<&'static str>,
    /// percent chance that a term position receives an irregular term
    pub bad: usize,
    pub num_lo: i64,
    pub num_hi: i64,
    pub max_arity: usize,
    pub max_body: usize,
}

pub const FRESHLIKE: &[&str] = &["N", "N0", "N1", "N2", "N0_0", "N1_0", "N0_1", "N2_0"];
pub const PLAIN: &[&str] = &["X", "Y", "Z", "I", "J"];
const SYMS: &[&str] = &["a", "b", "n"];
const PREDS: &[&str] = &["p", "q", "r"];

fn var(rng: &mut Rng, cfg: &NatCfg) -> asp::Term {
    asp::Term::Variable(asp::Variable(rng.pick(&cfg.vars).to_string()))
}
fn num(rng: &mut Rng, cfg: &NatCfg) -> asp::Term {
    asp::Term::PrecomputedTerm(asp::PrecomputedTerm::Numeral(rng.range(cfg.num_lo, cfg.num_hi) as isize))
}
fn nonint(rng: &mut Rng) -> asp::Term {
    use asp::PrecomputedTerm as P;
    asp::Term::PrecomputedTerm(match rng.weighted(&[4, 1, 1]) {
        0 => P::Symbol(rng.pick(SYMS).to_string()),
        1 => P::Infimum,
        _ => P::Supremum,
    })
}
fn bin(op: asp::BinaryOperator, l: asp::Term, r: asp::Term) -> asp::Term {
    asp::Term::BinaryOperation { op, lhs: l.into(), rhs: r.into() }
}

/// arithmetic over variables and numerals: + - * and unary minus (regular of the first kind,
/// free of symbols)
pub fn arith(rng: &mut Rng, cfg: &NatCfg, depth: usize) -> asp::Term {
    if depth == 0 || rng.chance(45) {
        return if rng.chance(60) { var(rng, cfg) } else { num(rng, cfg) };
    }
    if rng.chance(15) {
        return asp::Term::UnaryOperation { op: asp::UnaryOperator::Negative, arg: arith(rng, cfg, depth - 1).into() };
    }
    use asp::BinaryOperator as B;
    let op = *rng.pick(&[B::Add, B::Add, B::Subtract, B::Multiply]);
    bin(op, arith(rng, cfg, depth - 1), arith(rng, cfg, depth - 1))
}

/// a term regular of the first kind
pub fn first_kind(rng: &mut Rng, cfg: &NatCfg) -> asp::Term {
    match rng.weighted(&[5, 2, 2, 6]) {
        0 => var(rng, cfg),
        1 => num(rng, cfg),
        2 => nonint(rng),
        _ => {
            // proper operation at the top
            let t = arith(rng, cfg, 2);
            match t {
                asp::Term::UnaryOperation { .. } | asp::Term::BinaryOperation { .. } => t,
                _ => bin(asp::BinaryOperator::Add, t, arith(rng, cfg, 1)),
            }
        }
    }
}

/// a term regular of the second kind
pub fn second_kind(rng: &mut Rng, cfg: &NatCfg) -> asp::Term {
    bin(asp::BinaryOperator::Interval, arith(rng, cfg, 1), arith(rng, cfg, 1))
}

/// a term that is regular of neither kind: symbol/#inf/#sup under an operator, / and \,
/// nested or shifted intervals, intervals with a symbolic bound
pub fn irregular(rng: &mut Rng, cfg: &NatCfg) -> asp::Term {
    use asp::BinaryOperator as B;
    match rng.below(7) {
        0 => bin(*rng.pick(&[B::Add, B::Subtract, B::Multiply]), nonint(rng), arith(rng, cfg, 1)),
        1 => bin(*rng.pick(&[B::Add, B::Multiply]), arith(rng, cfg, 1), nonint(rng)),
        2 => bin(*rng.pick(&[B::Divide, B::Modulo]), arith(rng, cfg, 1), arith(rng, cfg, 1)),
        3 => bin(B::Interval, second_kind(rng, cfg), arith(rng, cfg, 1)),
        4 => bin(*rng.pick(&[B::Add, B::Multiply]), second_kind(rng, cfg), arith(rng, cfg, 1)),
        5 => bin(B::Interval, arith(rng, cfg, 1), nonint(rng)),
        _ => asp::Term::UnaryOperation {
            op: asp::UnaryOperator::Negative,
            arg: (if rng.chance(50) { nonint(rng) } else { second_kind(rng, cfg) }).into(),
        },
    }
}

fn body_term(rng: &mut Rng, cfg: &NatCfg) -> asp::Term {
    if rng.chance(cfg.bad) {
        if rng.chance(50) { irregular(rng, cfg) } else { second_kind(rng, cfg) }
    } else {
        first_kind(rng, cfg)
    }
}
fn head_term(rng: &mut Rng, cfg: &NatCfg) -> asp::Term {
    if rng.chance(cfg.bad) {
        irregular(rng, cfg)
    } else if rng.chance(35) {
        second_kind(rng, cfg)
    } else {
        first_kind(rng, cfg)
    }
}

fn atom(rng: &mut Rng, cfg: &NatCfg, head: bool) -> asp::Atom {
    let arity = rng.weighted(&[1, 4, 4, 2]).min(cfg.max_arity);
    asp::Atom {
        predicate_symbol: rng.pick(PREDS).to_string(),
        terms: (0..arity).map(|_| if head { head_term(rng, cfg) } else { body_term(rng, cfg) }).collect(),
    }
}

fn relation(rng: &mut Rng) -> asp::Relation {
    use asp::Relation as R;
    *rng.pick(&[R::Equal, R::NotEqual, R::Less, R::LessEqual, R::Greater, R::GreaterEqual])
}

fn body_formula(rng: &mut Rng, cfg: &NatCfg) -> asp::AtomicFormula {
    if rng.chance(55) {
        asp::AtomicFormula::Literal(asp::Literal {
            sign: match rng.weighted(&[6, 3, 2]) {
                0 => asp::Sign::NoSign,
                1 => asp::Sign::Negation,
                _ => asp::Sign::DoubleNegation,
            },
            atom: atom(rng, cfg, false),
        })
    } else if rng.chance(40) {
        // t = t1..t2 (second kind); with a small chance another relation or a swapped one (irregular)
        let lhs = first_kind(rng, cfg);
        let rhs = second_kind(rng, cfg);
        let (relation, lhs, rhs) = if rng.chance(cfg.bad) {
            if rng.chance(50) { (relation(rng), lhs, rhs) } else { (asp::Relation::Equal, rhs, lhs) }
        } else {
            (asp::Relation::Equal, lhs, rhs)
        };
        asp::AtomicFormula::Comparison(asp::Comparison { relation, lhs, rhs })
    } else {
        asp::AtomicFormula::Comparison(asp::Comparison {
            relation: relation(rng),
            lhs: body_term(rng, cfg),
            rhs: body_term(rng, cfg),
        })
    }
}

pub fn rule(rng: &mut Rng, cfg: &NatCfg) -> asp::Rule {
    let head = match rng.weighted(&[6, 4, 1]) {
        0 => asp::Head::Basic(atom(rng, cfg, true)),
        1 => asp::Head::Choice(atom(rng, cfg, true)),
        _ => asp::Head::Falsity,
    };
    let n = rng.below(cfg.max_body + 1);
    asp::Rule { head, body: asp::Body { formulas: (0..n).map(|_| body_formula(rng, cfg)).collect() } }
}

pub fn cfg(rng: &mut Rng, bad: usize) -> NatCfg {
    // few names, so that the same variable is met inside and outside arithmetic; the fresh-like
    // names dominate in a third of the cases
    let vars: Vec<&'static str> = match rng.below(3) {
        0 => vec!["N0", "N1", "N0_0", "N1_0", "N", "X"],
        1 => vec!["X", "Y", "N0", "N1"],
        _ => vec!["X", "Y", "Z", "N2", "N0_1", "N2_0"],
    };
    NatCfg { vars, bad, num_lo: -2, num_hi: 4, max_arity: 3, max_body: 3 }
}

/// programs: half of them made of regular-biased rules only (so that whole programs are accepted
/// in a comparable proportion), half with irregular terms sprinkled in
pub fn program(rng: &mut Rng) -> asp::Program {
    let bad = if rng.chance(50) { 0 } else { 8 + rng.below(10) };
    let c = cfg(rng, bad);
    let n = 1 + rng.weighted(&[5, 3, 2]);
    asp::Program { rules: (0..n).map(|_| rule(rng, &c)).collect() }
}

/// small programs for the semantic check: one or two rules, few variables, tiny numerals
pub fn small_program(rng: &mut Rng) -> asp::Program {
    let bad = if rng.chance(85) { 0 } else { 10 };
    let vars: Vec<&'static str> = match rng.below(3) {
        0 => vec!["N0", "N1"],
        1 => vec!["X", "N0"],
        _ => vec!["X", "Y"],
    };
    let c = NatCfg { vars, bad, num_lo: -1, num_hi: 3, max_arity: 2, max_body: 2 };
    let n = 1 + rng.weighted(&[7, 3]);
    asp::Program { rules: (0..n).map(|_| rule(rng, &c)).collect() }
}
