//! C18, classic portfolio (INTUITIONISTIC ++ HT ++ CLASSIC under the fixpoint strategy):
//! the instrumented, bounded replay of `Apply::apply_fixpoint`, the termination measure of
//! coq/theories/Model/ClsTerm.v re-implemented on the real syntax tree, and generators of the
//! formula families that stress the interplay of the rules (quantifier prefixes that
//! `extend_quantifier_scope` has to pull out one per pass, chains of defined variables whose
//! substitution grows terms, cascades of `restrict_quantifier_domain` with fresh-name collisions,
//! chains of transitive equalities, orientation ping-pong candidates, and mixtures of them).
use crate::{ext::simplcls as sc, generate as g, rng::Rng};
use anthem::{
    convenience::{apply::Apply as _, compose::Compose as _},
    syntax_tree::fol::sigma_0 as fol,
};
use fol::{Formula as F, GeneralTerm as G, IntegerTerm as I, Sort, SymbolicTerm as S};

/// = MAX_PASSES / SIZE_CAP of Model/ClsTerm.v
pub const MAX_PASSES: usize = 400;
pub const SIZE_CAP: u64 = 200_000;

// ------------------------------------------------------------------ sizes and the measure

fn iterm_size(t: &I) -> u64 {
    match t {
        I::Numeral(_) | I::FunctionConstant(_) | I::Variable(_) => 1,
        I::UnaryOperation { arg, .. } => 1 + iterm_size(arg),
        I::BinaryOperation { lhs, rhs, .. } => 1 + iterm_size(lhs) + iterm_size(rhs),
    }
}
fn gterm_size(t: &G) -> u64 {
    match t {
        G::IntegerTerm(t) => iterm_size(t),
        _ => 1,
    }
}
fn atomic_size(a: &fol::AtomicFormula) -> u64 {
    match a {
        fol::AtomicFormula::Truth | fol::AtomicFormula::Falsity => 1,
        fol::AtomicFormula::Atom(a) => 1 + a.terms.iter().map(gterm_size).sum::<u64>(),
        fol::AtomicFormula::Comparison(c) => {
            1 + gterm_size(&c.term) + c.guards.iter().map(|g| gterm_size(&g.term)).sum::<u64>()
        }
    }
}
/// full size, terms included
pub fn tsize(f: &F) -> u64 {
    match f {
        F::AtomicFormula(a) => atomic_size(a),
        F::UnaryFormula { formula, .. } => 1 + tsize(formula),
        F::BinaryFormula { lhs, rhs, .. } => 1 + tsize(lhs) + tsize(rhs),
        F::QuantifiedFormula { quantification, formula } => {
            1 + quantification.variables.len() as u64 + tsize(formula)
        }
    }
}

/// mu of Model/SimplIntuit.v
pub fn mu(f: &F) -> u64 {
    match f {
        F::AtomicFormula(fol::AtomicFormula::Comparison(c)) => {
            if c.guards.is_empty() { 2 } else { 4 * c.guards.len() as u64 - 2 }
        }
        F::AtomicFormula(_) => 1,
        F::UnaryFormula { formula, .. } => 1 + mu(formula),
        F::BinaryFormula { connective, lhs, rhs } => {
            (if *connective == fol::BinaryConnective::ReverseImplication { 2 } else { 1 }) + mu(lhs) + mu(rhs)
        }
        F::QuantifiedFormula { quantification, formula } => 1 + quantification.variables.len() as u64 + mu(formula),
    }
}
pub fn m_gen(f: &F) -> u64 {
    match f {
        F::AtomicFormula(_) => 0,
        F::UnaryFormula { formula, .. } => m_gen(formula),
        F::BinaryFormula { lhs, rhs, .. } => m_gen(lhs) + m_gen(rhs),
        F::QuantifiedFormula { quantification, formula } => {
            quantification.variables.iter().filter(|v| v.sort == Sort::General).count() as u64 + m_gen(formula)
        }
    }
}
pub fn m_qn(f: &F) -> u64 {
    match f {
        F::AtomicFormula(_) => 0,
        F::UnaryFormula { formula, .. } => m_qn(formula),
        F::BinaryFormula { lhs, rhs, .. } => m_qn(lhs) + m_qn(rhs),
        F::QuantifiedFormula { formula, .. } => 1 + m_qn(formula),
    }
}
pub fn m_scope(f: &F) -> u64 {
    match f {
        F::AtomicFormula(_) => 0,
        F::UnaryFormula { formula, .. } => m_scope(formula),
        F::BinaryFormula { lhs, rhs, .. } => m_qn(lhs) + m_qn(rhs) + m_scope(lhs) + m_scope(rhs),
        F::QuantifiedFormula { formula, .. } => m_scope(formula),
    }
}
fn is_bare(t: &G) -> bool {
    matches!(t, G::Variable(_) | G::IntegerTerm(I::Variable(_)) | G::SymbolicTerm(S::Variable(_)))
}
pub fn m_def(f: &F) -> u64 {
    match f {
        F::AtomicFormula(fol::AtomicFormula::Comparison(c)) => {
            let mut n = 0;
            let mut lhs = &c.term;
            for gd in &c.guards {
                if gd.relation == fol::Relation::Equal && *lhs != gd.term && (is_bare(lhs) || is_bare(&gd.term)) {
                    n += 1;
                }
                lhs = &gd.term;
            }
            n
        }
        F::AtomicFormula(_) => 0,
        F::UnaryFormula { formula, .. } => m_def(formula),
        F::BinaryFormula { lhs, rhs, .. } => m_def(lhs) + m_def(rhs),
        F::QuantifiedFormula { formula, .. } => m_def(formula),
    }
}
/// (size mu gen qn scope def)
pub fn measure(f: &F) -> [u64; 6] {
    [tsize(f), mu(f), m_gen(f), m_qn(f), m_scope(f), m_def(f)]
}

// ------------------------------------------------------------------ the bounded loop

pub enum Passes {
    Done(usize, F, Vec<[u64; 6]>),
    Nonterminating(usize),
    TooLarge(usize),
    /// the bounded replay converged after `n` passes, but the REAL `Apply::apply_fixpoint`
    /// (called on the same input with the same composed portfolio) returned something else
    FixpointDiffers(usize, F),
}

/// The real, unbounded `Apply::apply_fixpoint` with the real composed portfolio.  Only call it on an
/// input for which the bounded replay has already converged (termination is known then).
pub fn real_apply_fixpoint(portfolio: &[fn(F) -> F], formula: F) -> F {
    let mut simplification = portfolio.to_vec().into_iter().compose();
    formula.apply_fixpoint(&mut simplification)
}

/// `Apply::apply_fixpoint` (`while previous != current`) replayed pass by pass with the real
/// composed portfolio and the real `Apply::apply`; the checks are in the order of
/// `classic_passes_from` of Model/ClsTerm.v
///
/// Once the replay has converged (so the real loop is known to return), the real
/// `Formula::apply_fixpoint` is run on the same input as well: the replay is the harness's own
/// loop, and a change of the loop in /repo (a pass cap, a different exit test) is invisible to it.
pub fn passes(portfolio: Vec<fn(F) -> F>, formula: F) -> Passes {
    passes_with(portfolio, formula, SIZE_CAP, true)
}
/// the real loop is run as well when no formula of the replayed run exceeds this size (a run through
/// formulas of 10^5 nodes takes half a minute; repeating it adds nothing about the loop)
pub const REAL_LOOP_SIZE: u64 = 30_000;
/// `passes` with another size cap (the generators' pre-flight uses a small one) and with / without
/// the call of the real loop
pub fn passes_with(portfolio: Vec<fn(F) -> F>, formula: F, size_cap: u64, call_real: bool) -> Passes {
    let input = formula.clone();
    let mut simplification = portfolio.clone().into_iter().compose();
    let mut trace = vec![measure(&formula)];
    let mut previous = formula;
    let mut current = previous.clone().apply(&mut simplification);
    let mut n = 1;
    let mut fuel = MAX_PASSES;
    loop {
        if previous == current {
            if call_real && trace.iter().all(|e| e[0] <= REAL_LOOP_SIZE) {
                let real = real_apply_fixpoint(&portfolio, input);
                if real != current {
                    return Passes::FixpointDiffers(n, real);
                }
            }
            return Passes::Done(n, current, trace);
        }
        if tsize(&current) > size_cap {
            return Passes::TooLarge(n);
        }
        if fuel == 0 {
            return Passes::Nonterminating(n);
        }
        fuel -= 1;
        trace.push(measure(&current));
        previous = current;
        current = previous.clone().apply(&mut simplification);
        n += 1;
    }
}

// ------------------------------------------------------------------ building blocks

fn var(name: &str, sort: Sort) -> fol::Variable {
    fol::Variable { name: name.to_string(), sort }
}
fn vt(v: &fol::Variable) -> G {
    sc::var_term(v)
}
fn cmp(l: G, r: fol::Relation, rh: G) -> F {
    F::AtomicFormula(fol::AtomicFormula::Comparison(fol::Comparison {
        term: l,
        guards: vec![fol::Guard { relation: r, term: rh }],
    }))
}
fn eq(l: G, r: G) -> F {
    cmp(l, fol::Relation::Equal, r)
}
fn eqo(rng: &mut Rng, l: G, r: G) -> F {
    if rng.chance(50) { eq(l, r) } else { eq(r, l) }
}
fn atom(p: &str, ts: Vec<G>) -> F {
    F::AtomicFormula(fol::AtomicFormula::Atom(fol::Atom { predicate_symbol: p.to_string(), terms: ts }))
}
fn bin(c: fol::BinaryConnective, l: F, r: F) -> F {
    F::BinaryFormula { connective: c, lhs: l.into(), rhs: r.into() }
}
fn and(l: F, r: F) -> F {
    bin(fol::BinaryConnective::Conjunction, l, r)
}
fn or(l: F, r: F) -> F {
    bin(fol::BinaryConnective::Disjunction, l, r)
}
fn not(f: F) -> F {
    F::UnaryFormula { connective: fol::UnaryConnective::Negation, formula: f.into() }
}
fn quant(q: fol::Quantifier, vs: Vec<fol::Variable>, f: F) -> F {
    F::QuantifiedFormula { quantification: fol::Quantification { quantifier: q, variables: vs }, formula: f.into() }
}
fn exists(vs: Vec<fol::Variable>, f: F) -> F {
    quant(fol::Quantifier::Exists, vs, f)
}
fn forall(vs: Vec<fol::Variable>, f: F) -> F {
    quant(fol::Quantifier::Forall, vs, f)
}
fn shuffle<T>(rng: &mut Rng, v: &mut [T]) {
    for i in (1..v.len()).rev() {
        let j = rng.below(i + 1);
        v.swap(i, j);
    }
}
/// conjunction (or disjunction) of the parts in the given order, random nesting
fn nest(rng: &mut Rng, c: fol::BinaryConnective, parts: &[F]) -> F {
    if parts.len() == 1 {
        return parts[0].clone();
    }
    let c2 = c.clone();
    let k = match rng.below(3) {
        0 => 1,
        1 => parts.len() - 1,
        _ => 1 + rng.below(parts.len() - 1),
    };
    let lhs = nest(rng, c2.clone(), &parts[..k]);
    let rhs = nest(rng, c2, &parts[k..]);
    bin(c, lhs, rhs)
}
fn conj(rng: &mut Rng, mut parts: Vec<F>, shuffled: bool) -> F {
    if shuffled {
        shuffle(rng, &mut parts);
    }
    nest(rng, fol::BinaryConnective::Conjunction, &parts)
}
fn sort_of(rng: &mut Rng, weights: &[usize; 3]) -> Sort {
    match rng.weighted(weights) {
        0 => Sort::General,
        1 => Sort::Integer,
        _ => Sort::Symbol,
    }
}
/// names: the pool contains the candidates `I`, `I1`, `I2`, .. that replacement_helper and
/// Formula::substitute pick as fresh names
fn name(rng: &mut Rng, i: usize) -> String {
    match rng.below(4) {
        0 => format!("X{i}"),
        1 => format!("I{i}"),
        2 => ["I", "I1", "I2", "J", "X", "X1", "Y", "Z"][rng.below(8)].to_string(),
        _ => format!("{}{}", ["I", "X", "Z"][rng.below(3)], rng.below(4)),
    }
}
fn distinct_vars(rng: &mut Rng, n: usize, weights: &[usize; 3]) -> Vec<fol::Variable> {
    let mut vs: Vec<fol::Variable> = vec![];
    let mut i = 0;
    while vs.len() < n {
        i += 1;
        let v = var(&name(rng, i), sort_of(rng, weights));
        if !vs.iter().any(|w| w.name == v.name) {
            vs.push(v);
        }
    }
    vs
}
fn int_term_over(rng: &mut Rng, vs: &[&fol::Variable], depth: usize) -> I {
    let ints: Vec<&&fol::Variable> = vs.iter().filter(|v| v.sort == Sort::Integer).collect();
    if depth == 0 || rng.chance(30) {
        if !ints.is_empty() && rng.chance(75) {
            I::Variable(ints[rng.below(ints.len())].name.clone())
        } else {
            I::Numeral(rng.range(-1, 3) as isize)
        }
    } else {
        I::BinaryOperation {
            op: match rng.below(3) {
                0 => fol::BinaryOperator::Add,
                1 => fol::BinaryOperator::Subtract,
                _ => fol::BinaryOperator::Multiply,
            },
            lhs: int_term_over(rng, vs, depth - 1).into(),
            rhs: int_term_over(rng, vs, depth - 1).into(),
        }
    }
}
/// a term that may define `x` (sort-compatible), over the variables `vs`
fn def_term(rng: &mut Rng, x: &fol::Variable, vs: &[&fol::Variable], depth: usize) -> G {
    match x.sort {
        Sort::Integer => G::IntegerTerm(int_term_over(rng, vs, depth)),
        Sort::Symbol => {
            let syms: Vec<&&fol::Variable> = vs.iter().filter(|v| v.sort == Sort::Symbol).collect();
            if !syms.is_empty() && rng.chance(70) {
                vt(syms[rng.below(syms.len())])
            } else {
                G::SymbolicTerm(S::Symbol(["a", "b"][rng.below(2)].to_string()))
            }
        }
        Sort::General => {
            if !vs.is_empty() && rng.chance(60) {
                let v = vs[rng.below(vs.len())];
                if v.sort == Sort::Integer && rng.chance(50) {
                    G::IntegerTerm(int_term_over(rng, vs, depth))
                } else {
                    vt(v)
                }
            } else {
                G::IntegerTerm(int_term_over(rng, vs, depth))
            }
        }
    }
}
fn uses(rng: &mut Rng, vs: &[&fol::Variable]) -> F {
    let p = ["p", "q", "r"][rng.below(3)];
    let mut ts: Vec<G> = vs.iter().map(|v| vt(v)).collect();
    if ts.len() > 3 {
        shuffle(rng, &mut ts);
        ts.truncate(3);
    }
    let a = atom(p, ts);
    if rng.chance(15) { not(a) } else { a }
}

// ------------------------------------------------------------------ families

/// 1. an alternating quantifier prefix below and/or: extend_quantifier_scope pulls one block per
///    pass (the node created by a pull is visited in the next pass only)
pub fn fam_prefix(rng: &mut Rng, n: usize) -> F {
    let vs = distinct_vars(rng, n, &[1, 1, 1]);
    let refs: Vec<&fol::Variable> = vs.iter().collect();
    // every variable of the prefix is used (otherwise remove_orphaned_variables deletes the block)
    let mut f = atom("p", vs.iter().map(vt).collect());
    let mut q = rng.chance(50);
    for v in vs.iter().rev() {
        let mut block = vec![v.clone()];
        if rng.chance(15) {
            block.push(var(&name(rng, 9), Sort::Integer)); // orphan
        }
        f = if q { forall(block, f) } else { exists(block, f) };
        if !rng.chance(12) {
            q = !q; // same quantifier twice: join_nested_quantifiers
        }
        if rng.chance(20) {
            f = not(not(f));
        }
    }
    let other = match rng.below(4) {
        0 => uses(rng, &[]),
        1 => uses(rng, &refs[..1]), // collision with the outermost block
        2 => fam_prefix_small(rng),
        _ => atom("q", vec![]),
    };
    let c = if rng.chance(50) { fol::BinaryConnective::Conjunction } else { fol::BinaryConnective::Disjunction };
    let mut f = if rng.chance(50) { bin(c, f, other) } else { bin(c, other, f) };
    let wraps = rng.below(3);
    for _ in 0..wraps {
        let o = atom("r", vec![]);
        let c = if rng.chance(50) { fol::BinaryConnective::Conjunction } else { fol::BinaryConnective::Disjunction };
        f = if rng.chance(50) { bin(c, f, o) } else { bin(c, o, f) };
    }
    f
}
fn fam_prefix_small(rng: &mut Rng) -> F {
    let k = 1 + rng.below(3);
    let vs = distinct_vars(rng, k, &[1, 1, 1]);
    let mut f = atom("q", vs.iter().map(vt).collect());
    let mut q = rng.chance(50);
    for v in vs.iter().rev() {
        f = if q { forall(vec![v.clone()], f) } else { exists(vec![v.clone()], f) };
        q = !q;
    }
    f
}

/// 2. a chain of defined variables in one existential block (or in nested blocks):
///    X1 = t1(X2..), X2 = t2(X3..), ..: substitution grows terms; with `cyclic` the last
///    definition mentions the first variable (occurs check)
pub fn fam_defchain(rng: &mut Rng, n: usize) -> F {
    let weights = match rng.below(3) {
        0 => [0, 1, 0],
        1 => [1, 2, 0],
        _ => [2, 2, 1],
    };
    let vs = distinct_vars(rng, n, &weights);
    let cyclic = rng.chance(25);
    let depth = rng.below(3);
    let mut parts = vec![];
    for i in 0..n {
        let later: Vec<&fol::Variable> = if cyclic {
            vs.iter().collect()
        } else if rng.chance(80) {
            vs[i + 1..].iter().take(2).collect()
        } else {
            vs[i + 1..].iter().collect()
        };
        let t = def_term(rng, &vs[i], &later, depth);
        parts.push(eqo(rng, vt(&vs[i]), t));
    }
    let k = 1 + rng.below(2.min(n));
    let used: Vec<&fol::Variable> = vs.iter().take(k).collect();
    parts.push(uses(rng, &used));
    if rng.chance(30) {
        parts.push(fam_small(rng));
    }
    let mut block = vs.clone();
    if rng.chance(50) {
        shuffle(rng, &mut block);
    }
    if rng.chance(25) {
        // nested blocks: the definitions of the inner block mention the outer variables
        let cut = 1 + rng.below(n.max(2) - 1);
        let (outer, inner) = block.split_at(cut.min(block.len()));
        let sh = rng.chance(60);
        let body = conj(rng, parts, sh);
        if inner.is_empty() {
            exists(outer.to_vec(), body)
        } else {
            exists(outer.to_vec(), and(exists(inner.to_vec(), body), atom("q", vec![])))
        }
    } else {
        let shuffled = rng.chance(60);
        exists(block, conj(rng, parts, shuffled))
    }
}

/// 3. cascades of restrict_quantifier_domain: several general variables, each forced to be an
///    integer by an inner existential; the fresh names collide with names already present
pub fn fam_restrict(rng: &mut Rng, n: usize) -> F {
    let zs = distinct_vars(rng, n, &[8, 1, 0]);
    let forall_case = rng.chance(35);
    let mut parts = vec![];
    let mut all_inner = vec![];
    for (k, z) in zs.iter().enumerate() {
        let iname = if rng.chance(60) { "I".to_string() } else { name(rng, k + 20) };
        let i = var(&iname, if rng.chance(90) { Sort::Integer } else { Sort::General });
        let mut inner_vs = vec![i.clone()];
        if rng.chance(30) {
            inner_vs.push(var(&name(rng, k + 40), Sort::Integer));
        }
        let mut inner_parts = vec![eqo(rng, vt(&i), vt(z))];
        if rng.chance(70) {
            inner_parts.push(uses(rng, &[&i, z]));
        }
        if rng.chance(20) && k > 0 {
            inner_parts.push(eqo(rng, vt(&i), vt(&zs[k - 1])));
        }
        let shuffled = rng.chance(50);
        let body = conj(rng, inner_parts, shuffled);
        all_inner.push(i);
        parts.push(exists(inner_vs, body));
    }
    let zrefs: Vec<&fol::Variable> = zs.iter().collect();
    if forall_case {
        // forall Z.. (exists I (I = Z and ..) -> H), nested one per variable
        let mut f = if rng.chance(50) { uses(rng, &zrefs[..1]) } else { atom("q", vec![]) };
        for (k, z) in zs.iter().enumerate().rev() {
            f = forall(vec![z.clone()], bin(fol::BinaryConnective::Implication, parts[k].clone(), f));
        }
        f
    } else {
        if rng.chance(70) {
            parts.push(uses(rng, &zrefs));
        }
        if parts.len() == 1 {
            parts.push(atom("q", vec![]));
        }
        let mut block = zs.clone();
        if rng.chance(30) {
            block.push(var("I1", Sort::Integer));
        }
        if rng.chance(25) {
            // nested inner existentials instead of siblings
            let mut f = atom("q", vec![]);
            for p in parts.iter().rev() {
                f = and(p.clone(), f);
            }
            exists(block, f)
        } else {
            let shuffled = rng.chance(50);
            exists(block, conj(rng, parts, shuffled))
        }
    }
}

/// 4. chains of transitive equalities X1 = t, X2 = t, .. and X1 = X2, X2 = X3, .. in both
///    orientations and mixed sorts (keep / drop decided by subsort)
pub fn fam_transitive(rng: &mut Rng, n: usize) -> F {
    let vs = distinct_vars(rng, n, &[3, 3, 1]);
    let mut parts = vec![];
    match rng.below(3) {
        0 => {
            let t = if rng.chance(50) { G::IntegerTerm(I::Numeral(1)) } else { vt(&vs[0]) };
            for v in &vs {
                parts.push(eqo(rng, vt(v), t.clone()));
            }
        }
        1 => {
            for w in vs.windows(2) {
                parts.push(eqo(rng, vt(&w[0]), vt(&w[1])));
            }
            if rng.chance(40) {
                parts.push(eqo(rng, vt(&vs[n - 1]), vt(&vs[0]))); // a cycle of equalities
            }
        }
        _ => {
            for _ in 0..n {
                let a = &vs[rng.below(n)];
                let b = &vs[rng.below(n)];
                parts.push(eqo(rng, vt(a), vt(b)));
            }
        }
    }
    let refs: Vec<&fol::Variable> = vs.iter().collect();
    if rng.chance(70) {
        parts.push(uses(rng, &refs));
    }
    if rng.chance(20) {
        let d = parts[rng.below(parts.len())].clone();
        parts.push(d);
    }
    let mut block = vs.clone();
    if rng.chance(30) {
        block.remove(rng.below(block.len())); // one of them free
    }
    if block.is_empty() {
        block.push(vs[0].clone());
    }
    let shuffled = rng.chance(60);
    exists(block, conj(rng, parts, shuffled))
}

/// a small redex of a random family (used as a component)
fn fam_small(rng: &mut Rng) -> F {
    match rng.below(5) {
        0 => fam_prefix_small(rng),
        1 => {
            let k = 1 + rng.below(2);
            fam_defchain(rng, k)
        }
        2 => fam_restrict(rng, 1),
        3 => fam_transitive(rng, 2),
        _ => {
            let c = sc::cfg(rng);
            sc::redex(rng, &c, 0, None)
        }
    }
}

/// 5. mixtures: components of all families under connectives and binders that share names, so
///    that one rule's output is another rule's redex (scope extension exposing definitions to an
///    outer block, domain restriction turning `I = Z` into an integer definition, ...)
pub fn fam_mix(rng: &mut Rng, n: usize) -> F {
    let mut parts: Vec<F> = (0..n.max(1)).map(|_| fam_small(rng)).collect();
    if rng.chance(50) {
        parts.push(uses(rng, &[]));
    }
    let k = 1 + rng.below(3);
    let shared = distinct_vars(rng, k, &[3, 2, 1]);
    let refs: Vec<&fol::Variable> = shared.iter().collect();
    if rng.chance(60) {
        parts.push(uses(rng, &refs));
    }
    if rng.chance(40) {
        let x = &shared[0];
        let t = def_term(rng, x, &refs[1..], 1);
        parts.push(eqo(rng, vt(x), t));
    }
    let mut f = if rng.chance(75) {
        conj(rng, parts, true)
    } else {
        shuffle(rng, &mut parts);
        nest(rng, fol::BinaryConnective::Disjunction, &parts)
    };
    let wraps = rng.below(4);
    for _ in 0..wraps {
        f = match rng.below(7) {
            0 => not(f),
            1 => exists(shared.clone(), f),
            2 => forall(shared.clone(), f),
            3 => and(f, fam_small(rng)),
            4 => or(fam_small(rng), f),
            5 => bin(g::connective(rng), f, fam_small(rng)),
            _ => exists(vec![shared[0].clone()], and(f, uses(rng, &refs[..1]))),
        };
    }
    f
}

/// 6. orientation ping-pong candidates: the same equation in both orientations / at two sorts,
///    in nested existentials that restrict_quantifier_domain, substitute_defined_variables and
///    simplify_transitive_equality all match
pub fn fam_orient(rng: &mut Rng, n: usize) -> F {
    let z = var(["Z", "Y", "I"][rng.below(3)], Sort::General);
    let mut f = uses(rng, &[&z]);
    let mut inner_all = vec![];
    for k in 0..n.max(1) {
        let i = var(&if rng.chance(50) { "I".to_string() } else { format!("I{k}") }, Sort::Integer);
        let mut ps = vec![eqo(rng, vt(&i), vt(&z))];
        if rng.chance(50) {
            ps.push(eqo(rng, vt(&z), vt(&i)));
        }
        if rng.chance(40) && !inner_all.is_empty() {
            let j: &fol::Variable = &inner_all[rng.below(inner_all.len())];
            ps.push(eqo(rng, vt(&i), vt(j)));
        }
        ps.push(f);
        let body = conj(rng, ps, true);
        f = exists(vec![i.clone()], body);
        inner_all.push(i);
        if rng.chance(30) {
            f = and(f, uses(rng, &[&z]));
        }
    }
    if !matches!(f, F::BinaryFormula { .. }) {
        f = and(f, uses(rng, &[&z]));
    }
    if rng.chance(70) { exists(vec![z], f) } else { forall(vec![z.clone()], bin(fol::BinaryConnective::Implication, f, uses(rng, &[]))) }
}

/// 7. a conjunction (or disjunction) of n quantified formulas over their own variables:
///    extend_quantifier_scope moves ONE quantifier to the front per pass (n + 1 passes and more)
pub fn fam_pulled(rng: &mut Rng, n: usize) -> F {
    let c = if rng.chance(70) { fol::BinaryConnective::Conjunction } else { fol::BinaryConnective::Disjunction };
    let same_q = rng.chance(60);
    let q0 = rng.chance(70);
    let mut parts = vec![];
    for k in 0..n.max(1) {
        let s = sort_of(rng, &[4, 2, 1]);
        let v = var(&format!("{}{}", ["A", "B", "X"][rng.below(3)], k + 1), s);
        let p = format!("{}{}", ["a", "b"][rng.below(2)], if rng.chance(70) { (k + 1).to_string() } else { String::new() });
        let mut body = atom(&p, vec![vt(&v)]);
        if v.sort != Sort::Symbol && rng.chance(70) {
            let z = G::IntegerTerm(I::Numeral(0));
            let g = cmp(z, fol::Relation::Less, vt(&v));
            body = if rng.chance(80) { and(body, g) } else { or(g, body) };
        }
        let ex = if same_q { q0 } else { rng.chance(50) };
        parts.push(if ex { exists(vec![v], body) } else { forall(vec![v], body) });
    }
    if rng.chance(20) {
        parts.push(uses(rng, &[]));
    }
    match rng.below(3) {
        // left-nested (the parser's shape), right-nested, random
        0 => parts.into_iter().reduce(|l, r| bin(c.clone(), l, r)).unwrap(),
        1 => parts.into_iter().rev().reduce(|r, l| bin(c.clone(), l, r)).unwrap(),
        _ => nest(rng, c, &parts),
    }
}

/// 8. the tau* translation of a rule whose body has n literals with arithmetic terms: tau*
///    introduces one general variable per literal and restrict_quantifier_domain narrows ONE
///    general variable per pass (n = 14: the fixpoint needs more than a dozen passes)
pub fn fam_taustar(rng: &mut Rng, n: usize) -> F {
    use anthem::{
        syntax_tree::asp::mini_gringo as asp,
        translating::formula_representation::tau_star::TauStar as _,
    };
    let text = long_body_rule(rng, n);
    let program: asp::Program = text.parse().expect("fam_taustar: generated rule does not parse");
    program.tau_star().formulas.into_iter().next().expect("fam_taustar: empty theory")
}
/// the text of one rule whose body has n literals with arithmetic terms
pub fn long_body_rule(rng: &mut Rng, n: usize) -> String {
    let mut lits = vec![];
    for k in 1..=n.max(1) {
        let x = if rng.chance(85) { format!("X{k}") } else { format!("X{}", 1 + rng.below(k)) };
        let t = match rng.below(6) {
            0 => format!("{x}-{k}"),
            1 => format!("{x}*2"),
            2 => format!("{k}+{x}"),
            _ => format!("{x}+{k}"),
        };
        let p = ["p", "p", "r"][rng.below(3)];
        let l = match rng.below(10) {
            0 => format!("not {p}({t})"),
            1 => format!("{t} > 0"),
            _ => format!("{p}({t})"),
        };
        lits.push(l);
    }
    let head = match rng.below(4) {
        0 => "".to_string(),
        1 => "q(X1)".to_string(),
        2 => "{q}".to_string(),
        _ => "q".to_string(),
    };
    format!("{head} :- {}.", lits.join(", "))
}

/// the generator of the op `classic_passes`
pub fn case(rng: &mut Rng) -> F {
    match rng.weighted(&[4, 6, 6, 4, 10, 4, 10, 1, 1]) {
        7 => {
            let big = rng.chance(30);
            let n = 1 + rng.below(if big { 30 } else { 8 });
            fam_pulled(rng, n)
        }
        8 => {
            let big = rng.chance(30);
            let n = 1 + rng.below(if big { 16 } else { 5 });
            fam_taustar(rng, n)
        }
        0 => {
            let big = rng.chance(10);
            let n = 1 + rng.below(if big { 40 } else { 8 });
            fam_prefix(rng, n)
        }
        1 => {
            let big = rng.chance(10);
            let n = 1 + rng.below(if big { 12 } else { 6 });
            fam_defchain(rng, n)
        }
        2 => {
            let n = 1 + rng.below(5);
            fam_restrict(rng, n)
        }
        3 => {
            let n = 2 + rng.below(6);
            fam_transitive(rng, n)
        }
        4 => {
            let n = 1 + rng.below(4);
            fam_mix(rng, n)
        }
        5 => {
            let n = 1 + rng.below(4);
            fam_orient(rng, n)
        }
        _ => sc::formula_nested(rng),
    }
}

/// A formula of the many-pass families is kept only if the fixpoint loop of the classic portfolio stays
/// small on it (a chain of n definitions is expanded to size 2^n: the debug binary needs a minute for
/// n = 14, which the crash stream would report as a hang).  A panic of the real code during this
/// pre-flight keeps the formula: it is exactly what the stream is looking for.
pub fn tame(f: &F) -> bool {
    use std::sync::atomic::{AtomicBool, Ordering};
    // The pre-flight runs the code under test.  A single rewrite that never returns (seeded change C18_r5:
    // the fresh-name loop of restrict_quantifier_domain spins when I, I1, I2 all occur) would hang the
    // GENERATOR, which no watchdog covers: the pre-flight therefore runs on its own thread and is given
    // PREFLIGHT_SECS; a formula on which it does not return is kept (it is exactly what the stream is
    // looking for: the command under test hangs on it and the stream's watchdog reports it), and no
    // further pre-flight is run by this process (the abandoned thread keeps spinning until `gen` exits).
    static HUNG: AtomicBool = AtomicBool::new(false);
    const PREFLIGHT_SECS: u64 = 20;
    if HUNG.load(Ordering::SeqCst) {
        return true;
    }
    std::panic::set_hook(Box::new(|_| {}));
    let f = f.clone();
    let (tx, rx) = std::sync::mpsc::channel();
    std::thread::Builder::new()
        .stack_size(256 << 20)
        .spawn(move || {
            let _ = tx.send(tame_now(&f));
        })
        .expect("pre-flight thread");
    match rx.recv_timeout(std::time::Duration::from_secs(PREFLIGHT_SECS)) {
        Ok(small) => small,
        Err(std::sync::mpsc::RecvTimeoutError::Timeout) => {
            HUNG.store(true, Ordering::SeqCst);
            true
        }
        // the thread died without an answer (stack overflow is an abort, so this is a panic outside catch_unwind)
        Err(std::sync::mpsc::RecvTimeoutError::Disconnected) => true,
    }
}
fn tame_now(f: &F) -> bool {
    use anthem::verif::simplifying_fol::sigma_0::{classic::CLASSIC, ht::HT, intuitionistic::INTUITIONISTIC};
    // under the CLI's classic portfolio and under CLASSIC alone
    for portfolio in [[INTUITIONISTIC, HT, CLASSIC].concat(), CLASSIC.to_vec()] {
        let f2 = f.clone();
        let r = std::panic::catch_unwind(move || passes_with(portfolio, f2, 3000, true));
        let small = match r {
            Err(_) => true,
            Ok(Passes::Done(_, g, trace)) => trace.iter().all(|e| e[0] <= 3000) && tsize(&g) <= 3000,
            Ok(Passes::FixpointDiffers(..)) => true,
            Ok(_) => false,
        };
        if !small {
            return false;
        }
    }
    true
}
pub fn tame_case(rng: &mut Rng) -> F {
    for _ in 0..20 {
        let f = case(rng);
        if tame(&f) {
            return f;
        }
    }
    fam_prefix(rng, 3)
}
