//! Generators for the classic simplification portfolio (C07, classic half) and the bounded
//! re-implementation of the three strategies of procedures.rs.
//!
//! A uniformly random formula almost never contains a redex of `restrict_quantifier_domain` or
//! `simplify_transitive_equality`, so the generators are built from *templates* of the rules'
//! left-hand sides, perturbed in every way the rules' side conditions mention: equation
//! orientation, position of the equation inside the conjunction, shadowed / repeated / re-bound
//! binders, equalities whose sides share variables (`X = t(X)`), mixed-sort equalities, duplicated
//! conjuncts, fresh-name candidates (`I1`, `J1`, ...) already taken, and chains.
//!
//! *Chains.*  Every place where a rule expects "an equation" (`equality_comparison`: exactly one
//! guard, `=`) also receives comparisons with 2-3 guards built around that equation
//! (`equation_or_chain`): all-`=` chains whose first link is the equation (`X = t = u`,
//! `X = t = u = w`), mixed chains (`X = t < u`), chains where a later link is the equation
//! (`u <= X = t`), chains that repeat a term (`X = t = X`, `X = t = t`).  The rules read only
//! `term` and `guards[0]` of a comparison, so a rule that accepts such a chain as an equation drops
//! or rewrites the other links.  `redex_ste` has a *protected* variant (integer / symbol sorted
//! block variables equated with a general term) on which `substitute_defined_variables` cannot
//! consume the equations before `simplify_transitive_equality` sees them under a strategy.
use crate::{generate as g, rng::Rng};
use anthem::{
    convenience::{apply::Apply as _, compose::Compose as _},
    syntax_tree::fol::sigma_0 as fol,
};
use fol::{Formula as F, GeneralTerm as G, IntegerTerm as I, Sort, SymbolicTerm as S};

/// number of extra applications `apply_fixpoint` may perform before the harness (and the model,
/// with the same fuel) answer `(nonterminating)`
pub const FIXPOINT_FUEL: usize = 25;
/// size guard (nodes) for the fixpoint loop of a mutated implementation
pub const SIZE_CAP: usize = 200_000;

#[derive(Clone, Copy, Debug, PartialEq, Eq)]
pub enum Strategy {
    Shallow,
    Recursive,
    Fixpoint,
}

pub fn strategy_name(s: Strategy) -> &'static str {
    match s {
        Strategy::Shallow => "shallow",
        Strategy::Recursive => "recursive",
        Strategy::Fixpoint => "fixpoint",
    }
}
pub fn parse_strategy(x: &str) -> Option<Strategy> {
    match x {
        "shallow" => Some(Strategy::Shallow),
        "recursive" => Some(Strategy::Recursive),
        "fixpoint" => Some(Strategy::Fixpoint),
        _ => None,
    }
}

pub fn size(f: &F) -> usize {
    match f {
        F::AtomicFormula(_) => 1,
        F::UnaryFormula { formula, .. } => 1 + size(formula),
        F::BinaryFormula { lhs, rhs, .. } => 1 + size(lhs) + size(rhs),
        F::QuantifiedFormula { formula, .. } => 1 + size(formula),
    }
}

pub enum Outcome {
    Done(F),
    Nonterminating,
    /// the bounded replay converged, the real `Apply::apply_fixpoint` returned something else
    FixpointDiffers(F),
}

/// exactly procedures.rs: `portfolio.into_iter().compose()`, then
/// shallow = call once, recursive = `apply`, fixpoint = `apply_fixpoint` (re-implemented with a
/// bound on the number of iterations: the original loop is unbounded)
pub fn run_strategy(portfolio: Vec<fn(F) -> F>, strategy: Strategy, formula: F) -> Outcome {
    let mut simplification = portfolio.clone().into_iter().compose();
    match strategy {
        Strategy::Shallow => Outcome::Done(simplification(formula)),
        Strategy::Recursive => Outcome::Done(formula.apply(&mut simplification)),
        Strategy::Fixpoint => {
            // Apply::apply_fixpoint with fuel
            let input = formula.clone();
            let mut previous = formula;
            let mut current = previous.clone().apply(&mut simplification);
            let mut fuel = FIXPOINT_FUEL;
            while previous != current {
                if fuel == 0 || size(&current) > SIZE_CAP {
                    return Outcome::Nonterminating;
                }
                fuel -= 1;
                previous = current;
                current = previous.clone().apply(&mut simplification);
            }
            // the replay converged, so the real (unbounded) loop returns: run it as well; the
            // replay above is the harness's own loop and does not see a change of the loop in /repo
            let mut real_portfolio = portfolio.into_iter().compose();
            let real = input.apply_fixpoint(&mut real_portfolio);
            if real != current {
                return Outcome::FixpointDiffers(real);
            }
            Outcome::Done(current)
        }
    }
}

// ------------------------------------------------------------------ building blocks

pub fn cfg(rng: &mut Rng) -> g::Cfg {
    // few names; the fresh-name candidates of replacement_helper (first letter of the inner
    // variable + number) are in the pool
    // 12 %: the candidates I, I1, I2, I3 (and X, X1..) are all in the pool, so that the fresh-name loop of
    // choose_fresh_variable_names has to count to a suffix >= 4; 10 %: `_`-prefixed variables (the arm
    // repaired for finding F18: the variant is the first character AFTER the leading underscore); both are
    // inside the image of the parser (`"_"? ~ ASCII_ALPHA_UPPER ~ ..`; audit 2, B16 / T14)
    let names: Vec<&'static str> = match rng.weighted(&[39, 39, 12, 10]) {
        0 => vec!["X", "Y", "Z", "I", "J", "I1", "J1"],
        1 => vec!["X", "Y", "Z", "I", "I1", "I2", "X1"],
        2 => {
            if rng.chance(50) {
                vec!["I", "I1", "I2", "I3", "Z"]
            } else {
                vec!["X", "X1", "X2", "X3", "I", "I1", "I2", "I3"]
            }
        }
        _ => vec!["_X", "_I", "X", "I", "I1", "Z", "_I1"],
    };
    g::Cfg {
        var_names: names,
        symbols: vec!["a", "b"],
        preds: vec!["p", "q", "r"],
        fconsts: vec!["n"],
        max_arity: 2,
        num_lo: -1,
        num_hi: 2,
        use_fconsts: rng.chance(15),
        max_guards: 3,
        ..g::Cfg::default()
    }
}

fn var(name: &str, sort: Sort) -> fol::Variable {
    fol::Variable { name: name.to_string(), sort }
}
pub fn var_term(v: &fol::Variable) -> G {
    match v.sort {
        Sort::General => G::Variable(v.name.clone()),
        Sort::Integer => G::IntegerTerm(I::Variable(v.name.clone())),
        Sort::Symbol => G::SymbolicTerm(S::Variable(v.name.clone())),
    }
}
fn eq(l: G, r: G) -> F {
    F::AtomicFormula(fol::AtomicFormula::Comparison(fol::Comparison {
        term: l,
        guards: vec![fol::Guard { relation: fol::Relation::Equal, term: r }],
    }))
}
fn cmp(term: G, guards: Vec<(fol::Relation, G)>) -> F {
    F::AtomicFormula(fol::AtomicFormula::Comparison(fol::Comparison {
        term,
        guards: guards.into_iter().map(|(relation, term)| fol::Guard { relation, term }).collect(),
    }))
}
/// percentage of "equations" of the redex templates that are chains of 2-3 guards
pub const CHAIN_PCT: usize = 22;
/// a further term of a chain: a general variable (free most of the time: the assignment of the
/// semantic check then makes the extra link true or false independently of the equation), one of the
/// terms of the equation again (`X = t = X`), or any term
fn chain_extra(rng: &mut Rng, c: &g::Cfg, of: &[G]) -> G {
    match rng.weighted(&[4, 2, 4]) {
        0 => G::Variable(rng.pick(&c.var_names).to_string()),
        1 => rng.pick(of).clone(),
        _ => g::gterm(rng, c, 1),
    }
}
fn non_equal_relation(rng: &mut Rng) -> fol::Relation {
    use fol::Relation as R;
    *rng.pick(&[R::NotEqual, R::Less, R::LessEqual, R::Greater, R::GreaterEqual])
}
/// the equation `l = r` (either orientation) as the rules expect it, or (`pct` %) a chain of 2-3
/// guards that contains it as its first or as a later link
fn equation_or_chain_pct(rng: &mut Rng, c: &g::Cfg, l: G, r: G, pct: usize) -> F {
    use fol::Relation::Equal;
    let (l, r) = if rng.chance(50) { (l, r) } else { (r, l) };
    if !rng.chance(pct) {
        return eq(l, r);
    }
    let of = [l.clone(), r.clone()];
    let u = chain_extra(rng, c, &of);
    let w = chain_extra(rng, c, &of);
    let any = if rng.chance(40) { Equal } else { g::relation(rng) };
    match rng.weighted(&[5, 2, 3, 3, 1, 1, 1]) {
        // all-`=` chains, the equation first
        0 => cmp(l, vec![(Equal, r), (Equal, u)]),
        1 => cmp(l, vec![(Equal, r), (Equal, u), (Equal, w)]),
        // mixed chain, the equation first
        2 => cmp(l, vec![(Equal, r), (non_equal_relation(rng), u)]),
        // a later link is the equation
        3 => cmp(u, vec![(any, l), (Equal, r)]),
        4 => cmp(u, vec![(any, l), (Equal, r), (g::relation(rng), w)]),
        5 => cmp(l, vec![(Equal, r), (g::relation(rng), u), (g::relation(rng), w)]),
        _ => cmp(u, vec![(g::relation(rng), w), (any, l), (Equal, r)]),
    }
}
fn equation_or_chain(rng: &mut Rng, c: &g::Cfg, l: G, r: G) -> F {
    equation_or_chain_pct(rng, c, l, r, CHAIN_PCT)
}
fn bin(c: fol::BinaryConnective, l: F, r: F) -> F {
    F::BinaryFormula { connective: c, lhs: l.into(), rhs: r.into() }
}
fn and(l: F, r: F) -> F {
    bin(fol::BinaryConnective::Conjunction, l, r)
}
fn quant(q: fol::Quantifier, vs: Vec<fol::Variable>, f: F) -> F {
    F::QuantifiedFormula { quantification: fol::Quantification { quantifier: q, variables: vs }, formula: f.into() }
}
fn exists(vs: Vec<fol::Variable>, f: F) -> F {
    quant(fol::Quantifier::Exists, vs, f)
}
fn forall(vs: Vec<fol::Variable>, f: F) -> F {
    quant(fol::Quantifier::Forall, vs, f)
}

/// a conjunction of `parts` in random order and random nesting (left / right / balanced)
fn conj_shuffled(rng: &mut Rng, mut parts: Vec<F>) -> F {
    // Fisher-Yates
    for i in (1..parts.len()).rev() {
        let j = rng.below(i + 1);
        parts.swap(i, j);
    }
    fn build(rng: &mut Rng, parts: &[F]) -> F {
        if parts.len() == 1 {
            return parts[0].clone();
        }
        let k = 1 + rng.below(parts.len() - 1);
        and(build(rng, &parts[..k]), build(rng, &parts[k..]))
    }
    build(rng, &parts)
}

/// a term of the sort of `v` (mostly), mentioning `v` itself sometimes (`X = t(X)`)
fn term_for(rng: &mut Rng, c: &g::Cfg, v: &fol::Variable) -> G {
    let compatible = rng.chance(85);
    let sort = if compatible { v.sort } else { g::sort(rng, c) };
    match sort {
        Sort::General => {
            if compatible {
                g::gterm(rng, c, 1)
            } else {
                G::Variable(rng.pick(&c.var_names).to_string())
            }
        }
        Sort::Integer => {
            if rng.chance(20) {
                // t(X)
                G::IntegerTerm(I::BinaryOperation {
                    op: match rng.below(3) {
                        0 => fol::BinaryOperator::Add,
                        1 => fol::BinaryOperator::Multiply,
                        _ => fol::BinaryOperator::Subtract,
                    },
                    lhs: I::Variable(v.name.clone()).into(),
                    rhs: g::iterm(rng, c, 0).into(),
                })
            } else {
                G::IntegerTerm(g::iterm(rng, c, 1))
            }
        }
        Sort::Symbol => G::SymbolicTerm(g::sterm(rng, c)),
    }
}

/// small filler subformula; with `depth > 0` it may itself be a redex
pub fn filler(rng: &mut Rng, c: &g::Cfg, depth: usize) -> F {
    if depth > 0 && rng.chance(35) {
        redex(rng, c, depth - 1, None)
    } else {
        let d = rng.below(3);
        g::formula(rng, c, d)
    }
}

/// an atom or comparison mentioning the given variables (so that they are really used)
fn uses(rng: &mut Rng, c: &g::Cfg, vs: &[&fol::Variable]) -> F {
    let mut terms: Vec<G> = vs.iter().map(|v| var_term(v)).collect();
    if rng.chance(30) {
        terms.push(g::gterm(rng, c, 1));
    }
    if terms.len() > 2 {
        terms.truncate(2);
    }
    if rng.chance(25) && terms.len() == 2 {
        let r = g::relation(rng);
        let mut guards = vec![(r, terms[1].clone())];
        if rng.chance(30) {
            // a chain that mentions the variables
            let u = chain_extra(rng, c, &terms);
            guards.push((g::relation(rng), u));
        }
        return cmp(terms[0].clone(), guards);
    }
    let a = F::AtomicFormula(fol::AtomicFormula::Atom(fol::Atom {
        predicate_symbol: rng.pick(&c.preds).to_string(),
        terms,
    }));
    if rng.chance(20) {
        F::UnaryFormula { connective: fol::UnaryConnective::Negation, formula: a.into() }
    } else {
        a
    }
}

fn extra_binders(rng: &mut Rng, c: &g::Cfg, vs: &mut Vec<fol::Variable>) {
    // extra, repeated and shadowing binders, inserted anywhere
    let n = rng.weighted(&[5, 3, 1]);
    for _ in 0..n {
        let v = if rng.chance(30) && !vs.is_empty() { rng.pick(vs).clone() } else { g::variable(rng, c) };
        let at = rng.below(vs.len() + 1);
        vs.insert(at, v);
    }
}

// ------------------------------------------------------------------ redex templates

#[derive(Clone, Copy, Debug, PartialEq, Eq)]
pub enum Rule {
    Rdn,
    Sdv,
    Rqd,
    Eqs,
    Ste,
}

/// `not not F`
fn redex_rdn(rng: &mut Rng, c: &g::Cfg, depth: usize) -> F {
    let neg = |f: F| F::UnaryFormula { connective: fol::UnaryConnective::Negation, formula: f.into() };
    let mut f = neg(neg(filler(rng, c, depth)));
    if rng.chance(25) {
        f = neg(f);
    }
    f
}

/// `exists X.. (X = t and F)`, also under forall (no redex), with chains, with `t` mentioning
/// other block variables, several defined variables in one block
fn redex_sdv(rng: &mut Rng, c: &g::Cfg, depth: usize) -> F {
    let n_defs = 1 + rng.weighted(&[6, 3, 1]);
    let mut vs: Vec<fol::Variable> = vec![];
    let mut parts: Vec<F> = vec![];
    for _ in 0..n_defs {
        let x = g::variable(rng, c);
        let t = if rng.chance(25) && !vs.is_empty() {
            // definition by another variable of the block
            var_term(rng.pick(&vs))
        } else {
            term_for(rng, c, &x)
        };
        let e = equation_or_chain(rng, c, var_term(&x), t);
        parts.push(e);
        if rng.chance(80) {
            parts.push(uses(rng, c, &[&x]));
        }
        vs.push(x);
    }
    if rng.chance(60) {
        parts.push(filler(rng, c, depth));
    }
    if rng.chance(15) {
        // duplicated conjunct
        let d = rng.pick(&parts).clone();
        parts.push(d);
    }
    extra_binders(rng, c, &mut vs);
    let body = if rng.chance(12) {
        // not a conjunction at the top: no definition may be found below `or`
        bin(fol::BinaryConnective::Disjunction, conj_shuffled(rng, parts), filler(rng, c, 0))
    } else {
        conj_shuffled(rng, parts)
    };
    if rng.chance(10) { forall(vs, body) } else { exists(vs, body) }
}

/// `exists Z$g.. (exists I$i J$i.. (I$i = Z$g and G) and H)` and
/// `forall Z$g.. (exists I$i.. (I$i = Z$g and G) -> H)`
fn redex_rqd(rng: &mut Rng, c: &g::Cfg, depth: usize) -> F {
    let zname = rng.pick(&c.var_names).to_string();
    let iname = rng.pick(&c.var_names).to_string();
    let z = var(&zname, if rng.chance(88) { Sort::General } else { g::sort(rng, c) });
    let i = var(&iname, if rng.chance(88) { Sort::Integer } else { g::sort(rng, c) });
    let equation = equation_or_chain(rng, c, var_term(&i), var_term(&z));
    // inner block
    let mut inner_vs = vec![i.clone()];
    if rng.chance(40) {
        let n2 = rng.pick(&c.var_names).to_string();
        inner_vs.push(var(&n2, Sort::Integer));
    }
    if rng.chance(15) {
        // the inner quantifier re-binds the outer variable (finding F4)
        let at = rng.below(inner_vs.len() + 1);
        inner_vs.insert(at, z.clone());
    }
    extra_binders(rng, c, &mut inner_vs);
    let mut inner_parts = vec![equation];
    if rng.chance(85) {
        inner_parts.push(uses(rng, c, &[&i, &z]));
    }
    if rng.chance(30) {
        inner_parts.push(filler(rng, c, depth));
    }
    if rng.chance(10) {
        // the fresh-name candidates L, L1, .., Lk (L = first letter of the inner variable after leading
        // underscores) all occur: choose_fresh_variable_names has to count up to the suffix k+1 >= 4
        let letter = iname.trim_start_matches('_').chars().next().unwrap_or('I');
        let k = 3 + rng.below(4);
        let mut terms = vec![G::Variable(letter.to_string())];
        for j in 1..=k {
            terms.push(G::Variable(format!("{letter}{j}")));
        }
        inner_parts.push(F::AtomicFormula(fol::AtomicFormula::Atom(fol::Atom { predicate_symbol: "r".to_string(), terms })));
    }
    if rng.chance(15) {
        // a second equation that also matches (which one wins?)
        let j = rng.pick(&inner_vs).clone();
        inner_parts.push(equation_or_chain(rng, c, var_term(&j), var_term(&z)));
    }
    let inner_body = if rng.chance(8) {
        bin(fol::BinaryConnective::Disjunction, conj_shuffled(rng, inner_parts), filler(rng, c, 0))
    } else {
        conj_shuffled(rng, inner_parts)
    };
    let inner = exists(inner_vs, inner_body);
    // outer block
    let mut outer_vs = vec![z.clone()];
    extra_binders(rng, c, &mut outer_vs);
    if rng.chance(50) {
        // exists-case
        let mut parts = vec![inner];
        if rng.chance(85) {
            parts.push(uses(rng, c, &[&z]));
        }
        if rng.chance(35) {
            parts.push(filler(rng, c, depth));
        }
        if parts.len() == 1 {
            parts.push(filler(rng, c, 0));
        }
        let body = conj_shuffled(rng, parts);
        if rng.chance(8) { forall(outer_vs, body) } else { exists(outer_vs, body) }
    } else {
        // forall-case: the consequent mentions Z or not
        let h = if rng.chance(35) { uses(rng, c, &[&z]) } else { filler(rng, c, depth) };
        let lhs = if rng.chance(10) { and(inner, filler(rng, c, 0)) } else { inner };
        let body = bin(fol::BinaryConnective::Implication, lhs, h);
        if rng.chance(8) { exists(outer_vs, body) } else { forall(outer_vs, body) }
    }
}

/// `(Q X.. F) op G`, `G op (Q X.. F)`, both sides quantified, with and without collisions
fn redex_eqs(rng: &mut Rng, c: &g::Cfg, depth: usize) -> F {
    let mut vs = vec![g::variable(rng, c)];
    extra_binders(rng, c, &mut vs);
    let x = vs[0].clone();
    let body = if rng.chance(70) { and(uses(rng, c, &[&x]), filler(rng, c, depth)) } else { filler(rng, c, depth) };
    let q = if rng.chance(50) { fol::Quantifier::Forall } else { fol::Quantifier::Exists };
    let qf = quant(q, vs, body);
    let other = if rng.chance(25) {
        uses(rng, c, &[&x]) // collision (same name, same sort) ...
    } else if rng.chance(25) {
        // ... or same name at another sort: no collision
        let y = var(&x.name, g::sort(rng, c));
        uses(rng, c, &[&y])
    } else {
        filler(rng, c, depth)
    };
    let conn = match rng.weighted(&[5, 5, 1, 1, 1]) {
        0 => fol::BinaryConnective::Conjunction,
        1 => fol::BinaryConnective::Disjunction,
        2 => fol::BinaryConnective::Implication,
        3 => fol::BinaryConnective::ReverseImplication,
        _ => fol::BinaryConnective::Equivalence,
    };
    if rng.chance(50) { bin(conn, qf, other) } else { bin(conn, other, qf) }
}

/// `exists X Y.. (X = t and Y = t and F)`
fn redex_ste(rng: &mut Rng, c: &g::Cfg, depth: usize) -> F {
    // protected variant: integer / symbol sorted block variables equated with a *general* term
    // (a general variable, free most of the time): `find_definition` accepts `I$i = t` only for an
    // integer term `t`, so substitute_defined_variables leaves the pair to this rule when the
    // portfolio is composed (shallow: at the root; recursive / fixpoint: at the quantifier node)
    let protected = rng.chance(35);
    let (x, y, t) = if protected {
        let s = if rng.chance(65) { Sort::Integer } else { Sort::Symbol };
        let xn: &str = *rng.pick(&c.var_names);
        let x = var(xn, s);
        let y = if rng.chance(10) {
            x.clone()
        } else {
            let yn: &str = *rng.pick(&c.var_names);
            // mostly the same sort; otherwise any of the three sorts, uniformly (the rule keeps /
            // drops a variable according to the subsort relation: every pair of sorts must occur,
            // the incomparable pair integer / symbol included)
            let ys = if rng.chance(70) { s } else { *rng.pick(&[Sort::General, Sort::Integer, Sort::Symbol]) };
            var(yn, ys)
        };
        let t = match rng.weighted(&[8, 1, 1]) {
            0 => G::Variable(rng.pick(&c.var_names).to_string()),
            1 => G::Supremum,
            _ => G::Infimum,
        };
        (x, y, t)
    } else {
        let x = g::variable(rng, c);
        let y = if rng.chance(12) { x.clone() } else { g::variable(rng, c) };
        let t = match rng.weighted(&[5, 2, 2, 1]) {
            0 => term_for(rng, c, &x),
            1 => var_term(&x), // X = X
            2 => var_term(&y),
            _ => g::gterm(rng, c, 1),
        };
        (x, y, t)
    };
    // in the protected variant chains are more frequent, and at most one of the two equations is a
    // chain most of the time (the other one must be accepted as an equation for the rule to fire)
    let pct = if protected { 36 } else { CHAIN_PCT };
    let first_chain = rng.chance(50);
    let mut parts = vec![
        equation_or_chain_pct(rng, c, var_term(&x), t.clone(), if first_chain { pct } else { pct / 4 }),
        equation_or_chain_pct(rng, c, var_term(&y), t.clone(), if first_chain { pct / 4 } else { pct }),
    ];
    if rng.chance(85) {
        parts.push(uses(rng, c, &[&x, &y]));
    }
    if rng.chance(40) {
        parts.push(filler(rng, c, depth));
    }
    if rng.chance(25) {
        // duplicated equation (finding F5)
        let d = parts[rng.below(2)].clone();
        parts.push(d);
    }
    if rng.chance(10) {
        // a third variable equal to the same term
        let z = g::variable(rng, c);
        parts.push(equation_or_chain(rng, c, var_term(&z), t));
    }
    let mut vs = vec![];
    if rng.chance(92) {
        vs.push(x.clone());
    }
    if rng.chance(92) {
        vs.push(y.clone());
    }
    extra_binders(rng, c, &mut vs);
    if vs.is_empty() {
        vs.push(x);
    }
    let body = conj_shuffled(rng, parts);
    if rng.chance(8) { forall(vs, body) } else { exists(vs, body) }
}

pub fn redex(rng: &mut Rng, c: &g::Cfg, depth: usize, rule: Option<Rule>) -> F {
    let rule = rule.unwrap_or_else(|| match rng.weighted(&[1, 4, 5, 3, 4]) {
        0 => Rule::Rdn,
        1 => Rule::Sdv,
        2 => Rule::Rqd,
        3 => Rule::Eqs,
        _ => Rule::Ste,
    });
    match rule {
        Rule::Rdn => redex_rdn(rng, c, depth),
        Rule::Sdv => redex_sdv(rng, c, depth),
        Rule::Rqd => redex_rqd(rng, c, depth),
        Rule::Eqs => redex_eqs(rng, c, depth),
        Rule::Ste => redex_ste(rng, c, depth),
    }
}

/// a formula for the op of one rule: its own redex shape at the root (70%), another rule's
/// redex (20%), or an unbiased random formula (10%)
pub fn formula_for(rng: &mut Rng, rule: Rule) -> F {
    let c = cfg(rng);
    let depth = rng.below(2);
    match rng.weighted(&[7, 2, 1]) {
        0 => redex(rng, &c, depth, Some(rule)),
        1 => redex(rng, &c, depth, None),
        _ => {
            let d = 1 + rng.below(3);
            g::formula(rng, &c, d)
        }
    }
}

/// a formula for the strategy ops: redexes at the root and below connectives / binders
pub fn formula_nested(rng: &mut Rng) -> F {
    let c = cfg(rng);
    let depth = 1 + rng.below(2);
    let core = redex(rng, &c, depth, None);
    let mut f = core;
    let wraps = rng.weighted(&[3, 4, 2]);
    for _ in 0..wraps {
        f = match rng.below(6) {
            0 => F::UnaryFormula { connective: fol::UnaryConnective::Negation, formula: f.into() },
            1 => {
                let o = filler(rng, &c, 0);
                bin(g::connective(rng), f, o)
            }
            2 => {
                let o = filler(rng, &c, 1);
                bin(g::connective(rng), o, f)
            }
            3 => forall(g::binders(rng, &c), f),
            4 => exists(g::binders(rng, &c), f),
            _ => {
                let o = redex(rng, &c, 0, None);
                and(f, o)
            }
        };
    }
    f
}

pub fn strategy(rng: &mut Rng) -> Strategy {
    match rng.weighted(&[3, 4, 3]) {
        0 => Strategy::Shallow,
        1 => Strategy::Recursive,
        _ => Strategy::Fixpoint,
    }
}

// ------------------------------------------------------------------ trees outside the parser's image

/// the comparisons of `f` in traversal order, mutably
fn comparisons_mut<'a>(f: &'a mut F, out: &mut Vec<&'a mut fol::Comparison>) {
    match f {
        F::AtomicFormula(fol::AtomicFormula::Comparison(c)) => out.push(c),
        F::AtomicFormula(_) => {}
        F::UnaryFormula { formula, .. } => comparisons_mut(formula, out),
        F::BinaryFormula { lhs, rhs, .. } => {
            comparisons_mut(lhs, out);
            comparisons_mut(rhs, out);
        }
        F::QuantifiedFormula { formula, .. } => comparisons_mut(formula, out),
    }
}
fn binders_mut<'a>(f: &'a mut F, out: &mut Vec<&'a mut fol::Variable>) {
    match f {
        F::AtomicFormula(_) => {}
        F::UnaryFormula { formula, .. } => binders_mut(formula, out),
        F::BinaryFormula { lhs, rhs, .. } => {
            binders_mut(lhs, out);
            binders_mut(rhs, out);
        }
        F::QuantifiedFormula { quantification, formula } => {
            out.extend(quantification.variables.iter_mut());
            binders_mut(formula, out);
        }
    }
}

/// A redex-biased formula damaged so that it is no longer a tree the parser can produce: one
/// comparison loses all its guards (`guards[0]` panics in `equality_comparison` /
/// `transitive_equality`), or one bound variable gets the empty name (`chars().next().unwrap()` in
/// `replacement_helper`).  These trees live in their own op (`sc_outside_parser`): a mutant that
/// merely stops panicking on them must not be reported in place of a disagreement on a real formula.
pub fn formula_outside_parser(rng: &mut Rng, rule: Option<Rule>) -> F {
    let c = cfg(rng);
    let depth = rng.below(2);
    let mut f = redex(rng, &c, depth, rule);
    // 15 %: one quantifier block loses all its variables (`exists () F`: the grammar demands `variable+`;
    // no rewrite of CLASSIC produces such a block and INTUITIONISTIC removes its own at once; audit 2, B16)
    if rng.chance(15) {
        fn blocks_mut<'a>(f: &'a mut F, out: &mut Vec<&'a mut Vec<fol::Variable>>) {
            match f {
                F::AtomicFormula(_) => {}
                F::UnaryFormula { formula, .. } => blocks_mut(formula, out),
                F::BinaryFormula { lhs, rhs, .. } => {
                    blocks_mut(lhs, out);
                    blocks_mut(rhs, out);
                }
                F::QuantifiedFormula { quantification, formula } => {
                    out.push(&mut quantification.variables);
                    blocks_mut(formula, out);
                }
            }
        }
        let mut bs = vec![];
        blocks_mut(&mut f, &mut bs);
        if !bs.is_empty() {
            let k = rng.below(bs.len());
            bs[k].clear();
            return f;
        }
    }
    if rng.chance(75) {
        let mut cs = vec![];
        comparisons_mut(&mut f, &mut cs);
        if !cs.is_empty() {
            let k = rng.below(cs.len());
            cs[k].guards.clear();
            return f;
        }
    }
    let mut vs = vec![];
    binders_mut(&mut f, &mut vs);
    if !vs.is_empty() {
        let k = rng.below(vs.len());
        vs[k].name = String::new();
    }
    f
}
