//! Support for harness/src/ops/afd.rs:
//!  * theory TEXTS for `fol_output_reparses` (C15, "everything translate and simplify print can be
//!    fed back"): restrict_quantifier_domain redexes whose variables carry `_`-prefixed names of every
//!    sort (finding F18 / audit A15), reverse implications with a comparison on the right (class
//!    C15-RIMP reached through gamma / simplify / completion, audit A19), printed random theories of
//!    ext::folrt with a share of their variables renamed to `_`-prefixed names;
//!  * TEXTS for every stand-alone mini-gringo entry point (C14, audit A20): the text-level grammar
//!    fuzzer of ext::asprt cut down to one node, printed random nodes, the keyword-spelled identifier
//!    `not` in every position where a node can end (class F7d), mutations.
use crate::{ext::{asprt, folrt}, generate as g, rng::Rng};

fn pk(rng: &mut Rng, xs: &[&'static str]) -> &'static str {
    xs[rng.below(xs.len())]
}

// ------------------------------------------------------------------ C15: theory texts
const IVARS: &[&str] = &["_I", "_X", "_N1", "_I1", "_J", "I", "J1", "_Zz", "_A_b", "N"];
const GVARS: &[&str] = &["Z", "_Z", "Y", "_Y1", "X", "_X", "_V", "Z1"];
const PREDS: &[&str] = &["p", "q", "r", "_p", "q_1"];

fn sorted(rng: &mut Rng, name: &str, sort: usize) -> String {
    match sort {
        0 => match rng.below(3) {
            0 => name.to_string(),
            1 => format!("{name}$g"),
            _ => format!("{name}$general"),
        },
        1 => match rng.below(3) {
            0 => format!("{name}$i"),
            1 => format!("{name}$"),
            _ => format!("{name}$integer"),
        },
        _ => {
            if rng.chance(50) { format!("{name}$s") } else { format!("{name}$symbol") }
        }
    }
}

fn atom_over(rng: &mut Rng, vars: &[String]) -> String {
    let p = pk(rng, PREDS);
    let n = 1 + rng.below(2);
    let args: Vec<String> = (0..n)
        .map(|_| if rng.chance(80) { vars[rng.below(vars.len())].clone() } else { rng.range(-2, 3).to_string() })
        .collect();
    format!("{p}({})", args.join(", "))
}

/// `exists Z (exists _I$i (_I$i = Z and q(Z)) and p(Z))` and its forall counterpart
/// `forall X Y (exists Z _I$i (p(X) and Y = _I$i) -> q(X))`, names and sorts varied
pub fn rqd_redex(rng: &mut Rng) -> String {
    let iv = pk(rng, IVARS);
    let ov = pk(rng, GVARS);
    let ivs = sorted(rng, iv, 1);
    let ovs = sorted(rng, ov, 0);
    let other_sort = rng.below(3);
    let other_name = if other_sort == 1 { pk(rng, IVARS) } else { pk(rng, GVARS) };
    let other = sorted(rng, other_name, other_sort);
    let eq = if rng.chance(50) { format!("{ivs} = {ovs}") } else { format!("{ovs} = {ivs}") };
    let vars = vec![ovs.clone(), ivs.clone(), other.clone()];
    let a1 = atom_over(rng, &vars);
    let a2 = atom_over(rng, &vars);
    // names the fresh-variable search has to step over
    let taken = if rng.chance(35) {
        let first = iv.trim_start_matches('_').chars().next().unwrap();
        format!(" and {}", atom_over(rng, &[format!("{first}$i"), format!("{first}1$i"), format!("_{first}")]))
    } else {
        String::new()
    };
    let f = if rng.chance(60) {
        let inner_binders = if rng.chance(30) { format!("{ivs} {other}") } else { ivs.clone() };
        let inner = if rng.chance(50) { format!("{eq} and {a1}") } else { format!("{a1} and {eq}") };
        let extra_name = pk(rng, GVARS);
        let outer_binders = if rng.chance(30) { format!("{ovs} {}", sorted(rng, extra_name, 0)) } else { ovs.clone() };
        if rng.chance(50) {
            format!("exists {outer_binders} (exists {inner_binders} ({inner}) and {a2}{taken})")
        } else {
            format!("exists {outer_binders} ({a2}{taken} and exists {inner_binders} ({inner}))")
        }
    } else {
        let x_name = pk(rng, GVARS);
        let x = sorted(rng, x_name, 0);
        format!("forall {x} {ovs} (exists {other} {ivs} ({a1} and {eq}) -> {a2}{taken})")
    };
    match rng.below(4) {
        0 => format!("not not ({f})"),
        1 => format!("{} -> {f}", atom_over(rng, &vars)),
        _ => f,
    }
}

/// reverse implications whose right-hand side begins with an integer term (class C15-RIMP) and
/// harmless neighbours (parenthesised left sides, general terms on the right)
pub fn rimp_formula(rng: &mut Rng) -> String {
    let lhs = match rng.below(6) {
        0 => "p".to_string(),
        1 => "q(X)".to_string(),
        2 => "X = Y".to_string(),
        3 => "not p".to_string(),
        4 => "forall X p".to_string(),
        _ => "p and 1 < X".to_string(),
    };
    let rhs = match rng.below(8) {
        0 => "(1 = 1)".to_string(),
        1 => "(X$i > 0)".to_string(),
        2 => "(-X$i = 1)".to_string(),
        3 => "(c$i <= 2 and q)".to_string(),
        4 => "(#true and 1 = 1)".to_string(),
        5 => "(X = 1)".to_string(),
        6 => "((1 + X$i) * 2 != Y)".to_string(),
        _ => "q(X)".to_string(),
    };
    let core = format!("{lhs} <- {rhs}");
    match rng.below(6) {
        0 => format!("q and ({core})"),
        1 => format!("forall X$i ({core})"),
        2 => format!("not ({core})"),
        3 => format!("({core}) or r"),
        4 => format!("({core}) <- (2 > X$i)"),
        _ => core,
    }
}

/// rename a share of the variables of a printed theory to `_`-prefixed names (consistently)
pub fn underscore_variables(rng: &mut Rng, text: &str) -> String {
    let pct = [0, 30, 60, 100][rng.below(4)];
    let mut map: std::collections::HashMap<String, String> = Default::default();
    let mut out = String::new();
    for c in asprt::chunks(text) {
        let first = c.chars().next().unwrap_or(' ');
        let prev_hash = out.ends_with('#') || out.ends_with('$');
        if first.is_ascii_uppercase() && !prev_hash {
            let r = map.entry(c.clone()).or_insert_with(|| if rng.chance(pct) { format!("_{c}") } else { c.clone() });
            out.push_str(r);
        } else {
            out.push_str(&c);
        }
    }
    out
}

pub fn theory_text(rng: &mut Rng) -> String {
    match rng.weighted(&[40, 18, 30, 12]) {
        3 => {
            let n = 1 + rng.below(2);
            (0..n).map(|_| format!("{}.\n", kw_theory_formula(rng))).collect()
        }
        0 => {
            let n = 1 + rng.below(2);
            (0..n).map(|_| format!("{}.\n", rqd_redex(rng))).collect()
        }
        1 => {
            let n = 1 + rng.below(2);
            (0..n).map(|_| format!("{}.\n", rimp_formula(rng))).collect()
        }
        _ => {
            let t = folrt::theory(rng).to_string();
            underscore_variables(rng, &t)
        }
    }
}

// ------------------------------------------------------------------ C15 / finding F7e: keyword-prefixed names
/// symbolic constants / predicate names with a keyword literal at their front (class F7b when they reach
/// formula-start position: `notq`, `nota`, `not_`, `notQ`, `forallX`, `existsY`, `forallX1`, `existsZz`) and
/// look-alikes OUTSIDE the class (`forall` / `exists` followed by a lower-case letter or nothing, `no`,
/// `_notq`, `anot`).  All of them are symbolic constants of the input language (lower-case first letter).
pub const KW_SYMBOLS: &[&str] = &[
    "notq", "nota", "not_", "notQ", "forallX", "existsY", "forallX1", "existsZz", "notforall",
    "forallx", "existsa", "forall", "exists", "no", "_notq", "anot", "existsy1", "foralL",
];
const KW_PREDS: &[&str] = &["notp", "forallX", "existsY", "not_", "forallx", "existsy", "nop"];

fn kw_sym(rng: &mut Rng) -> &'static str {
    pk(rng, KW_SYMBOLS)
}

fn kw_rel(rng: &mut Rng) -> &'static str {
    pk(rng, &["=", "!=", "<", "<=", ">", ">="])
}

/// one rule with keyword-prefixed symbolic constants in a chosen position: first / second term of a body
/// comparison, interval membership, interval bound (not regular: natural refuses, mu goes to tau*), head
/// argument (basic and choice), head interval, argument of a body literal, under arithmetic (not regular).
pub fn kw_rule(rng: &mut Rng) -> String {
    let s = kw_sym(rng);
    let s2 = kw_sym(rng);
    let p = if rng.chance(8) { pk(rng, KW_PREDS) } else { pk(rng, &["p", "q", "r"]) };
    let q = if rng.chance(8) { pk(rng, KW_PREDS) } else { pk(rng, &["q", "r", "s"]) };
    let rel = kw_rel(rng);
    match rng.below(16) {
        0 => format!("{p} :- {s} {rel} 1."),
        1 => format!("{p} :- {s} {rel} X, {q}(X)."),
        2 => format!("{p} :- 1 {rel} {s}."),
        3 => format!("{p} :- {s} {rel} {s2}."),
        4 => format!("{p} :- {s} = 1..2."),
        5 => format!("{p}(X) :- X = {s}..3."),
        6 => format!("{p}({s})."),
        7 => format!("{p}({s}, X) :- {q}(X), not r({s2})."),
        8 => format!("{{{p}({s})}} :- {s2} {rel} X, {q}(X)."),
        9 => format!("{p}(1..{s})."),
        10 => format!("{p}(X, 1..3) :- {q}(X, {s}), {s} {rel} X."),
        11 => format!(":- {s} {rel} {s2}."),
        12 => format!(":- {q}({s}), not not {p}({s2}), X = {s}, {q}(X)."),
        13 => format!("{p} :- {s} + 1 {rel} 2."),
        14 => format!("{p}(X + 1) :- {s} {rel} X, {q}(X)."),
        _ => format!("{p} :- not {q}, {s} {rel} 1, 2 {rel} {s2}, {s2} = 1..X, r(X)."),
    }
}

pub fn kw_program_text(rng: &mut Rng) -> String {
    let n = 1 + rng.below(3);
    (0..n).map(|_| kw_rule(rng)).collect::<Vec<_>>().join("\n")
}

/// theories with keyword-prefixed constants where a rewrite can move them to formula-start position
/// (comparison chains split by evaluate_comparisons, defined variables substituted by the classic
/// portfolio) or where they already are (class F7b on the input side: refused or misread at parse time)
pub fn kw_theory_formula(rng: &mut Rng) -> String {
    let s = kw_sym(rng);
    let s2 = kw_sym(rng);
    let rel = kw_rel(rng);
    let rel2 = kw_rel(rng);
    match rng.below(12) {
        0 => format!("1 {rel} {s} {rel2} 2"),
        1 => format!("X {rel} {s} {rel2} {s2}"),
        2 => format!("exists X (X = {s} and X {rel} 1)"),
        3 => format!("exists X$s ({s} = X$s and X$s {rel} {s2})"),
        4 => format!("forall X (X = {s} -> p(X) or X {rel} 1)"),
        5 => format!("p({s}) <-> 1 {rel} {s}"),
        6 => format!("forall X (p(X) <- 1 = {s} {rel} X)"),
        7 => format!("forall X (p(X, {s}) <-> q(X) and X {rel} {s2})"),
        8 => format!("({s}) {rel} 1"),
        9 => format!("p <- ({s}$i = 1)"),
        10 => format!("{s}$g {rel} X -> q({s2}$s)"),
        _ => format!("forall V1 (V1 = {s} and 1 {rel} {s2} -> p(V1))"),
    }
}

pub fn program_text(rng: &mut Rng) -> String {
    if rng.chance(25) {
        return kw_program_text(rng);
    }
    let mut c = g::AspCfg::default();
    if rng.chance(30) {
        c.preds.extend_from_slice(&["and", "or", "forall", "exists", "andy", "forallx", "_p"]);
        c.symbols.extend_from_slice(&["and", "not", "forall", "nota", "i", "_a"]);
    }
    if rng.chance(25) {
        c.partial_ops = false;
    }
    g::program(rng, &c).to_string()
}

// ------------------------------------------------------------------ C14: stand-alone node texts
pub const NODE_KINDS: &[&str] =
    &["term", "atom", "literal", "comparison", "atomic_formula", "head", "body", "rule", "program"];
pub const LEAF_KINDS: &[&str] =
    &["precomputed_term", "variable", "unary_operator", "binary_operator", "predicate", "sign", "relation"];

fn term_text(rng: &mut Rng) -> String {
    let mut out = String::new();
    let d = rng.below(4);
    asprt::text_term(rng, d, &mut out);
    out
}

/// a term whose LAST primary is the symbol `not` (in parentheses where the grammar needs them)
fn term_ending_in_not(rng: &mut Rng) -> String {
    match rng.below(6) {
        0 => "(not)".to_string(),
        1 => format!("{}{}(not)", term_text(rng), pk(rng, &["+", " - ", "*", "..", "/", "\\"])),
        2 => "-(not)".to_string(),
        3 => "( not)".to_string(),
        4 => "((not))".to_string(),
        _ => format!("(not){}{}", pk(rng, &["+", " * ", ".."]), term_text(rng)),
    }
}

fn atom_text(rng: &mut Rng) -> String {
    let p = pk(rng, &["p", "q", "q_p", "_r", "notp", "not", "p1"]);
    match rng.weighted(&[25, 55, 10, 10]) {
        0 => p.to_string(),
        1 => {
            let n = 1 + rng.below(3);
            let args: Vec<String> = (0..n).map(|_| if rng.chance(12) { term_ending_in_not(rng) } else { term_text(rng) }).collect();
            format!("{p}({})", args.join(pk(rng, &[",", ", ", " , "])))
        }
        2 => format!("{p}()"),
        _ => format!("{p} ()"),
    }
}

fn literal_text(rng: &mut Rng) -> String {
    let sign = pk(rng, &["", "", "not ", "not not ", "not\n", "not  not "]);
    format!("{sign}{}", atom_text(rng))
}

fn comparison_text(rng: &mut Rng) -> String {
    let l = if rng.chance(10) { term_ending_in_not(rng) } else { term_text(rng) };
    let r = if rng.chance(15) { term_ending_in_not(rng) } else { term_text(rng) };
    format!("{l}{}{r}", pk(rng, &["=", " = ", "!=", " < ", "<=", ">", " >= "]))
}

fn atomic_formula_text(rng: &mut Rng) -> String {
    if rng.chance(50) { literal_text(rng) } else { comparison_text(rng) }
}

fn body_text(rng: &mut Rng) -> String {
    let n = rng.weighted(&[10, 40, 30, 20]);
    let fs: Vec<String> = (0..n).map(|_| atomic_formula_text(rng)).collect();
    fs.join(pk(rng, &[", ", ",", "; ", " , "]))
}

fn head_text(rng: &mut Rng) -> String {
    match rng.weighted(&[45, 30, 15, 10]) {
        0 => atom_text(rng),
        1 => format!("{{{}}}", atom_text(rng)),
        2 => "#false".to_string(),
        _ => String::new(),
    }
}

fn node_text_by_grammar(rng: &mut Rng, kind: &str) -> String {
    match kind {
        "term" => if rng.chance(12) { term_ending_in_not(rng) } else { term_text(rng) },
        "atom" => atom_text(rng),
        "literal" => literal_text(rng),
        "comparison" => comparison_text(rng),
        "atomic_formula" => atomic_formula_text(rng),
        "head" => head_text(rng),
        "body" => body_text(rng),
        "rule" => {
            let mut out = String::new();
            asprt::text_rule(rng, &mut out);
            out
        }
        _ => asprt::text_program(rng),
    }
}

fn node_text_printed(rng: &mut Rng, kind: &str) -> String {
    let cfg = if rng.chance(15) { asprt::cfg_with_keyword() } else { asprt::cfg() };
    let depth = 1 + rng.below(3);
    let p = loop {
        let p = asprt::program(rng, &cfg);
        if !p.rules.is_empty() {
            break p;
        }
    };
    let rule = &p.rules[0];
    match kind {
        "term" => asprt::deep_term(rng, &cfg, depth).to_string(),
        "atom" => asprt::atom(rng, &cfg, depth).to_string(),
        "literal" | "comparison" | "atomic_formula" => {
            use anthem::syntax_tree::asp::mini_gringo as asp;
            let want_lit = kind == "literal" || (kind == "atomic_formula" && rng.chance(50));
            if want_lit {
                asp::Literal {
                    sign: rng.pick(&[asp::Sign::NoSign, asp::Sign::Negation, asp::Sign::DoubleNegation]).clone(),
                    atom: asprt::atom(rng, &cfg, depth),
                }
                .to_string()
            } else {
                asp::Comparison {
                    relation: g::asp_relation(rng),
                    lhs: asprt::deep_term(rng, &cfg, depth),
                    rhs: asprt::deep_term(rng, &cfg, depth),
                }
                .to_string()
            }
        }
        "head" => rule.head.to_string(),
        "body" => rule.body.to_string(),
        "rule" => rule.to_string(),
        _ => p.to_string(),
    }
}

pub fn node_text(rng: &mut Rng, kind: &str) -> String {
    let base = if rng.chance(60) { node_text_by_grammar(rng, kind) } else { node_text_printed(rng, kind) };
    let t = if rng.chance(12) { asprt::mutate(rng, &base) } else { base };
    // layout around the node: the entry points differ in what they accept in front of the node
    match rng.weighted(&[80, 7, 7, 3, 3]) {
        0 => t,
        1 => format!(" {t}"),
        2 => format!("{t} "),
        3 => format!("%c\n{t}"),
        _ => format!("{t}\n% c"),
    }
}

pub fn leaf_text(rng: &mut Rng, kind: &str) -> String {
    let t = match kind {
        "precomputed_term" => pk(rng, &["1", "-1", "0", "-0", "007", "a", "_a", "aB", "not", "nota", "no", "#inf", "#infimum", "#sup", "#supremum", "9223372036854775807", "X", "a b", "_", "-a"]).to_string(),
        "variable" => pk(rng, &["X", "Xa", "X1", "X_1", "_X", "x", "XYZ", "X Y", "N0t", ""]).to_string(),
        "unary_operator" => pk(rng, &["-", "--", "- ", "+", "-1", ""]).to_string(),
        "binary_operator" => pk(rng, &["+", "-", "*", "/", "\\", "..", ".", "...", "+ ", "%"]).to_string(),
        "predicate" => format!("{}{}{}", pk(rng, &["p", "q_p", "_r", "not", "notp", "P", ""]), pk(rng, &["/", " / ", "//", ""]), pk(rng, &["0", "1", "2", "10", "01", "-1", "", "18446744073709551615"])),
        "sign" => pk(rng, &["", "not", "not not", "not  not", "notnot", "not not not", " not", "not ", "not\nnot"]).to_string(),
        _ => pk(rng, &["=", "!=", "<", "<=", ">", ">=", "==", "<>", "=<", " =", "= ", "! ="]).to_string(),
    };
    if rng.chance(8) { asprt::mutate(rng, &t) } else { t }
}
