//! Program generators for C01 (tau*).  Variable pools collide with every fresh name the translator
//! picks (I, J, K for val; Q, R for division; Z, Z1.. for body literals; V1.. for head arguments).
use crate::generate as g;
use crate::rng::Rng;
use anthem::syntax_tree::asp::mini_gringo as asp;

pub const POOL: &[&str] = &[
    "X", "Y", "I", "J", "K", "I1", "J1", "K1", "Z", "Z1", "Z2", "V", "V1", "V2", "V3", "Q", "R", "Q1", "R1",
];
/// names around the `usize` boundary of the global counter, and non-canonical numerals
pub const HUGE: &[&str] = &[
    "V18446744073709551615",
    "V18446744073709551614",
    "V18446744073709551613",
    "V18446744073709551616",
    "V99999999999999999999",
    "V01",
    "V007",
    "V00",
    "V1a",
    "VV1",
];

#[derive(Clone)]
pub struct TCfg {
    pub vars: Vec<&'static str>,
    pub symbols: Vec<&'static str>,
    pub preds: Vec<&'static str>,
    pub max_arity: usize,
    pub num_lo: i64,
    pub num_hi: i64,
    pub depth: usize,
    pub max_rules: usize,
    pub max_body: usize,
    /// percent chance that a variable is drawn from HUGE
    pub huge: usize,
}

impl TCfg {
    pub fn adversarial(rng: &mut Rng) -> TCfg {
        // sometimes a very small pool, so that one rule uses I, J, K, Q, R, Z, V1 all at once
        let vars: Vec<&'static str> = if rng.chance(30) {
            let k = 2 + rng.below(4);
            (0..k).map(|_| *rng.pick(POOL)).collect()
        } else {
            POOL.to_vec()
        };
        TCfg {
            vars,
            symbols: vec!["a", "b", "n", "hp"],
            preds: vec!["p", "q", "r", "hp", "q_p"],
            max_arity: 3,
            num_lo: -3,
            num_hi: 4,
            depth: 1 + rng.below(3),
            max_rules: 5,
            max_body: 3,
            huge: if rng.chance(12) { 8 } else { 0 },
        }
    }
    /// small programs whose theory can be evaluated exhaustively over a finite window
    pub fn small(rng: &mut Rng) -> TCfg {
        let k = 1 + rng.below(3);
        let vars: Vec<&'static str> = (0..k).map(|_| *rng.pick(POOL)).collect();
        TCfg {
            vars,
            symbols: vec!["a"],
            preds: vec!["p", "q"],
            max_arity: 2,
            num_lo: -2,
            num_hi: 3,
            depth: 1 + rng.below(2),
            max_rules: 2,
            max_body: 2,
            huge: 0,
        }
    }
}

pub fn variable(rng: &mut Rng, cfg: &TCfg) -> String {
    if cfg.huge > 0 && rng.chance(cfg.huge) {
        rng.pick(HUGE).to_string()
    } else {
        rng.pick(&cfg.vars).to_string()
    }
}

pub fn term(rng: &mut Rng, cfg: &TCfg, depth: usize) -> asp::Term {
    use asp::{PrecomputedTerm as P, Term as T};
    if depth == 0 || rng.chance(40) {
        return match rng.weighted(&[6, 9, 2, 1, 1]) {
            0 => T::PrecomputedTerm(P::Numeral(rng.range(cfg.num_lo, cfg.num_hi) as isize)),
            1 => T::Variable(asp::Variable(variable(rng, cfg))),
            2 => T::PrecomputedTerm(P::Symbol(rng.pick(&cfg.symbols).to_string())),
            3 => T::PrecomputedTerm(P::Infimum),
            _ => T::PrecomputedTerm(P::Supremum),
        };
    }
    if rng.chance(15) {
        return T::UnaryOperation { op: asp::UnaryOperator::Negative, arg: term(rng, cfg, depth - 1).into() };
    }
    use asp::BinaryOperator as B;
    let op = *rng.pick(&[B::Add, B::Subtract, B::Multiply, B::Divide, B::Modulo, B::Interval, B::Divide, B::Modulo, B::Interval]);
    T::BinaryOperation { op, lhs: term(rng, cfg, depth - 1).into(), rhs: term(rng, cfg, depth - 1).into() }
}

pub fn atom(rng: &mut Rng, cfg: &TCfg) -> asp::Atom {
    let arity = rng.below(cfg.max_arity + 1);
    asp::Atom {
        predicate_symbol: rng.pick(&cfg.preds).to_string(),
        terms: (0..arity).map(|_| term(rng, cfg, cfg.depth)).collect(),
    }
}

pub fn body_formula(rng: &mut Rng, cfg: &TCfg) -> asp::AtomicFormula {
    if rng.chance(65) {
        asp::AtomicFormula::Literal(asp::Literal {
            sign: match rng.weighted(&[5, 3, 2]) {
                0 => asp::Sign::NoSign,
                1 => asp::Sign::Negation,
                _ => asp::Sign::DoubleNegation,
            },
            atom: atom(rng, cfg),
        })
    } else {
        asp::AtomicFormula::Comparison(asp::Comparison {
            relation: g::asp_relation(rng),
            lhs: term(rng, cfg, cfg.depth),
            rhs: term(rng, cfg, cfg.depth),
        })
    }
}

pub fn rule(rng: &mut Rng, cfg: &TCfg) -> asp::Rule {
    let head = match rng.weighted(&[6, 3, 2]) {
        0 => asp::Head::Basic(atom(rng, cfg)),
        1 => asp::Head::Choice(atom(rng, cfg)),
        _ => asp::Head::Falsity,
    };
    let n = rng.below(cfg.max_body + 1);
    asp::Rule { head, body: asp::Body { formulas: (0..n).map(|_| body_formula(rng, cfg)).collect() } }
}

pub fn program(rng: &mut Rng, cfg: &TCfg) -> asp::Program {
    let n = 1 + rng.below(cfg.max_rules);
    asp::Program { rules: (0..n).map(|_| rule(rng, cfg)).collect() }
}
