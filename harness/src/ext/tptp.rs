//! Generators for the TPTP cluster (C06, C09, C12): formulas that stress the TPTP printer
//! (comparison chains of length 1..4 under every connective, mixed-sort comparisons, negative
//! numerals, placeholders of every sort) and problems with adversarial identifier shapes.
use crate::{generate as g, rng::Rng};
use anthem::syntax_tree::fol::sigma_0 as fol;
use anthem::verif::problem as pb;

pub fn cfg(rng: &mut Rng) -> g::Cfg {
    let mut c = g::Cfg {
        var_names: vec!["X", "Y", "Z", "N", "I", "J", "X1", "N0_0", "Abc"],
        symbols: vec!["a", "b", "c", "n", "hp", "aB", "a1"],
        preds: vec!["p", "q", "r", "hp", "q_p"],
        fconsts: vec!["n", "m", "c"],
        max_arity: 3,
        num_lo: -4,
        num_hi: 4,
        extreme_numerals: if rng.chance(4) { 10 } else { 0 },
        use_fconsts: true,
        sorts: vec![fol::Sort::General, fol::Sort::Integer, fol::Sort::Symbol],
        max_guards: 4,
        repeated_binders: true,
    };
    // a small stream of identifier shapes outside wf_tptp (printed verbatim all the same)
    if rng.chance(6) {
        c.symbols.extend(["n_i", "x_g", "s_s", "_a", "c__infimum__", "hp__s"]);
        c.var_names.extend(["_X"]);
        c.preds.extend(["_r", "p__less__"]);
    }
    c
}

fn comparison(rng: &mut Rng, cfg: &g::Cfg) -> fol::Comparison {
    // chains of length 1..4, uniformly
    let n = 1 + rng.below(cfg.max_guards);
    // mixed sorts: choose the kind of each operand independently
    let operand = |rng: &mut Rng| match rng.weighted(&[5, 3, 4]) {
        0 => fol::GeneralTerm::IntegerTerm(g::iterm(rng, cfg, 2)),
        1 => fol::GeneralTerm::SymbolicTerm(g::sterm(rng, cfg)),
        _ => g::gterm(rng, cfg, 2),
    };
    let term = operand(rng);
    let guards = (0..n).map(|_| fol::Guard { relation: g::relation(rng), term: operand(rng) }).collect();
    fol::Comparison { term, guards }
}

fn atomic(rng: &mut Rng, cfg: &g::Cfg) -> fol::AtomicFormula {
    use fol::AtomicFormula as A;
    match rng.weighted(&[1, 1, 5, 8]) {
        0 => A::Truth,
        1 => A::Falsity,
        2 => A::Atom(g::atom(rng, cfg)),
        _ => A::Comparison(comparison(rng, cfg)),
    }
}

pub fn formula(rng: &mut Rng, cfg: &g::Cfg, depth: usize) -> fol::Formula {
    use fol::Formula as F;
    if depth == 0 || rng.chance(25) {
        return F::AtomicFormula(atomic(rng, cfg));
    }
    match rng.weighted(&[3, 7, 3]) {
        0 => F::UnaryFormula {
            connective: fol::UnaryConnective::Negation,
            formula: formula(rng, cfg, depth - 1).into(),
        },
        1 => F::BinaryFormula {
            connective: g::connective(rng),
            lhs: formula(rng, cfg, depth - 1).into(),
            rhs: formula(rng, cfg, depth - 1).into(),
        },
        _ => F::QuantifiedFormula {
            quantification: fol::Quantification {
                quantifier: if rng.chance(50) { fol::Quantifier::Forall } else { fol::Quantifier::Exists },
                variables: g::binders(rng, cfg),
            },
            formula: formula(rng, cfg, depth - 1).into(),
        },
    }
}

// ---------------------------------------------------------------- problems (C09)

/// identifier pools for problems: mostly clean, sometimes with the shapes that break TFF
pub fn problem_cfg(rng: &mut Rng) -> g::Cfg {
    let mut c = g::Cfg {
        var_names: vec!["X", "Y", "N", "I", "X1"],
        symbols: vec!["a", "b", "c", "d", "aB", "zz"],
        preds: vec!["p", "q", "r", "s"],
        fconsts: vec!["n", "m"],
        max_arity: 2,
        num_lo: -2,
        num_hi: 3,
        extreme_numerals: 0,
        use_fconsts: true,
        sorts: vec![fol::Sort::General, fol::Sort::Integer, fol::Sort::Symbol],
        max_guards: 3,
        repeated_binders: true,
    };
    match rng.below(10) {
        // symbol named like a 0-ary predicate (renamed `x__s` by rename_conflicting_symbols)
        0 => c.symbols.extend(["r", "r", "p"]),
        // names ending in _i/_g/_s or __s, leading underscores, preamble names
        1 => {
            c.symbols.extend(["n_i", "m_g", "a_s", "p__s", "_a", "__b"]);
            c.preds.extend(["_r", "p_i"]);
            c.var_names.extend(["_X"]);
        }
        2 => {
            c.symbols.extend(["general", "c__infimum__"]);
            c.preds.extend(["p__less__"]);
        }
        // symbols whose byte order (`symbols.sort_unstable()` of the symbol_order chain) differs from the
        // case-insensitive order (aB < a_s < aa < ab) and from the natural-number order (a10 < a2)
        3 | 4 => c.symbols = vec!["aB", "aa", "ab", "a_s", "aZ", "a1", "a10", "a2", "b"],
        _ => {}
    }
    c
}

/// pools of a WIDE problem: at least 11 predicates, symbols and placeholders (two-digit indices in
/// `predicate_{i}`, `type_symbol_{i}`, `type_function_constant_{i}`, `symbol_order_{i}`), predicate
/// arities 3 and 4 (third arm of the `general * .. * general` product)
pub const WIDE_PREDS: &[(&str, usize)] =
    &[("p", 1), ("q", 2), ("r", 0), ("s", 1), ("t", 3), ("u", 4), ("v", 3), ("w", 1), ("p1", 1), ("p2", 2), ("p3", 3), ("p4", 4), ("z", 0)];
pub const WIDE_SYMBOLS: &[&str] = &["a", "b", "c", "d", "aB", "zz", "aa", "ab", "a_s", "aZ", "a1", "a10", "a2", "e"];
pub const WIDE_FCONSTS: &[&str] = &["n", "m", "k", "c1", "c2"];

/// one closed formula that mentions every predicate, symbol and (name, sort) placeholder of the wide pools
fn wide_mention(rng: &mut Rng) -> fol::Formula {
    use fol::{GeneralTerm as G, IntegerTerm as I, SymbolicTerm as S};
    let mut parts: Vec<fol::Formula> = vec![];
    let mut sym = 0usize;
    for (p, n) in WIDE_PREDS {
        let terms: Vec<G> = (0..*n)
            .map(|_| {
                sym += 1;
                G::SymbolicTerm(S::Symbol(WIDE_SYMBOLS[sym % WIDE_SYMBOLS.len()].to_string()))
            })
            .collect();
        parts.push(fol::Formula::AtomicFormula(fol::AtomicFormula::Atom(fol::Atom { predicate_symbol: p.to_string(), terms })));
    }
    for c in WIDE_FCONSTS {
        for t in [G::FunctionConstant(c.to_string()), G::IntegerTerm(I::FunctionConstant(c.to_string())), G::SymbolicTerm(S::FunctionConstant(c.to_string()))] {
            parts.push(fol::Formula::AtomicFormula(fol::AtomicFormula::Comparison(fol::Comparison {
                term: t,
                guards: vec![fol::Guard { relation: g::relation(rng), term: G::IntegerTerm(I::Numeral(rng.range(0, 3) as isize)) }],
            })));
        }
    }
    // random order: the declaration order is the order of first occurrence
    for i in (1..parts.len()).rev() {
        let j = rng.below(i + 1);
        parts.swap(i, j);
    }
    let conn = if rng.chance(50) { fol::BinaryConnective::Conjunction } else { fol::BinaryConnective::Disjunction };
    parts.into_iter().reduce(|l, r| fol::Formula::BinaryFormula { connective: conn.clone(), lhs: l.into(), rhs: r.into() }).unwrap()
}

/// a WIDE raw problem: 10-14 formulas (two-digit `formula_{i}` names), mostly conjectures half of the
/// time (sub-problem names `{name}_{i}` with i >= 10), all of the wide pools mentioned
pub fn wide_problem(rng: &mut Rng) -> pb::Problem {
    let cfg = g::Cfg {
        var_names: vec!["X", "Y", "N"],
        symbols: WIDE_SYMBOLS.to_vec(),
        preds: WIDE_PREDS.iter().map(|(p, _)| *p).collect(),
        fconsts: WIDE_FCONSTS.to_vec(),
        max_arity: 4,
        num_lo: -2,
        num_hi: 3,
        extreme_numerals: 0,
        use_fconsts: true,
        sorts: vec![fol::Sort::General, fol::Sort::Integer, fol::Sort::Symbol],
        max_guards: 2,
        repeated_binders: true,
    };
    let n = 10 + rng.below(5);
    let many_conjectures = rng.chance(50);
    let at = rng.below(n);
    let formulas = (0..n)
        .map(|i| {
            let f = if i == at {
                wide_mention(rng)
            } else {
                let depth = rng.below(2);
                fix_arities(formula(rng, &cfg, depth)).universal_closure()
            };
            pb::AnnotatedFormula {
                name: rng.pick(FORMULA_NAMES).to_string(),
                role: if rng.chance(if many_conjectures { 92 } else { 35 }) { pb::Role::Conjecture } else { pb::Role::Axiom },
                formula: f,
            }
        })
        .collect();
    pb::Problem { name: "problem".into(), interpretation: pb::Interpretation::Standard, formulas }
}

/// closed formula: the universal closure of a random one
fn closed(rng: &mut Rng, cfg: &g::Cfg, depth: usize, same_arity: bool) -> fol::Formula {
    let mut f = formula(rng, cfg, depth);
    if same_arity {
        f = fix_arities(f);
    }
    if rng.chance(97) { f.universal_closure() } else { f }
}

/// make every predicate name occur at one arity only (arity = length of its name's first use)
fn fix_arities(f: fol::Formula) -> fol::Formula {
    use anthem::convenience::apply::Apply as _;
    f.apply(&mut |x| match x {
        fol::Formula::AtomicFormula(fol::AtomicFormula::Atom(mut a)) => {
            let want = match a.predicate_symbol.as_str() {
                "p" | "hp" | "_r" => 1,
                "q" | "p_i" | "p2" => 2,
                "r" | "p__less__" | "z" => 0,
                "t" | "v" | "p3" => 3,
                "u" | "p4" => 4,
                _ => 1,
            };
            a.terms.truncate(want);
            while a.terms.len() < want {
                a.terms.push(fol::GeneralTerm::Variable("X".into()));
            }
            fol::Formula::AtomicFormula(fol::AtomicFormula::Atom(a))
        }
        x => x,
    })
}

pub const FORMULA_NAMES: &[&str] = &["", "ax", "lemma_1", "_hidden", "a", "transition_axiom_0", "x_y", "ax"];

/// a raw problem (before rename / unique names): 1..5 formulas with roles and names
pub fn raw_problem(rng: &mut Rng) -> pb::Problem {
    // 6 %: a wide problem; 1 %: no formula at all (Display prints the preamble only; nothing is emitted)
    if rng.chance(6) {
        return wide_problem(rng);
    }
    let cfg = problem_cfg(rng);
    let same_arity = rng.chance(85);
    let n = if rng.chance(1) { 0 } else { 1 + rng.below(5) };
    let formulas = (0..n)
        .map(|_| {
            let depth = 1 + rng.below(3);
            pb::AnnotatedFormula {
                name: rng.pick(FORMULA_NAMES).to_string(),
                role: if rng.chance(65) { pb::Role::Axiom } else { pb::Role::Conjecture },
                formula: closed(rng, &cfg, depth, same_arity),
            }
        })
        .collect();
    pb::Problem { name: "problem".into(), interpretation: pb::Interpretation::Standard, formulas }
}
