//! Generators for the TPTP cluster (C06, C09, C12): formulas that stress the TPTP printer
//! (comparison chains of length 1..4 under every connective, mixed-sort comparisons, negative
//! numerals, placeholders of every sort) and problems with adversarial identifier shapes.
use crate::{generate as g, rng::Rng};
use anthem::syntax_tree::fol::sigma_0 as fol;
use anthem::verif::problem as pb;

pub fn cfg(rng: &mut Rng) -> g::Cfg {
    let mut c = g::Cfg {
        var_names: vec!["X", "Y", "Z", "N", "I", "J", "X1", "N0_0", "Abc"],
        symbols: vec!["a", "b", "c", "n", "hp", "aB", "a1"],
        preds: vec!["p", "q", "r", "hp", "q_p"],
        fconsts: vec!["n", "m", "c"],
        max_arity: 3,
        num_lo: -4,
        num_hi: 4,
        extreme_numerals: if rng.chance(4) { 10 } else { 0 },
        use_fconsts: true,
        sorts: vec![fol::Sort::General, fol::Sort::Integer, fol::Sort::Symbol],
        max_guards: 4,
        repeated_binders: true,
    };
    // a small stream of identifier shapes outside wf_tptp (printed verbatim all the same)
    if rng.chance(6) {
        c.symbols.extend(["n_i", "x_g", "s_s", "_a", "c__infimum__", "hp__s"]);
        c.var_names.extend(["_X"]);
        c.preds.extend(["_r", "p__less__"]);
    }
    c
}

fn comparison(rng: &mut Rng, cfg: &g::Cfg) -> fol::Comparison {
    // chains of length 1..4, uniformly
    let n = 1 + rng.below(cfg.max_guards);
    // mixed sorts: choose the kind of each operand independently
    let operand = |rng: &mut Rng| match rng.weighted(&[5, 3, 4]) {
        0 => fol::GeneralTerm::IntegerTerm(g::iterm(rng, cfg, 2)),
        1 => fol::GeneralTerm::SymbolicTerm(g::sterm(rng, cfg)),
        _ => g::gterm(rng, cfg, 2),
    };
    let term = operand(rng);
    let guards = (0..n).map(|_| fol::Guard { relation: g::relation(rng), term: operand(rng) }).collect();
    fol::Comparison { term, guards }
}

fn atomic(rng: &mut Rng, cfg: &g::Cfg) -> fol::AtomicFormula {
    use fol::AtomicFormula as A;
    match rng.weighted(&[1, 1, 5, 8]) {
        0 => A::Truth,
        1 => A::Falsity,
        2 => A::Atom(g::atom(rng, cfg)),
        _ => A::Comparison(comparison(rng, cfg)),
    }
}

pub fn formula(rng: &mut Rng, cfg: &g::Cfg, depth: usize) -> fol::Formula {
    use fol::Formula as F;
    if depth == 0 || rng.chance(25) {
        return F::AtomicFormula(atomic(rng, cfg));
    }
    match rng.weighted(&[3, 7, 3]) {
        0 => F::UnaryFormula {
            connective: fol::UnaryConnective::Negation,
            formula: formula(rng, cfg, depth - 1).into(),
        },
        1 => F::BinaryFormula {
            connective: g::connective(rng),
            lhs: formula(rng, cfg, depth - 1).into(),
            rhs: formula(rng, cfg, depth - 1).into(),
        },
        _ => F::QuantifiedFormula {
            quantification: fol::Quantification {
                quantifier: if rng.chance(50) { fol::Quantifier::Forall } else { fol::Quantifier::Exists },
                variables: g::binders(rng, cfg),
            },
            formula: formula(rng, cfg, depth - 1).into(),
        },
    }
}

// ---------------------------------------------------------------- problems (C09)

/// identifier pools for problems: mostly clean, sometimes with the shapes that break TFF
pub fn problem_cfg(rng: &mut Rng) -> g::Cfg {
    let mut c = g::Cfg {
        var_names: vec!["X", "Y", "N", "I", "X1"],
        symbols: vec!["a", "b", "c", "d", "aB", "zz"],
        preds: vec!["p", "q", "r", "s"],
        fconsts: vec!["n", "m"],
        max_arity: 2,
        num_lo: -2,
        num_hi: 3,
        extreme_numerals: 0,
        use_fconsts: true,
        sorts: vec![fol::Sort::General, fol::Sort::Integer, fol::Sort::Symbol],
        max_guards: 3,
        repeated_binders: true,
    };
    match rng.below(10) {
        // symbol named like a 0-ary predicate (renamed `x__s` by rename_conflicting_symbols)
        0 => c.symbols.extend(["r", "r", "p"]),
        // names ending in _i/_g/_s or __s, leading underscores, preamble names
        1 => {
            c.symbols.extend(["n_i", "m_g", "a_s", "p__s", "_a", "__b"]);
            c.preds.extend(["_r", "p_i"]);
            c.var_names.extend(["_X"]);
        }
        2 => {
            c.symbols.extend(["general", "c__infimum__"]);
            c.preds.extend(["p__less__"]);
        }
        _ => {}
    }
    c
}

/// closed formula: the universal closure of a random one
fn closed(rng: &mut Rng, cfg: &g::Cfg, depth: usize, same_arity: bool) -> fol::Formula {
    let mut f = formula(rng, cfg, depth);
    if same_arity {
        f = fix_arities(f);
    }
    if rng.chance(97) { f.universal_closure() } else { f }
}

/// make every predicate name occur at one arity only (arity = length of its name's first use)
fn fix_arities(f: fol::Formula) -> fol::Formula {
    use anthem::convenience::apply::Apply as _;
    f.apply(&mut |x| match x {
        fol::Formula::AtomicFormula(fol::AtomicFormula::Atom(mut a)) => {
            let want = match a.predicate_symbol.as_str() {
                "p" | "hp" | "_r" => 1,
                "q" | "p_i" => 2,
                "r" | "p__less__" => 0,
                _ => 1,
            };
            a.terms.truncate(want);
            while a.terms.len() < want {
                a.terms.push(fol::GeneralTerm::Variable("X".into()));
            }
            fol::Formula::AtomicFormula(fol::AtomicFormula::Atom(a))
        }
        x => x,
    })
}

pub const FORMULA_NAMES: &[&str] = &["", "ax", "lemma_1", "_hidden", "a", "transition_axiom_0", "x_y", "ax"];

/// a raw problem (before rename / unique names): 1..5 formulas with roles and names
pub fn raw_problem(rng: &mut Rng) -> pb::Problem {
    let cfg = problem_cfg(rng);
    let same_arity = rng.chance(85);
    let n = 1 + rng.below(5);
    let formulas = (0..n)
        .map(|_| {
            let depth = 1 + rng.below(3);
            pb::AnnotatedFormula {
                name: rng.pick(FORMULA_NAMES).to_string(),
                role: if rng.chance(65) { pb::Role::Axiom } else { pb::Role::Conjecture },
                formula: closed(rng, &cfg, depth, same_arity),
            }
        })
        .collect();
    pb::Problem { name: "problem".into(), interpretation: pb::Interpretation::Standard, formulas }
}
