//! Generators for the completion / tightness / private-recursion cluster (C04, C11).
use crate::{generate as g, rng::Rng};
use anthem::syntax_tree::{asp::mini_gringo as asp, fol::sigma_0 as fol};

// ---------------------------------------------------------------- programs with planted cycles

const CYC_NAMES: &[&str] = &["p", "q", "r", "s", "t"];
const CYC_VARS: &[&str] = &["X", "Y", "Z", "V1", "N"];

#[derive(Clone, PartialEq, Eq, Debug)]
pub struct Pr {
    pub name: &'static str,
    pub arity: usize,
}

fn cyc_term(rng: &mut Rng) -> asp::Term {
    use asp::{PrecomputedTerm as P, Term as T};
    match rng.weighted(&[7, 2, 1, 1]) {
        0 => T::Variable(asp::Variable(rng.pick(CYC_VARS).to_string())),
        1 => T::PrecomputedTerm(P::Numeral(rng.range(-1, 3) as isize)),
        2 => T::PrecomputedTerm(P::Symbol(if rng.chance(50) { "a" } else { "b" }.to_string())),
        _ => T::BinaryOperation {
            op: *rng.pick(&[asp::BinaryOperator::Add, asp::BinaryOperator::Interval]),
            lhs: T::Variable(asp::Variable(rng.pick(CYC_VARS).to_string())).into(),
            rhs: T::PrecomputedTerm(P::Numeral(1)).into(),
        },
    }
}

fn cyc_atom(rng: &mut Rng, p: &Pr) -> asp::Atom {
    asp::Atom { predicate_symbol: p.name.to_string(), terms: (0..p.arity).map(|_| cyc_term(rng)).collect() }
}

fn lit(sign: asp::Sign, atom: asp::Atom) -> asp::AtomicFormula {
    asp::AtomicFormula::Literal(asp::Literal { sign, atom })
}

fn any_sign(rng: &mut Rng) -> asp::Sign {
    match rng.weighted(&[4, 3, 3]) {
        0 => asp::Sign::NoSign,
        1 => asp::Sign::Negation,
        _ => asp::Sign::DoubleNegation,
    }
}
fn neg_sign(rng: &mut Rng) -> asp::Sign {
    if rng.chance(50) { asp::Sign::Negation } else { asp::Sign::DoubleNegation }
}

fn head_of(rng: &mut Rng, p: &Pr, choice_pct: usize) -> asp::Head {
    let a = cyc_atom(rng, p);
    if rng.chance(choice_pct) { asp::Head::Choice(a) } else { asp::Head::Basic(a) }
}

/// all predicates of the pool in a random order (names x arities 0..2)
fn pool(rng: &mut Rng) -> Vec<Pr> {
    let mut v = vec![];
    for n in CYC_NAMES {
        for ar in 0..3 {
            v.push(Pr { name: n, arity: ar });
        }
    }
    for i in (1..v.len()).rev() {
        let j = rng.below(i + 1);
        v.swap(i, j);
    }
    v
}

/// Kind of planted structure (reported in the evidence through the `kind` tag of the case).
#[derive(Clone, Copy, Debug, PartialEq, Eq)]
pub enum Plant {
    Random,
    Layered,
    PositiveCycle,
    BrokenBySign,
    BrokenByArity,
    SelfLoop,
}

/// A program whose positive dependency graph is acyclic by construction (edges only from a
/// higher to a lower position of `order`), with arbitrary negated / doubly negated literals.
fn layered_rules(rng: &mut Rng, order: &[Pr], n_rules: usize, rules: &mut Vec<asp::Rule>) {
    for _ in 0..n_rules {
        let hi = rng.below(order.len());
        let head = match rng.weighted(&[6, 3, 1]) {
            0 => asp::Head::Basic(cyc_atom(rng, &order[hi])),
            1 => asp::Head::Choice(cyc_atom(rng, &order[hi])),
            _ => asp::Head::Falsity,
        };
        let nb = rng.below(4);
        let mut body = vec![];
        for _ in 0..nb {
            match rng.weighted(&[5, 4, 1]) {
                0 if hi > 0 && head != asp::Head::Falsity => {
                    let q = &order[rng.below(hi)];
                    body.push(lit(asp::Sign::NoSign, cyc_atom(rng, q)));
                }
                0 => {
                    // constraints may mention anything positively: no head, no edge
                    let q = &order[rng.below(order.len())];
                    let s = if head == asp::Head::Falsity { any_sign(rng) } else { neg_sign(rng) };
                    body.push(lit(s, cyc_atom(rng, q)));
                }
                1 => {
                    let q = &order[rng.below(order.len())];
                    body.push(lit(neg_sign(rng), cyc_atom(rng, q)));
                }
                _ => body.push(asp::AtomicFormula::Comparison(asp::Comparison {
                    relation: g::asp_relation(rng),
                    lhs: cyc_term(rng),
                    rhs: cyc_term(rng),
                })),
            }
        }
        rules.push(asp::Rule { head, body: asp::Body { formulas: body } });
    }
}

pub fn planted_program(rng: &mut Rng) -> (asp::Program, Plant) {
    let plant = match rng.weighted(&[15, 25, 25, 15, 12, 8]) {
        0 => Plant::Random,
        1 => Plant::Layered,
        2 => Plant::PositiveCycle,
        3 => Plant::BrokenBySign,
        4 => Plant::BrokenByArity,
        _ => Plant::SelfLoop,
    };
    if plant == Plant::Random {
        let cfg = g::AspCfg { max_rules: 6, ..g::AspCfg::default() };
        return (g::program(rng, &cfg), plant);
    }
    let order = pool(rng);
    let used = 3 + rng.below(order.len() - 2);
    let order = &order[..used];
    let mut rules = vec![];
    let n_rules = rng.below(6);
    layered_rules(rng, order, n_rules, &mut rules);
    match plant {
        Plant::Layered | Plant::Random => {}
        Plant::SelfLoop => {
            let p = &order[rng.below(order.len())];
            let sign = if rng.chance(60) { asp::Sign::NoSign } else { neg_sign(rng) };
            let head = head_of(rng, p, 30);
            let mut body = vec![lit(sign, cyc_atom(rng, p))];
            if rng.chance(40) {
                let q = &order[rng.below(order.len())];
                body.insert(0, lit(neg_sign(rng), cyc_atom(rng, q)));
            }
            rules.push(asp::Rule { head, body: asp::Body { formulas: body } });
        }
        Plant::PositiveCycle | Plant::BrokenBySign | Plant::BrokenByArity => {
            // cycle c_0 -> c_1 -> ... -> c_{k-1} -> c_0 of length 1..8 over distinct predicates
            let k = 1 + rng.below(8.min(order.len()));
            let mut idx: Vec<usize> = (0..order.len()).collect();
            for i in (1..idx.len()).rev() {
                let j = rng.below(i + 1);
                idx.swap(i, j);
            }
            let cyc: Vec<Pr> = idx[..k].iter().map(|i| order[*i].clone()).collect();
            let broken = rng.below(k);
            let mut planted = vec![];
            for i in 0..k {
                let from = &cyc[i];
                let mut to = cyc[(i + 1) % k].clone();
                let mut sign = asp::Sign::NoSign;
                if i == broken {
                    match plant {
                        Plant::BrokenBySign => sign = neg_sign(rng),
                        Plant::BrokenByArity => {
                            // same name, different arity: a cycle on predicate NAMES only
                            to = Pr { name: to.name, arity: (to.arity + 1 + rng.below(2)) % 3 };
                            if cyc.contains(&to) {
                                // would close a (shorter) real cycle: use an arity outside the pool
                                to.arity = 3;
                            }
                        }
                        _ => {}
                    }
                }
                let head = head_of(rng, from, 35);
                let mut body = vec![lit(sign, cyc_atom(rng, &to))];
                if rng.chance(30) {
                    let q = &order[rng.below(order.len())];
                    let at = rng.below(2);
                    body.insert(at, lit(neg_sign(rng), cyc_atom(rng, q)));
                }
                planted.push(asp::Rule { head, body: asp::Body { formulas: body } });
            }
            // interleave the planted rules with the layered ones
            for r in planted {
                let at = rng.below(rules.len() + 1);
                rules.insert(at, r);
            }
        }
    }
    if rules.is_empty() {
        rules.push(asp::Rule { head: asp::Head::Basic(cyc_atom(rng, &order[0])), body: asp::Body { formulas: vec![] } });
    }
    (asp::Program { rules }, plant)
}

pub fn random_subset<T: Clone>(rng: &mut Rng, xs: &[T], pct: usize) -> Vec<T> {
    xs.iter().filter(|_| rng.chance(pct)).cloned().collect()
}

// ---------------------------------------------------------------- hand-made theories

fn fvar(name: &str, sort: fol::Sort) -> fol::Variable {
    fol::Variable { name: name.to_string(), sort }
}
fn var_term(v: &fol::Variable) -> fol::GeneralTerm {
    match v.sort {
        fol::Sort::General => fol::GeneralTerm::Variable(v.name.clone()),
        fol::Sort::Integer => fol::GeneralTerm::IntegerTerm(fol::IntegerTerm::Variable(v.name.clone())),
        fol::Sort::Symbol => fol::GeneralTerm::SymbolicTerm(fol::SymbolicTerm::Variable(v.name.clone())),
    }
}
fn imp(rng: &mut Rng, body: fol::Formula, head: fol::Formula, rimp_pct: usize) -> fol::Formula {
    if rng.chance(rimp_pct) {
        fol::Formula::BinaryFormula { connective: fol::BinaryConnective::ReverseImplication, lhs: head.into(), rhs: body.into() }
    } else {
        fol::Formula::BinaryFormula { connective: fol::BinaryConnective::Implication, lhs: body.into(), rhs: head.into() }
    }
}
fn shuffle<T>(rng: &mut Rng, v: &mut Vec<T>) {
    for i in (1..v.len()).rev() {
        let j = rng.below(i + 1);
        v.swap(i, j);
    }
}

const HEAD_VARS: &[&str] = &["V1", "V2", "V3", "X", "Y", "V"];

/// canonical head variables of predicate (name, arity) in this theory
fn canonical_head(rng: &mut Rng, general_only: bool, arity: usize) -> Vec<fol::Variable> {
    let mut names: Vec<&str> = HEAD_VARS.to_vec();
    shuffle(rng, &mut names);
    (0..arity)
        .map(|i| {
            let sort = if general_only || rng.chance(70) {
                fol::Sort::General
            } else if rng.chance(60) {
                fol::Sort::Integer
            } else {
                fol::Sort::Symbol
            };
            fvar(names[i], sort)
        })
        .collect()
}

/// A theory of definitions `forall V U (F -> p(V))` and constraints `forall U (F -> #false)`,
/// completable with probability ~55%; the rest carries one or more of the defects the code
/// must refuse (or quietly tolerates): repeated / non-variable head arguments, mismatched heads,
/// free variables, a second quantifier layer, an existential prefix, a non-atomic or #true head.
pub fn handmade_theory(rng: &mut Rng) -> fol::Theory {
    let cfg = g::Cfg {
        var_names: vec!["X", "Y", "Z", "V", "V1", "V2", "V3", "I", "N"],
        preds: vec!["p", "q", "r", "s"],
        max_arity: 3,
        repeated_binders: true,
        ..g::Cfg::tight()
    };
    let defective = rng.chance(45);
    let mut heads: Vec<(String, usize, Vec<fol::Variable>)> = vec![];
    let n = g::count(rng, 4);
    let mut formulas = vec![];
    let defect_at = if n > 0 { rng.below(n) } else { 0 };
    for i in 0..n {
        let depth = rng.below(3);
        let body = g::formula(rng, &cfg, depth);
        let is_def = rng.chance(70);
        let mut defect = if defective && i == defect_at { 1 + rng.below(9) } else { 0 };
        let matrix = if is_def {
            let name = rng.pick(&cfg.preds).to_string();
            let arity = rng.below(4);
            let canon = match heads.iter().find(|(n, a, _)| *n == name && *a == arity) {
                Some((_, _, vs)) => vs.clone(),
                None => {
                    let general_only = rng.chance(60);
                    let vs = canonical_head(rng, general_only, arity);
                    heads.push((name.clone(), arity, vs.clone()));
                    vs
                }
            };
            let mut hv = canon.clone();
            let mut terms: Vec<fol::GeneralTerm> = hv.iter().map(var_term).collect();
            match defect {
                1 if arity >= 2 => {
                    // repeated head argument
                    terms[1] = terms[0].clone();
                }
                2 if arity >= 1 => {
                    // non-variable head argument
                    let k = rng.below(arity);
                    terms[k] = match rng.below(4) {
                        0 => fol::GeneralTerm::IntegerTerm(fol::IntegerTerm::Numeral(1)),
                        1 => fol::GeneralTerm::SymbolicTerm(fol::SymbolicTerm::Symbol("a".into())),
                        2 => fol::GeneralTerm::IntegerTerm(fol::IntegerTerm::BinaryOperation {
                            op: fol::BinaryOperator::Add,
                            lhs: fol::IntegerTerm::Variable("N".into()).into(),
                            rhs: fol::IntegerTerm::Numeral(1).into(),
                        }),
                        _ => fol::GeneralTerm::FunctionConstant("c".into()),
                    };
                }
                3 if arity >= 1 => {
                    // mismatched head: other name or other sort for one argument
                    let k = rng.below(arity);
                    hv[k] = if rng.chance(50) {
                        fvar("W", hv[k].sort)
                    } else {
                        fvar(&hv[k].name, if hv[k].sort == fol::Sort::General { fol::Sort::Integer } else { fol::Sort::General })
                    };
                    terms = hv.iter().map(var_term).collect();
                }
                4 if arity >= 2 => {
                    // mismatched head: permuted arguments
                    terms.swap(0, 1);
                }
                1..=4 => defect = 5,
                _ => {}
            }
            let head = match defect {
                6 => fol::Formula::AtomicFormula(fol::AtomicFormula::Truth),
                7 => fol::Formula::UnaryFormula {
                    connective: fol::UnaryConnective::Negation,
                    formula: fol::Formula::AtomicFormula(fol::AtomicFormula::Atom(fol::Atom { predicate_symbol: name.clone(), terms: terms.clone() })).into(),
                },
                _ => fol::Formula::AtomicFormula(fol::AtomicFormula::Atom(fol::Atom { predicate_symbol: name, terms })),
            };
            if rng.chance(8) { head } else { imp(rng, body, head, 25) }
        } else {
            let f = fol::Formula::AtomicFormula(fol::AtomicFormula::Falsity);
            imp(rng, body, f, 25)
        };
        // close it
        let mut fvs: Vec<fol::Variable> = matrix.free_variables().into_iter().collect();
        if rng.chance(50) {
            shuffle(rng, &mut fvs);
        }
        if rng.chance(15) {
            let extra: &[&str] = &["X", "U", "V1"];
            let name: &str = extra[rng.below(extra.len())];
            fvs.push(fvar(name, fol::Sort::General));
        }
        if defect == 5 && !fvs.is_empty() {
            // free variable
            let k = rng.below(fvs.len());
            fvs.remove(k);
        }
        let quantifier = if defect == 8 && !fvs.is_empty() { fol::Quantifier::Exists } else { fol::Quantifier::Forall };
        let f = if defect == 9 && fvs.len() >= 2 {
            // two quantifier layers
            let k = 1 + rng.below(fvs.len() - 1);
            let inner: Vec<_> = fvs.split_off(k);
            matrix.quantify(fol::Quantifier::Forall, inner).quantify(fol::Quantifier::Forall, fvs)
        } else {
            matrix.quantify(quantifier, fvs)
        };
        formulas.push(f);
    }
    fol::Theory { formulas }
}

pub fn asp_pred(p: &fol::Predicate) -> asp::Predicate {
    asp::Predicate { symbol: p.symbol.clone(), arity: p.arity }
}
pub fn fol_pred(p: &asp::Predicate) -> fol::Predicate {
    fol::Predicate { symbol: p.symbol.clone(), arity: p.arity }
}
