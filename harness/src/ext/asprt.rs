//! C14 support: generators of mini-gringo program TEXTS (text-level grammar fuzzer with random
//! spacing / parentheses / comments, and token-level mutations), and of syntax trees that stress
//! the printer (every operator nested on either side, unary minus on numerals, negative numerals,
//! nested intervals, all head kinds, empty bodies).
use crate::{generate as g, rng::Rng};
use anthem::syntax_tree::asp::mini_gringo as asp;

pub fn cfg() -> g::AspCfg {
    g::AspCfg {
        var_names: vec!["X", "Y", "Z", "N1", "Xa", "V0"],
        symbols: vec!["a", "b", "n", "_a", "aB", "a_1", "notx", "no", "nota"],
        preds: vec!["p", "q", "r", "q_p", "_r", "notp"],
        max_arity: 3,
        num_lo: -3,
        num_hi: 4,
        extreme_numerals: 3,
        partial_ops: true,
        max_rules: 4,
        max_body: 3,
    }
}

/// like [`cfg`] plus identifiers spelled `not` (the known class F7)
pub fn cfg_with_keyword() -> g::AspCfg {
    let mut c = cfg();
    c.symbols.push("not");
    c.preds.push("not");
    c
}

/// terms deeper and more operator-heavy than generate::term (which stops at 55 % per level)
pub fn deep_term(rng: &mut Rng, cfg: &g::AspCfg, depth: usize) -> asp::Term {
    use asp::{BinaryOperator as B, PrecomputedTerm as P, Term as T};
    if depth == 0 || rng.chance(25) {
        return match rng.weighted(&[8, 5, 3, 1, 1]) {
            0 => T::PrecomputedTerm(P::Numeral(g::asp_numeral(rng, cfg))),
            1 => T::Variable(asp::Variable(rng.pick(&cfg.var_names).to_string())),
            2 => T::PrecomputedTerm(P::Symbol(rng.pick(&cfg.symbols).to_string())),
            3 => T::PrecomputedTerm(P::Infimum),
            _ => T::PrecomputedTerm(P::Supremum),
        };
    }
    if rng.chance(25) {
        return T::UnaryOperation { op: asp::UnaryOperator::Negative, arg: deep_term(rng, cfg, depth - 1).into() };
    }
    let op = *rng.pick(&[B::Add, B::Subtract, B::Multiply, B::Divide, B::Modulo, B::Interval]);
    // left-nested, right-nested and balanced shapes
    let (dl, dr) = match rng.below(3) {
        0 => (depth - 1, 0),
        1 => (0, depth - 1),
        _ => (depth - 1, depth - 1),
    };
    T::BinaryOperation { op, lhs: deep_term(rng, cfg, dl).into(), rhs: deep_term(rng, cfg, dr).into() }
}

pub fn atom(rng: &mut Rng, cfg: &g::AspCfg, depth: usize) -> asp::Atom {
    let arity = rng.below(cfg.max_arity + 1);
    asp::Atom {
        predicate_symbol: rng.pick(&cfg.preds).to_string(),
        terms: (0..arity).map(|_| deep_term(rng, cfg, depth)).collect(),
    }
}

pub fn program(rng: &mut Rng, cfg: &g::AspCfg) -> asp::Program {
    let n = g::count(rng, cfg.max_rules);
    let depth = 1 + rng.below(4);
    let rules = (0..n)
        .map(|_| {
            let head = match rng.weighted(&[5, 3, 3]) {
                0 => asp::Head::Basic(atom(rng, cfg, depth)),
                1 => asp::Head::Choice(atom(rng, cfg, depth)),
                _ => asp::Head::Falsity,
            };
            let nb = rng.below(cfg.max_body + 1);
            let formulas = (0..nb)
                .map(|_| {
                    if rng.chance(50) {
                        asp::AtomicFormula::Literal(asp::Literal {
                            sign: rng.pick(&[asp::Sign::NoSign, asp::Sign::Negation, asp::Sign::DoubleNegation]).clone(),
                            atom: atom(rng, cfg, depth),
                        })
                    } else {
                        asp::AtomicFormula::Comparison(asp::Comparison {
                            relation: g::asp_relation(rng),
                            lhs: deep_term(rng, cfg, depth),
                            rhs: deep_term(rng, cfg, depth),
                        })
                    }
                })
                .collect();
            asp::Rule { head, body: asp::Body { formulas } }
        })
        .collect();
    asp::Program { rules }
}

// ---------------------------------------------------------------- text-level grammar fuzzer

fn pk(rng: &mut Rng, xs: &[&'static str]) -> &'static str {
    xs[rng.below(xs.len())]
}

fn sp(rng: &mut Rng) -> &'static str {
    match rng.weighted(&[400, 400, 50, 50, 30, 30, 20, 20, 5]) {
        0 => "",
        1 => " ",
        2 => "  ",
        3 => "\n",
        4 => " %c\n",
        5 => "\r\n",
        6 => "%\n",
        7 => "\r",
        // not layout for the grammar (`WHITESPACE = " " | NEWLINE`): form feed, vertical tab, tab, NBSP, BOM;
        // non-ASCII text bare and inside a comment; an apostrophe (clingo's X')
        _ => pk(rng, &["\x0c", "\x0b", "\t", "\u{a0}", "\u{feff}", " %\x0c\u{e9}\u{3bb}\u{a0}\n", "\u{e9}", "'", " % it's\n", "\x00"]),
    }
}

fn text_leaf(rng: &mut Rng, out: &mut String) {
    match rng.weighted(&[6, 3, 4, 4, 1, 1, 1, 1, 1]) {
        0 => out.push_str(&rng.range(0, 12).to_string()),
        1 => out.push_str(&format!("-{}", rng.range(1, 12))),
        2 => out.push_str(pk(rng, &["X", "Y", "Z1", "Ab"])),
        3 => out.push_str(pk(rng, &["a", "b", "_a", "aB", "a_1", "notx", "nota", "no"])),
        4 => out.push_str("#inf"),
        5 => out.push_str("#sup"),
        6 => out.push_str("#infimum"),
        7 => out.push_str("#supremum"),
        _ => out.push_str(pk(rng, &["0", "-0", "9223372036854775807", "-9223372036854775808", "9223372036854775808", "007"])),
    }
}

pub fn text_term(rng: &mut Rng, depth: usize, out: &mut String) {
    if depth == 0 || rng.chance(30) {
        text_leaf(rng, out);
        return;
    }
    match rng.weighted(&[50, 20, 20]) {
        0 => {
            text_term(rng, depth - 1, out);
            out.push_str(sp(rng));
            out.push_str(pk(rng, &["+", "-", "*", "/", "\\", "..", "-", ".."]));
            out.push_str(sp(rng));
            text_term(rng, depth - 1, out);
        }
        1 => {
            // unary minus chains, with and without separating space
            for _ in 0..1 + rng.below(3) {
                out.push('-');
                out.push_str(sp(rng));
            }
            text_term(rng, depth - 1, out);
        }
        _ => {
            out.push('(');
            out.push_str(sp(rng));
            text_term(rng, depth - 1, out);
            out.push_str(sp(rng));
            out.push(')');
        }
    }
}

fn text_atom(rng: &mut Rng, out: &mut String) {
    out.push_str(pk(rng, &["p", "q", "r", "q_p", "_r", "notp", "p1"]));
    match rng.weighted(&[30, 60, 10]) {
        0 => {}
        1 => {
            out.push_str(sp(rng));
            out.push('(');
            let n = 1 + rng.below(3);
            for i in 0..n {
                if i > 0 {
                    out.push_str(sp(rng));
                    out.push(',');
                }
                out.push_str(sp(rng));
                {
                    let d = rng.below(4);
                    text_term(rng, d, out);
                }
            }
            out.push_str(sp(rng));
            out.push(')');
        }
        _ => out.push_str("()"),
    }
}

fn text_body_formula(rng: &mut Rng, out: &mut String) {
    if rng.chance(55) {
        for _ in 0..rng.weighted(&[50, 30, 20]) {
            out.push_str("not");
            out.push_str(pk(rng, &[" ", " ", "\n", "  "]));
        }
        text_atom(rng, out);
    } else {
        {
                    let d = rng.below(4);
                    text_term(rng, d, out);
                }
        out.push_str(sp(rng));
        out.push_str(pk(rng, &["=", "!=", "<", "<=", ">", ">=", "="]));
        out.push_str(sp(rng));
        {
                    let d = rng.below(4);
                    text_term(rng, d, out);
                }
    }
}

pub fn text_rule(rng: &mut Rng, out: &mut String) {
    let head_kind = rng.weighted(&[40, 25, 20, 15]);
    match head_kind {
        0 => text_atom(rng, out),
        1 => {
            out.push('{');
            out.push_str(sp(rng));
            text_atom(rng, out);
            out.push_str(sp(rng));
            out.push('}');
        }
        2 => out.push_str("#false"),
        _ => {}
    }
    let nb = rng.weighted(&[25, 35, 25, 15]);
    // an empty head needs the ":-"; otherwise ":-" is optional when the body is empty
    if nb > 0 || head_kind == 3 || rng.chance(20) {
        out.push_str(sp(rng));
        out.push_str(":-");
        for i in 0..nb {
            if i > 0 {
                out.push_str(sp(rng));
                out.push_str(if rng.chance(80) { "," } else { ";" });
            }
            out.push_str(sp(rng));
            text_body_formula(rng, out);
        }
    }
    out.push_str(sp(rng));
    out.push('.');
}

pub fn text_program(rng: &mut Rng) -> String {
    let mut out = String::new();
    if rng.chance(10) {
        out.push_str(pk(rng, &[" ", "\n", "%c\n", "% only a comment", " ", "\n", "%c\n", "\u{feff}", "\u{feff}%c\n", "% \u{e9}\n"]));
    }
    for _ in 0..g::count(rng, 3) {
        text_rule(rng, &mut out);
        out.push_str(pk(rng, &["\n", " ", "", "\n\n", " % comment\n"]));
    }
    out
}

// ---------------------------------------------------------------- mutations

/// chunks: identifier/number runs, single other characters (whitespace kept as chunks)
pub fn chunks(text: &str) -> Vec<String> {
    let mut v: Vec<String> = vec![];
    let mut cur = String::new();
    for c in text.chars() {
        if c.is_ascii_alphanumeric() || c == '_' {
            cur.push(c);
        } else {
            if !cur.is_empty() {
                v.push(std::mem::take(&mut cur));
            }
            v.push(c.to_string());
        }
    }
    if !cur.is_empty() {
        v.push(cur);
    }
    v
}

pub fn mutate(rng: &mut Rng, text: &str) -> String {
    let mut v = chunks(text);
    for _ in 0..1 + rng.below(2) {
        if v.is_empty() {
            break;
        }
        let i = rng.below(v.len());
        match rng.below(5) {
            0 => {
                v.remove(i);
            }
            1 => {
                let x = v[i].clone();
                v.insert(i, x);
            }
            2 => {
                if i + 1 < v.len() {
                    v.swap(i, i + 1);
                }
            }
            3 => {
                let ins = pk(rng, &["\t", "'", "#", ".", "-", "(", ")", "not ", "not", "0", "..", ":-", ",", ";", "{", "}", "#false", "=", "!", "_", "X", "%", " ", "\u{e9}", "\x0c", "\x0b", "\u{a0}", "\u{feff}", "'", "\u{c9}"]).to_string();
                v.insert(i, ins);
            }
            _ => {
                // delete a single character inside the chunk
                let s: Vec<char> = v[i].chars().collect();
                if s.len() > 1 {
                    let k = rng.below(s.len());
                    v[i] = s.iter().enumerate().filter(|(j, _)| *j != k).map(|(_, c)| *c).collect();
                } else {
                    v.remove(i);
                }
            }
        }
    }
    v.concat()
}
