//! Generators for the C12 oracle "the symbol_order chain read for the ORIGINAL constants"
//! (ops `chain_emit`, `chain_external`): raw problems / external tasks in which a symbolic constant
//! has the name of a 0-ary predicate (so that `rename_conflicting_symbols` fires) next to one to
//! three more constants whose names lie AROUND the clashing name and around every plausible
//! renaming of it (`b`, `m`, `s`, `sa`, `t`, `s__..`, `<c>a`, `<c>__t`, ...).
//!
//! Nothing here knows how anthem renames: the pools are plain name lists.  A small share of the
//! cases (IN_CLASS_PCT) deliberately uses names right after the clashing name (`<c>1`, `<c>B`,
//! `<c>_`, `<c>__r`, `<c>__s`): that is the recorded class of finding F8c, kept small so that the
//! classification of the oracle is exercised without dominating the run.
use crate::{rng::Rng, sexp::{Sexp, a, l, s, tagged}};

/// names that clash (used both as 0-ary predicate and as symbolic constant)
pub const CLASH: &[&str] = &["a", "b", "m", "s", "sa", "t", "ha", "ta", "p", "q", "s__a"];
/// constants around the clashing names and around prefixed / suffixed variants of them
pub const AROUND: &[&str] = &[
    "a", "aa", "az", "b", "c", "h", "ha", "hb", "m", "n", "r", "s", "s_", "s__", "s__a", "s__a__", "s__b", "s__m__", "s__z",
    "s_a", "sa", "sb", "sz", "t", "ta", "tb", "u", "z", "zz", "a_s", "a_t", "b_s",
];
/// suffixes that put `<c><suffix>` outside the recorded class F8c (after every `<c>__s`)
pub const SUFFIX_OUT: &[&str] = &["a", "z", "__t", "__z", "_a", "_s", "__sa", "__s_", "b0"];
/// suffixes inside the recorded class F8c: `<c> < <c><suffix> <= <c>__s` in byte order
pub const SUFFIX_IN: &[&str] = &["1", "B", "0a", "_", "__", "__r", "__a", "_1", "__s", "__S", "Z"];
pub const IN_CLASS_PCT: usize = 8;

fn pk<'x>(rng: &mut Rng, xs: &'x [String]) -> &'x str {
    xs[rng.below(xs.len())].as_str()
}
fn pc(rng: &mut Rng, xs: &[&'static str]) -> &'static str {
    xs[rng.below(xs.len())]
}
pub fn sy(x: &str) -> Sexp {
    tagged("sy", vec![s(x)])
}
pub fn atom0(p: &str) -> Sexp {
    l(vec![a("P"), s(p)])
}
pub fn cmp(x: Sexp, r: &str, y: Sexp) -> Sexp {
    l(vec![a("C"), x, l(vec![a(r), y])])
}
pub fn bin(c: &str, x: Sexp, y: Sexp) -> Sexp {
    tagged(c, vec![x, y])
}

/// the names of one case
pub struct Names {
    /// the name drawn from CLASH (a 0-ary predicate and/or a constant of the case)
    pub c: String,
    /// 0-ary predicates
    pub preds0: Vec<String>,
    /// symbolic constants
    pub consts: Vec<String>,
}

pub fn names(rng: &mut Rng) -> Names {
    let c = pc(rng, CLASH).to_string();
    let mut consts: Vec<String> = vec![];
    let mut preds0: Vec<String> = vec!["q".to_string()];
    // 85 %: the clash (constant c and predicate c/0); otherwise a control case without clash
    let clash = rng.chance(85);
    if clash {
        preds0.push(c.clone());
        consts.push(c.clone());
    } else if rng.chance(50) {
        consts.push(c.clone());
    } else {
        preds0.push(c.clone());
    }
    let more = 1 + rng.weighted(&[5, 4, 1]);
    for _ in 0..more {
        let n = match rng.weighted(&[55, 35 - IN_CLASS_PCT.min(30), IN_CLASS_PCT]) {
            0 => pc(rng, AROUND).to_string(),
            1 => format!("{c}{}", pc(rng, SUFFIX_OUT)),
            _ => format!("{c}{}", pc(rng, SUFFIX_IN)),
        };
        if !consts.contains(&n) {
            consts.push(n);
        }
    }
    // sometimes a second clash: one of the other constants is a 0-ary predicate too
    if consts.len() > 1 && rng.chance(15) {
        let d = consts[1 + rng.below(consts.len() - 1)].clone();
        if !preds0.contains(&d) {
            preds0.push(d);
        }
    }
    Names { c, preds0, consts }
}

const RELS: &[&str] = &["lt", "le", "gt", "ge", "eq", "ne"];
const CONNS: &[&str] = &["and", "or", "imp", "rimp", "iff"];

fn term(rng: &mut Rng, n: &Names, vars: &mut bool) -> Sexp {
    match rng.weighted(&[78, 8, 10, 2, 2]) {
        0 => sy(pk(rng, &n.consts)),
        1 => tagged("n", vec![a(&rng.range(-2, 3).to_string())]),
        2 => {
            *vars = true;
            tagged("gv", vec![s("X")])
        }
        3 => a("inf"),
        _ => a("sup"),
    }
}

fn atomic(rng: &mut Rng, n: &Names, vars: &mut bool) -> Sexp {
    match rng.weighted(&[30, 14, 8, 46, 2]) {
        0 => atom0(pk(rng, &n.preds0)),
        1 => l(vec![a("P"), s("holds"), term(rng, n, vars)]),
        2 => l(vec![a("P"), s("edge"), term(rng, n, vars), term(rng, n, vars)]),
        3 => {
            let mut v = vec![a("C"), term(rng, n, vars)];
            for _ in 0..(1 + rng.weighted(&[8, 2])) {
                v.push(l(vec![a(pc(rng, RELS)), term(rng, n, vars)]));
            }
            l(v)
        }
        _ => l(vec![a(if rng.chance(50) { "T" } else { "F" })]),
    }
}

fn formula(rng: &mut Rng, n: &Names, depth: usize, vars: &mut bool) -> Sexp {
    if depth == 0 || rng.chance(30) {
        return atomic(rng, n, vars);
    }
    if rng.chance(15) {
        return tagged("not", vec![formula(rng, n, depth - 1, vars)]);
    }
    bin(pc(rng, CONNS), formula(rng, n, depth - 1, vars), formula(rng, n, depth - 1, vars))
}

fn closed(rng: &mut Rng, n: &Names, depth: usize) -> Sexp {
    let mut vars = false;
    let f = formula(rng, n, depth, &mut vars);
    if vars {
        tagged(if rng.chance(70) { "forall" } else { "exists" }, vec![l(vec![l(vec![s("X"), a("g")])]), f])
    } else {
        f
    }
}

const FORMULA_NAMES: &[&str] = &["", "ax", "lemma_1", "completed_definition_of_q_0", "x_y", "ax"];

/// `(problem "name" (pf ..)..)`: the shape anthem builds for `c. q :- c, c < d.` (completed
/// definitions of c/0 and q/0 with a comparison between the clashing constant and another one)
/// plus 0..2 random closed formulas over the same names; at least one conjecture.
pub fn raw_problem(rng: &mut Rng) -> Sexp {
    let n = names(rng);
    let mut pfs: Vec<(String, bool, Sexp)> = vec![];
    if rng.chance(75) && n.consts.len() >= 2 {
        let c = &n.consts[0];
        let d = &n.consts[1 + rng.below(n.consts.len() - 1)];
        let p = if n.preds0.len() > 1 { n.preds0[1].clone() } else { "q".to_string() };
        let (x, y) = if rng.chance(50) { (c, d) } else { (d, c) };
        pfs.push((format!("completed_definition_of_{p}_0"), false, bin("iff", atom0(&p), l(vec![a("T")]))));
        pfs.push((
            "completed_definition_of_q_0".to_string(),
            true,
            bin("iff", atom0("q"), bin("and", atom0(&p), cmp(sy(x), pc(rng, RELS), sy(y)))),
        ));
    }
    let extra = if pfs.is_empty() { 1 + rng.below(3) } else { rng.below(3) };
    for _ in 0..extra {
        let depth = 1 + rng.below(3);
        let f = closed(rng, &n, depth);
        let at = rng.below(pfs.len() + 1);
        pfs.insert(at, (pc(rng, FORMULA_NAMES).to_string(), rng.chance(35), f));
    }
    // every constant and every 0-ary predicate of the case occurs (a cheap final formula)
    if rng.chance(60) {
        let mut f = l(vec![a("T")]);
        for p in &n.preds0 {
            f = bin("or", f, atom0(p));
        }
        for w in n.consts.windows(2) {
            f = bin("or", f, cmp(sy(&w[0]), "ne", sy(&w[1])));
        }
        pfs.push(("mentions_all".to_string(), false, f));
    }
    if !pfs.iter().any(|x| x.1) {
        pfs.last_mut().unwrap().1 = true;
    }
    let mut v = vec![s("problem")];
    v.extend(pfs.into_iter().map(|(name, conj, f)| tagged("pf", vec![s(&name), a(if conj { "conjecture" } else { "axiom" }), f])));
    tagged("problem", v)
}

// ---------------------------------------------------------------- external tasks (task level)

fn asp_sy(x: &str) -> Sexp {
    tagged("sy", vec![s(x)])
}
fn asp_atom(p: &str, args: Vec<Sexp>) -> Sexp {
    let mut v = vec![s(p)];
    v.extend(args);
    l(v)
}
fn fact(p: &str) -> Sexp {
    tagged("rule", vec![tagged("basic", vec![asp_atom(p, vec![])]), l(vec![])])
}

/// `(external (spec-program P1) P2 (ug (output ("q" 0)) (output ("c" 0))) (spec) dec dir repr ..)`
/// with P1 = `c. q :- c, x R y.` (+ sometimes `q :- x R' y.`), P2 = `c. q.`: the demo input of the
/// seeded change C12_r4 (`a. q :- a, a < b.`) with names drawn from the pools above.
pub fn external_task(rng: &mut Rng) -> Sexp {
    let mut n = names(rng);
    let c = n.c.clone();
    if !n.consts.contains(&c) && rng.chance(50) {
        n.consts.insert(0, c.clone());
    }
    if n.consts.len() < 2 {
        n.consts.push("b".to_string());
        n.consts.dedup();
        if n.consts.len() < 2 {
            n.consts.push("m".to_string());
        }
    }
    let body_cmp = |rng: &mut Rng| {
        let x = pk(rng, &n.consts).to_string();
        let mut y = pk(rng, &n.consts).to_string();
        if x == y {
            y = n.consts[(n.consts.iter().position(|z| *z == x).unwrap() + 1) % n.consts.len()].clone();
        }
        tagged("cmp", vec![a(pc(rng, &["lt", "le", "gt", "ge", "ne", "eq"])), asp_sy(&x), asp_sy(&y)])
    };
    let mut rules = vec![fact(&c)];
    let k = 1 + rng.weighted(&[6, 3, 1]);
    for _ in 0..k {
        let mut body = vec![];
        if rng.chance(80) {
            body.push(tagged("pos", vec![asp_atom(&c, vec![])]));
        }
        body.push(body_cmp(rng));
        if rng.chance(25) {
            body.push(body_cmp(rng));
        }
        rules.push(tagged("rule", vec![tagged("basic", vec![asp_atom("q", vec![])]), l(body)]));
    }
    let left = tagged("program", rules);
    let right = tagged("program", vec![fact(&c), fact("q")]);
    let ug = tagged(
        "ug",
        vec![tagged("output", vec![l(vec![s("q"), a("0")])]), tagged("output", vec![l(vec![s(&c), a("0")])])],
    );
    tagged(
        "external",
        vec![
            tagged("spec-program", vec![left]),
            right,
            ug,
            tagged("spec", vec![]),
            a(if rng.chance(50) { "independent" } else { "sequential" }),
            a(pc(rng, &["universal", "forward", "backward"])),
            a("tau-star"),
            a("false"),
            a(if rng.chance(70) { "true" } else { "false" }),
            a(if rng.chance(30) { "true" } else { "false" }),
        ],
    )
}
