//! C15 support: generators of target-language trees in the parser image (with adversarial names),
//! of specifications and user guides, a text-level grammar fuzzer and a text mutator.
use crate::{generate as g, rng::Rng};
use anthem::syntax_tree::fol::sigma_0 as fol;

/// names that are legal identifiers but look like keywords / sort names / roles; none of them starts
/// with `not`, or with `forall`/`exists` followed by a variable (those are the F7b class, see
/// `keywordish`), so trees built from them are in the image of the parser
pub const TRICKY_SYMBOLS: &[&str] = &[
    "and", "or", "not", "forall", "exists", "andy", "order", "forallx", "exists_", "i", "g", "s", "integer", "input",
    "spec", "lemma", "inductive", "universal", "_a", "_aB_1", "a__b", "n0",
];
pub const TRICKY_PREDS: &[&str] = &["and", "or", "forall", "exists", "forallx", "exists1", "andy", "orb", "input", "spec", "_p", "p1"];
/// identifiers of the known class F7b (keyword literal at the front of the word)
pub const KEYWORDISH: &[&str] = &["notp", "not_", "nota", "forallX", "exists_Y1", "notforall", "existsX"];
pub const TRICKY_VARS: &[&str] = &["X", "_X", "X_1", "Xy", "XY", "_Ab", "I", "N1"];

pub fn cfg(rng: &mut Rng) -> g::Cfg {
    let mut c = g::Cfg::default();
    if rng.chance(35) {
        c.symbols.extend_from_slice(&TRICKY_SYMBOLS[..rng.below(TRICKY_SYMBOLS.len()) + 1]);
        c.preds.extend_from_slice(&TRICKY_PREDS[..rng.below(TRICKY_PREDS.len()) + 1]);
        c.var_names.extend_from_slice(TRICKY_VARS);
        c.fconsts.extend_from_slice(&["and", "forall", "i", "_c"]);
    }
    if rng.chance(20) {
        c.extreme_numerals = 15;
    }
    if rng.chance(30) {
        c.num_lo = -12;
        c.num_hi = 12;
    }
    c
}

/// like `cfg` but with identifiers of the known class F7b mixed in (used by the translated-output op
/// and, rarely, by the tree round trip, so that the classification path is exercised)
pub fn cfg_keywordish(rng: &mut Rng) -> g::Cfg {
    let mut c = cfg(rng);
    c.symbols.extend_from_slice(&KEYWORDISH[..3]);
    c.preds.extend_from_slice(KEYWORDISH);
    c.fconsts.extend_from_slice(&["notc", "forallX"]);
    c
}

pub fn formula(rng: &mut Rng) -> fol::Formula {
    let c = if rng.chance(3) { cfg_keywordish(rng) } else { cfg(rng) };
    let depth = 1 + rng.below(4);
    g::formula(rng, &c, depth)
}

pub fn theory(rng: &mut Rng) -> fol::Theory {
    let c = if rng.chance(3) { cfg_keywordish(rng) } else { cfg(rng) };
    let n = g::count(rng, 3);
    fol::Theory { formulas: (0..n).map(|_| { let d = 1 + rng.below(3); g::formula(rng, &c, d) }).collect() }
}

pub fn role(rng: &mut Rng) -> fol::Role {
    use fol::Role as R;
    *rng.pick(&[R::Assumption, R::Spec, R::Lemma, R::Definition, R::InductiveLemma])
}
pub fn direction(rng: &mut Rng) -> fol::Direction {
    use fol::Direction as D;
    *rng.pick(&[D::Universal, D::Universal, D::Forward, D::Backward])
}
pub fn annotated(rng: &mut Rng, c: &g::Cfg) -> fol::AnnotatedFormula {
    let depth = 1 + rng.below(3);
    fol::AnnotatedFormula {
        role: role(rng),
        direction: direction(rng),
        name: if rng.chance(50) { String::new() } else { rng.pick(&["n", "lemma_1", "_x", "forall", "spec", "a1"]).to_string() },
        formula: g::formula(rng, c, depth),
    }
}
pub fn specification(rng: &mut Rng) -> fol::Specification {
    let c = cfg(rng);
    let n = g::count(rng, 3);
    fol::Specification { formulas: (0..n).map(|_| annotated(rng, &c)).collect() }
}
pub fn sort(rng: &mut Rng) -> fol::Sort {
    *rng.pick(&[fol::Sort::General, fol::Sort::Integer, fol::Sort::Symbol])
}
pub fn ug_entry(rng: &mut Rng, c: &g::Cfg) -> fol::UserGuideEntry {
    use fol::UserGuideEntry as U;
    let pred = |rng: &mut Rng| fol::Predicate {
        symbol: rng.pick(&["p", "q", "input", "output", "forall", "_p", "q_1"]).to_string(),
        arity: *rng.pick(&[0usize, 1, 2, 3, 10, 12345]),
    };
    match rng.weighted(&[3, 3, 3, 3]) {
        0 => U::InputPredicate(pred(rng)),
        1 => U::OutputPredicate(pred(rng)),
        2 => U::PlaceholderDeclaration(fol::PlaceholderDeclaration {
            name: rng.pick(&["n", "m", "input", "i", "_c", "general"]).to_string(),
            sort: sort(rng),
        }),
        _ => U::AnnotatedFormula(annotated(rng, c)),
    }
}
pub fn user_guide(rng: &mut Rng) -> fol::UserGuide {
    let c = cfg(rng);
    let n = g::count(rng, 4);
    fol::UserGuide { entries: (0..n).map(|_| ug_entry(rng, &c)).collect() }
}

// ------------------------------------------------------------------ text-level grammar fuzzer

/// separator between two tokens: mostly one blank, sometimes nothing (glues words to keywords),
/// several blanks, a newline or a comment
fn sep(rng: &mut Rng, out: &mut String) {
    match rng.weighted(&[60, 18, 8, 6, 4, 2, 2, 2]) {
        0 => out.push(' '),
        1 => {}
        2 => out.push_str("  "),
        3 => out.push('\n'),
        4 => out.push_str(" % c. (\n"),
        5 => out.push_str("\r\n"),
        6 => out.push_str("%\n"),
        _ => exotic(rng, out),
    }
}
/// characters that are NOT layout for the grammar (`WHITESPACE = " " | NEWLINE`) although they look
/// like it - form feed, vertical tab, tab, NBSP, BOM - and non-ASCII text, bare or inside a comment
/// (where `ANY` accepts it); audit 2, B16 / T16
pub const EXOTIC: &[&str] = &[
    "\x0c", "\x0b", "\t", "\u{a0}", "\u{feff}", " %\x0c\u{e9}\u{3bb}\u{a0}\x0b\n", "\u{e9}", "\u{3bb}", "'", " % it's\n", "\u{2028}", "\x00",
];
pub fn exotic(rng: &mut Rng, out: &mut String) {
    out.push_str(*rng.pick(EXOTIC));
}
/// separator that is never empty (between two word-like tokens when we want them apart)
fn gap(rng: &mut Rng, out: &mut String) {
    if rng.chance(85) { out.push(' ') } else { out.push_str(*rng.pick(&["\n", "  ", " %x\n", "\r", "\n", "  ", " %x\n", "\r", "\x0c", "\u{a0}", " %\u{e9}\n", "\x0b"])) }
}
/// either a real gap or (rarely) nothing
fn wsep(rng: &mut Rng, out: &mut String) {
    if rng.chance(93) { gap(rng, out) }
}

fn f_var(rng: &mut Rng, out: &mut String) {
    out.push_str(*rng.pick(&["X", "Y", "N", "_X", "X1", "Xy", "I", "X", "Y", "N", "_X", "X1", "Xy", "I", "X'", "\u{c9}a"]));
    out.push_str(*rng.pick(&["", "", "", "$", "$i", "$i", "$integer", "$s", "$symbol", "$g", "$general", "$in", "$x"]));
}
fn f_numeral(rng: &mut Rng, out: &mut String) {
    out.push_str(*rng.pick(&[
        "0", "1", "2", "10", "-1", "-5", "- 5", "-(5)", "-0", "007", "3", "9223372036854775807", "-9223372036854775808",
        "9223372036854775808", "00",
    ]));
}
fn f_symbol(rng: &mut Rng, out: &mut String) {
    out.push_str(*rng.pick(&["a", "b", "c", "not", "and", "forall", "nota", "_a", "aB", "or", "i", "p", "a", "b", "c", "not", "and", "forall", "nota", "_a", "aB", "or", "i", "p", "a'", "\u{e9}"]));
}
fn f_iterm(rng: &mut Rng, out: &mut String, depth: usize) {
    if depth == 0 || rng.chance(45) {
        match rng.weighted(&[5, 5, 2, 1]) {
            0 => f_numeral(rng, out),
            1 => {
                out.push_str(*rng.pick(&["X", "N", "I", "_X"]));
                out.push_str(*rng.pick(&["$i", "$", "$integer", "$i", ""]));
            }
            2 => {
                out.push_str(*rng.pick(&["c", "n", "not", "forallX"]));
                out.push_str(*rng.pick(&["$i", "$integer", "$i", "$"]));
            }
            _ => f_symbol(rng, out),
        }
        return;
    }
    match rng.weighted(&[2, 6, 2]) {
        0 => {
            out.push('-');
            if rng.chance(20) { out.push(' ') }
            f_iterm(rng, out, depth - 1);
        }
        1 => {
            f_iterm(rng, out, depth - 1);
            if rng.chance(75) { out.push(' ') }
            out.push_str(*rng.pick(&["+", "-", "*", "-", "+"]));
            if rng.chance(75) { out.push(' ') }
            f_iterm(rng, out, depth - 1);
        }
        _ => {
            out.push('(');
            if rng.chance(10) { out.push(' ') }
            f_iterm(rng, out, depth - 1);
            if rng.chance(10) { out.push(' ') }
            out.push(')');
        }
    }
}
fn f_gterm(rng: &mut Rng, out: &mut String) {
    match rng.weighted(&[7, 3, 3, 1, 1, 1]) {
        0 => f_iterm(rng, out, 2),
        1 => f_var(rng, out),
        2 => {
            f_symbol(rng, out);
            out.push_str(*rng.pick(&["", "", "", "$s", "$g", "$symbol", "$general", "$i"]));
        }
        3 => out.push_str("#inf"),
        4 => out.push_str("#sup"),
        _ => out.push_str(*rng.pick(&["#infx", "#su", "X$s + 1", "(a)", "p(a)"])),
    }
}
fn f_rel(rng: &mut Rng, out: &mut String) {
    out.push_str(*rng.pick(&["=", "=", "!=", "<", "<=", ">", ">=", "<", "<-", "=<", "=="]));
}
fn f_atomic(rng: &mut Rng, out: &mut String) {
    match rng.weighted(&[1, 1, 6, 8]) {
        0 => out.push_str("#true"),
        1 => out.push_str("#false"),
        2 => {
            out.push_str(*rng.pick(&["p", "q", "r", "forall", "exists", "and", "not", "notp", "forallX", "_p", "orq", "andy"]));
            if rng.chance(70) {
                if rng.chance(10) { out.push(' ') }
                out.push('(');
                let n = rng.below(4);
                for i in 0..n {
                    if i > 0 {
                        out.push(',');
                        if rng.chance(70) { out.push(' ') }
                    }
                    f_gterm(rng, out);
                }
                out.push(')');
            }
        }
        _ => {
            f_gterm(rng, out);
            let n = 1 + if rng.chance(30) { rng.below(3) } else { 0 };
            for _ in 0..n {
                if rng.chance(85) { out.push(' ') }
                f_rel(rng, out);
                if rng.chance(85) { out.push(' ') }
                f_gterm(rng, out);
            }
        }
    }
}
pub fn f_formula(rng: &mut Rng, out: &mut String, depth: usize) {
    if depth == 0 || rng.chance(25) {
        f_atomic(rng, out);
        return;
    }
    match rng.weighted(&[3, 5, 7, 3]) {
        0 => {
            out.push_str("not");
            wsep(rng, out);
            f_formula(rng, out, depth - 1);
        }
        1 => {
            out.push_str(if rng.chance(50) { "forall" } else { "exists" });
            let n = 1 + rng.below(3);
            for _ in 0..n {
                wsep(rng, out);
                f_var(rng, out);
            }
            // the body directly after the binders: comparisons that begin with a variable, a numeral,
            // a parenthesised term ...
            wsep(rng, out);
            match rng.weighted(&[6, 2, 2, 2, 2]) {
                0 => f_formula(rng, out, depth - 1),
                1 => {
                    f_var(rng, out);
                    out.push_str(" = 1");
                }
                2 => {
                    out.push_str("(");
                    f_iterm(rng, out, 1);
                    out.push_str(") * 2 = ");
                    f_gterm(rng, out);
                }
                3 => {
                    f_numeral(rng, out);
                    out.push_str(" < ");
                    f_var(rng, out);
                }
                _ => {
                    out.push('(');
                    f_var(rng, out);
                    out.push_str(" = 1)");
                }
            }
        }
        2 => {
            f_formula(rng, out, depth - 1);
            sep(rng, out);
            out.push_str(*rng.pick(&["and", "or", "->", "<-", "<->", "and", "or", "->"]));
            sep(rng, out);
            f_formula(rng, out, depth - 1);
        }
        _ => {
            out.push('(');
            if rng.chance(10) { out.push(' ') }
            f_formula(rng, out, depth - 1);
            if rng.chance(10) { out.push(' ') }
            out.push(')');
        }
    }
}
pub fn fuzz_formula(rng: &mut Rng) -> String {
    let mut s = String::new();
    if rng.chance(4) { s.push(' ') }
    let d = 1 + rng.below(4);
    f_formula(rng, &mut s, d);
    if rng.chance(10) { s.push_str(*rng.pick(&[" ", "\n", " % end", " and", " not"])) }
    s
}
pub fn fuzz_theory(rng: &mut Rng) -> String {
    let mut s = String::new();
    if rng.chance(15) { s.push_str(*rng.pick(&[" ", "\n", "% header\n", "%", "\u{feff}", "\u{feff}% bom\n", "% \u{e9}\u{a0}\n"])) }
    let n = g::count(rng, 3);
    for _ in 0..n {
        let d = 1 + rng.below(3);
        f_formula(rng, &mut s, d);
        if rng.chance(10) { s.push(' ') }
        if !rng.chance(3) { s.push('.') }
        s.push_str(*rng.pick(&["\n", " ", "", "\n\n", " % c\n"]));
    }
    s
}
fn f_annotated(rng: &mut Rng, s: &mut String) {
    s.push_str(*rng.pick(&["assumption", "spec", "lemma", "definition", "inductive-lemma", "inductive - lemma", "specx", "lemmas", "input", "Lemma"]));
    if rng.chance(40) {
        if rng.chance(15) { s.push(' ') }
        s.push('(');
        s.push_str(*rng.pick(&["universal", "forward", "backward", "forwards", " forward ", "back"]));
        s.push(')');
    }
    if rng.chance(40) {
        if rng.chance(15) { s.push(' ') }
        s.push('[');
        s.push_str(*rng.pick(&["n", "_n1", "forall", "N", "a b", " n ", "n$i", "1"]));
        s.push(']');
    }
    if rng.chance(15) { s.push(' ') }
    if !rng.chance(3) { s.push(':') }
    if rng.chance(85) { s.push(' ') }
    let d = 1 + rng.below(3);
    f_formula(rng, s, d);
}
pub fn fuzz_spec(rng: &mut Rng) -> String {
    let mut s = String::new();
    if rng.chance(10) { s.push_str(*rng.pick(&["% spec\n ", "% spec\n ", "\u{feff}", "% sp\u{e9}c\x0c\n"])) }
    let n = g::count(rng, 3);
    for _ in 0..n {
        f_annotated(rng, &mut s);
        if !rng.chance(3) { s.push('.') }
        s.push_str(*rng.pick(&["\n", " ", "", "\n\n"]));
    }
    s
}
pub fn fuzz_ug(rng: &mut Rng) -> String {
    let mut s = String::new();
    if rng.chance(4) { s.push_str(*rng.pick(&["\u{feff}", "% ug \u{e9}\n", "\x0c"])) }
    let n = g::count(rng, 4);
    for _ in 0..n {
        match rng.weighted(&[4, 3, 4, 3]) {
            0 | 1 => {
                s.push_str(*rng.pick(&["input", "output", "input", "output", "inputs", "Output"]));
                if rng.chance(15) { s.push(' ') }
                s.push(':');
                if rng.chance(85) { s.push(' ') }
                s.push_str(*rng.pick(&["p", "q", "input", "_p", "forall", "P", "p$i"]));
                if rng.chance(15) { s.push(' ') }
                s.push('/');
                if rng.chance(15) { s.push(' ') }
                s.push_str(*rng.pick(&["0", "1", "2", "10", "01", "-1", "65536", "18446744073709551616", "x", "1x"]));
            }
            2 => {
                s.push_str(*rng.pick(&["input", "input", "output"]));
                s.push(':');
                if rng.chance(85) { s.push(' ') }
                s.push_str(*rng.pick(&["n", "m", "_c", "input", "N", "c$i"]));
                if rng.chance(70) {
                    if rng.chance(85) { s.push(' ') }
                    s.push_str(*rng.pick(&["->", "->", "- >", "<-"]));
                    if rng.chance(85) { s.push(' ') }
                    s.push_str(*rng.pick(&["g", "i", "s", "general", "integer", "symbol", "int", "gen", "symbols", "x", "I"]));
                }
            }
            _ => f_annotated(rng, &mut s),
        }
        if rng.chance(10) { s.push(' ') }
        if !rng.chance(3) { s.push('.') }
        s.push_str(*rng.pick(&["\n", " ", "", "\n\n", " % c\n"]));
    }
    s
}

// ------------------------------------------------------------------ mutation

const ALPHABET: &[char] = &[
    ' ', '(', ')', '.', ',', ':', '-', '<', '>', '=', '!', '#', '$', '%', '_', 'a', 'X', 'n', '0', '1', '[', ']', '/', '+', '*', 'p', '\n', '\t', 'q',
    ' ', '(', ')', '.', ',', ':', '-', '<', '>', '=', '!', '#', '$', '%', '_', 'a', 'X', 'n', '0', '1', '[', ']', '/', '+', '*', 'p', '\n', '\t', 'q',
    '\'', '\x0c', '\x0b', '\u{a0}', '\u{feff}', '\u{e9}', '\u{3bb}', '\r',
];

/// 1-3 random edits (delete, insert, replace, swap, duplicate) of a text, character-wise; one edit in
/// eight inserts a character outside the grammar's alphabet (`'`, FF, VT, NBSP, BOM, non-ASCII)
pub fn mutate(rng: &mut Rng, text: &str) -> String {
    let mut b: Vec<char> = text.chars().collect();
    let edits = 1 + rng.below(3);
    for _ in 0..edits {
        let n = b.len();
        match rng.below(5) {
            0 if n > 0 => {
                b.remove(rng.below(n));
            }
            1 => {
                let c = *rng.pick(ALPHABET);
                b.insert(rng.below(n + 1), c);
            }
            2 if n > 0 => {
                let c = *rng.pick(ALPHABET);
                b[rng.below(n)] = c;
            }
            3 if n > 1 => {
                let i = rng.below(n - 1);
                b.swap(i, i + 1);
            }
            _ if n > 0 => {
                let i = rng.below(n);
                let c = b[i];
                b.insert(i, c);
            }
            _ => {}
        }
    }
    b.into_iter().collect()
}
