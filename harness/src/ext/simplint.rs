//! Support for the intuitionistic/ht simplification cluster (C07 intuitionistic half, C18):
//! the rewrite table, the portfolio x strategy runner (built the way
//! `command_line/procedures.rs` builds it) and generators biased to the rules' redexes.
use crate::{generate as g, rng::Rng};
use anthem::convenience::{apply::Apply as _, compose::Compose as _};
use anthem::syntax_tree::fol::sigma_0 as fol;
use anthem::verif::simplifying_fol::sigma_0::{ht::HT, intuitionistic as si, intuitionistic::INTUITIONISTIC};

pub type Rewrite = fn(fol::Formula) -> fol::Formula;

/// every rewrite of intuitionistic.rs by name (10 of the portfolio + the 4 unused inverses)
pub const RULES: &[(&str, Rewrite)] = &[
    ("evaluate_comparisons", si::evaluate_comparisons),
    ("apply_negation_definition", si::apply_negation_definition),
    ("apply_negation_definition_inverse", si::apply_negation_definition_inverse),
    ("apply_reverse_implication_definition", si::apply_reverse_implication_definition),
    ("apply_reverse_implication_definition_inverse", si::apply_reverse_implication_definition_inverse),
    ("apply_equivalence_definition", si::apply_equivalence_definition),
    ("apply_equivalence_definition_inverse", si::apply_equivalence_definition_inverse),
    ("remove_identities", si::remove_identities),
    ("remove_annihilations", si::remove_annihilations),
    ("remove_idempotences", si::remove_idempotences),
    ("remove_orphaned_variables", si::remove_orphaned_variables),
    ("remove_empty_quantifications", si::remove_empty_quantifications),
    ("join_nested_quantifiers", si::join_nested_quantifiers),
];

#[derive(Clone, Copy, PartialEq, Eq, Debug)]
pub enum Strategy {
    Shallow,
    Recursive,
    Fixpoint,
}
pub const STRATEGIES: &[(&str, Strategy)] =
    &[("shallow", Strategy::Shallow), ("recursive", Strategy::Recursive), ("fixpoint", Strategy::Fixpoint)];

pub fn parse_strategy(s: &str) -> Result<Strategy, String> {
    STRATEGIES.iter().find(|(n, _)| *n == s).map(|(_, x)| *x).ok_or_else(|| format!("strategy: {s}"))
}

/// the portfolios exactly as concatenated in procedures.rs (Command::Simplify)
pub fn portfolio_intuitionistic() -> Vec<Rewrite> {
    [INTUITIONISTIC].concat()
}
pub fn portfolio_ht() -> Vec<Rewrite> {
    [INTUITIONISTIC, HT].concat()
}

/// upper bound on the passes the guard loop will try before declaring non-termination
pub const MAX_PASSES: usize = 3000;

/// Number of `apply` passes (real `Apply::apply`, real composed portfolio) the fixpoint loop needs,
/// or None when it has not converged after MAX_PASSES.  The real `apply_fixpoint` is an
/// unbounded `while previous != current` loop; it is only called after this guard has shown
/// that it returns.
pub fn fixpoint_passes(portfolio: &[Rewrite], formula: &fol::Formula) -> Option<usize> {
    let mut simplification = portfolio.to_vec().into_iter().compose();
    let mut previous = formula.clone();
    let mut current = previous.clone().apply(&mut simplification);
    let mut passes = 1;
    while previous != current {
        if passes >= MAX_PASSES {
            return None;
        }
        previous = current;
        current = previous.clone().apply(&mut simplification);
        passes += 1;
    }
    Some(passes)
}

/// `anthem simplify --portfolio P --strategy S` on one formula, as in procedures.rs:
/// Err(passes tried) when the fixpoint loop does not terminate.
pub fn simplify(portfolio: &[Rewrite], strategy: Strategy, formula: fol::Formula) -> Result<fol::Formula, usize> {
    let mut simplification = portfolio.to_vec().into_iter().compose();
    Ok(match strategy {
        Strategy::Shallow => simplification(formula),
        Strategy::Recursive => formula.apply(&mut simplification),
        Strategy::Fixpoint => {
            if fixpoint_passes(portfolio, &formula).is_none() {
                return Err(MAX_PASSES);
            }
            formula.apply_fixpoint(&mut simplification)
        }
    })
}

// ------------------------------------------------------------------ generators

fn truth() -> fol::Formula {
    fol::Formula::AtomicFormula(fol::AtomicFormula::Truth)
}
fn falsity() -> fol::Formula {
    fol::Formula::AtomicFormula(fol::AtomicFormula::Falsity)
}
fn bin(c: fol::BinaryConnective, l: fol::Formula, r: fol::Formula) -> fol::Formula {
    fol::Formula::BinaryFormula { connective: c, lhs: l.into(), rhs: r.into() }
}
fn not(f: fol::Formula) -> fol::Formula {
    fol::Formula::UnaryFormula { connective: fol::UnaryConnective::Negation, formula: f.into() }
}
fn quant(q: fol::Quantifier, vs: Vec<fol::Variable>, f: fol::Formula) -> fol::Formula {
    fol::Formula::QuantifiedFormula {
        quantification: fol::Quantification { quantifier: q, variables: vs },
        formula: f.into(),
    }
}
fn quantifier(rng: &mut Rng) -> fol::Quantifier {
    if rng.chance(50) { fol::Quantifier::Forall } else { fol::Quantifier::Exists }
}

use fol::BinaryConnective as B;

/// name pools: small, so that structurally equal subterms / subformulas and shadowing binders
/// are frequent; the variable names are chosen so that sorting a block actually reorders it
pub fn cfg(rng: &mut Rng) -> g::Cfg {
    if rng.chance(70) {
        g::Cfg {
            var_names: vec!["X", "Y", "Z", "I", "X1", "Ab", "a"],
            symbols: vec!["a", "b"],
            preds: vec!["p", "q", "r"],
            fconsts: vec!["n"],
            max_arity: 2,
            num_lo: -1,
            num_hi: 2,
            use_fconsts: rng.chance(40),
            ..g::Cfg::default()
        }
    } else {
        g::Cfg::default()
    }
}

/// a term that is *almost* `t`: the same variable name at another sort, a commuted operation, a
/// neighbouring numeral (structurally different, so `t = near_miss(t)` must not be evaluated)
fn near_miss(rng: &mut Rng, cfg: &g::Cfg, t: &fol::GeneralTerm) -> fol::GeneralTerm {
    use fol::{GeneralTerm as G, IntegerTerm as I, SymbolicTerm as S};
    match t {
        G::Variable(x) => {
            if rng.chance(50) { G::IntegerTerm(I::Variable(x.clone())) } else { G::SymbolicTerm(S::Variable(x.clone())) }
        }
        G::IntegerTerm(I::Variable(x)) => {
            if rng.chance(70) { G::Variable(x.clone()) } else { G::SymbolicTerm(S::Variable(x.clone())) }
        }
        G::SymbolicTerm(S::Variable(x)) => {
            if rng.chance(70) { G::Variable(x.clone()) } else { G::IntegerTerm(I::Variable(x.clone())) }
        }
        G::IntegerTerm(I::Numeral(n)) => G::IntegerTerm(I::Numeral(n.wrapping_add(1))),
        G::IntegerTerm(I::BinaryOperation { op, lhs, rhs }) => {
            G::IntegerTerm(I::BinaryOperation { op: op.clone(), lhs: rhs.clone(), rhs: lhs.clone() })
        }
        G::IntegerTerm(I::UnaryOperation { arg, .. }) => G::IntegerTerm((**arg).clone()),
        G::Infimum => G::Supremum,
        G::Supremum => G::Infimum,
        _ => g::gterm(rng, cfg, 2),
    }
}

/// comparison chain (0-4 guards) in which adjacent terms are structurally equal with probability
/// `p_eq`; otherwise a term may repeat an *earlier*, non-adjacent term of the chain (`X = Y = X`:
/// only adjacent terms are compared by evaluate_comparisons) or be a near miss of its neighbour
/// (`X$i = X`, `X+1 = 1+X`); 30% of the chains use one relation throughout (`X = X = Y`, `X < Y < X`)
pub fn comparison(rng: &mut Rng, cfg: &g::Cfg, p_eq: usize) -> fol::Formula {
    let n = rng.weighted(&[1, 12, 5, 3, 1]);
    let term = g::gterm(rng, cfg, 2);
    let mut seen = vec![term.clone()];
    let mut guards = vec![];
    let uniform = if rng.chance(30) { Some(g::relation(rng)) } else { None };
    for _ in 0..n {
        let last = seen.last().unwrap().clone();
        let t = if rng.chance(p_eq) {
            last
        } else {
            match rng.weighted(&[if seen.len() > 1 { 3 } else { 0 }, 2, 15]) {
                0 => seen[rng.below(seen.len() - 1)].clone(),
                1 => near_miss(rng, cfg, &last),
                _ => g::gterm(rng, cfg, 2),
            }
        };
        seen.push(t.clone());
        guards.push(fol::Guard { relation: uniform.unwrap_or_else(|| g::relation(rng)), term: t });
    }
    fol::Formula::AtomicFormula(fol::AtomicFormula::Comparison(fol::Comparison { term, guards }))
}

fn leaf(rng: &mut Rng, cfg: &g::Cfg) -> fol::Formula {
    match rng.weighted(&[2, 2, 8, 3, 3]) {
        0 => truth(),
        1 => falsity(),
        2 => fol::Formula::AtomicFormula(fol::AtomicFormula::Atom(g::atom(rng, cfg))),
        3 => comparison(rng, cfg, 45),
        _ => fol::Formula::AtomicFormula(g::atomic(rng, cfg)),
    }
}

/// binders for `body`: a mix of its free variables, fresh (orphaned) ones, the same name at
/// another sort, repetitions; possibly empty
fn binders_for(rng: &mut Rng, cfg: &g::Cfg, body: &fol::Formula) -> Vec<fol::Variable> {
    let free: Vec<fol::Variable> = body.free_variables().into_iter().collect();
    let n = rng.weighted(&[1, 5, 5, 3, 1]);
    let mut vs: Vec<fol::Variable> = vec![];
    for _ in 0..n {
        let v = match rng.weighted(&[if free.is_empty() { 0 } else { 6 }, 3, if free.is_empty() { 0 } else { 2 }, if vs.is_empty() { 0 } else { 1 }]) {
            0 => rng.pick(&free).clone(),
            1 => g::variable(rng, cfg),
            2 => fol::Variable { name: rng.pick(&free).name.clone(), sort: g::sort(rng, cfg) },
            _ => rng.pick(&vs).clone(),
        };
        vs.push(v);
    }
    vs
}

/// an operand of a binary redex: a comparison chain (15%; the rules that compare operands
/// structurally -- idempotences, `F -> F`, `F <-> F` -- must treat a chain as one atom) or any formula
fn operand(rng: &mut Rng, cfg: &g::Cfg, depth: usize) -> fol::Formula {
    if rng.chance(15) { comparison(rng, cfg, 35) } else { formula(rng, cfg, depth) }
}

pub const N_KINDS: usize = 13;

/// a formula whose ROOT is (mostly) a redex of rule number `kind` (index into RULES), or a near
/// miss of it; subformulas are redex-rich themselves
pub fn redex_of(kind: usize, rng: &mut Rng, cfg: &g::Cfg, depth: usize) -> fol::Formula {
    let d = depth.saturating_sub(1);
    match kind {
        // evaluate_comparisons
        0 => comparison(rng, cfg, 50),
        // apply_negation_definition
        1 => {
            let f = formula(rng, cfg, d);
            if rng.chance(30) { not(not(f)) } else { not(f) }
        }
        // apply_negation_definition_inverse
        2 => {
            let f = formula(rng, cfg, d);
            match rng.weighted(&[8, 1, 1]) {
                0 => bin(B::Implication, f, falsity()),
                1 => bin(B::ReverseImplication, falsity(), f),
                _ => bin(B::Implication, falsity(), f),
            }
        }
        // apply_reverse_implication_definition
        3 => {
            let f = operand(rng, cfg, d);
            let h = if rng.chance(25) { f.clone() } else { formula(rng, cfg, d) };
            bin(B::ReverseImplication, f, h)
        }
        // apply_reverse_implication_definition_inverse
        4 => {
            let f = formula(rng, cfg, d);
            let h = formula(rng, cfg, d);
            bin(B::Implication, f, h)
        }
        // apply_equivalence_definition
        5 => {
            let f = operand(rng, cfg, d);
            let h = if rng.chance(25) { f.clone() } else { formula(rng, cfg, d) };
            bin(B::Equivalence, f, h)
        }
        // apply_equivalence_definition_inverse
        6 => {
            let d2 = d.saturating_sub(1);
            let f = formula(rng, cfg, d2);
            let h = if rng.chance(15) { f.clone() } else { formula(rng, cfg, d2) };
            match rng.weighted(&[8, 2, 2, 1, 2]) {
                0 => bin(B::Conjunction, bin(B::Implication, f.clone(), h.clone()), bin(B::Implication, h, f)),
                1 => bin(B::Conjunction, bin(B::Implication, f.clone(), h.clone()), bin(B::Implication, f, h)),
                2 => {
                    // (F -> H) and (H -> K): only `llhs == rrhs` fails
                    let k = formula(rng, cfg, d2);
                    bin(B::Conjunction, bin(B::Implication, f, h.clone()), bin(B::Implication, h, k))
                }
                4 => {
                    // (F -> H) and (K -> F): only `lrhs == rlhs` fails (intuitionistic.rs:203, second
                    // conjunct of the guard falsified alone; audit 2, B16 / T10)
                    let k = formula(rng, cfg, d2);
                    bin(B::Conjunction, bin(B::Implication, f.clone(), h), bin(B::Implication, k, f))
                }
                _ => bin(B::Conjunction, bin(B::Implication, f.clone(), h.clone()), bin(B::ReverseImplication, f, h)),
            }
        }
        // remove_identities
        7 => {
            let f = formula(rng, cfg, d);
            match rng.below(8) {
                0 => bin(B::Conjunction, f, truth()),
                1 => bin(B::Conjunction, truth(), f),
                2 => bin(B::Disjunction, f, falsity()),
                3 => bin(B::Disjunction, falsity(), f),
                4 => bin(B::Implication, truth(), f),
                5 => bin(B::ReverseImplication, f, truth()),
                6 => bin(B::Equivalence, truth(), f),
                _ => bin(B::Conjunction, truth(), truth()),
            }
        }
        // remove_annihilations
        8 => {
            let f = operand(rng, cfg, d);
            match rng.below(10) {
                0 => bin(B::Disjunction, f, truth()),
                1 => bin(B::Disjunction, truth(), f),
                2 => bin(B::Conjunction, f, falsity()),
                3 => bin(B::Conjunction, falsity(), f),
                4 => bin(B::Implication, f, truth()),
                5 => bin(B::Implication, falsity(), f),
                6 | 7 => bin(B::Implication, f.clone(), f),
                8 => bin(B::ReverseImplication, f.clone(), f),
                _ => bin(B::ReverseImplication, f, falsity()),
            }
        }
        // remove_idempotences
        9 => {
            let f = operand(rng, cfg, d);
            match rng.weighted(&[5, 5, 1, 1]) {
                0 => bin(B::Conjunction, f.clone(), f),
                1 => bin(B::Disjunction, f.clone(), f),
                2 => bin(B::Equivalence, f.clone(), f),
                _ => {
                    let h = formula(rng, cfg, d);
                    bin(B::Conjunction, f, h)
                }
            }
        }
        // remove_orphaned_variables
        10 => {
            let f = formula(rng, cfg, d);
            let vs = binders_for(rng, cfg, &f);
            quant(quantifier(rng), vs, f)
        }
        // remove_empty_quantifications
        11 => {
            let f = formula(rng, cfg, d);
            let vs = if rng.chance(60) { vec![] } else { vec![g::variable(rng, cfg)] };
            quant(quantifier(rng), vs, f)
        }
        // join_nested_quantifiers
        _ => {
            let f = formula(rng, cfg, d.saturating_sub(1));
            let q1 = quantifier(rng);
            let q2 = if rng.chance(65) { q1.clone() } else { quantifier(rng) };
            let inner = binders_for(rng, cfg, &f);
            let body = quant(q2, inner.clone(), f);
            let mut outer = binders_for(rng, cfg, &body);
            if rng.chance(35) && !inner.is_empty() {
                outer.push(rng.pick(&inner).clone());
            }
            quant(q1, outer, body)
        }
    }
}

/// redex-rich random formula: every node is a rule redex (uniformly over the rules) with
/// probability 55%, a plain connective/quantifier otherwise
pub fn formula(rng: &mut Rng, cfg: &g::Cfg, depth: usize) -> fol::Formula {
    if depth == 0 || rng.chance(18) {
        return leaf(rng, cfg);
    }
    if rng.chance(55) {
        let kind = rng.below(N_KINDS);
        return redex_of(kind, rng, cfg, depth);
    }
    match rng.weighted(&[2, 6, 3]) {
        0 => not(formula(rng, cfg, depth - 1)),
        1 => {
            let c = g::connective(rng);
            let l = formula(rng, cfg, depth - 1);
            let r = formula(rng, cfg, depth - 1);
            bin(c, l, r)
        }
        _ => {
            let f = formula(rng, cfg, depth - 1);
            let vs = if rng.chance(50) { binders_for(rng, cfg, &f) } else { g::binders(rng, cfg) };
            quant(quantifier(rng), vs, f)
        }
    }
}

/// formulas that need several fixpoint passes: redexes that only appear after an inner rewrite
/// (e.g. `forall X (p and (X = X))`, `(F and #true) and F`, `#true and (F <- F)`)
pub fn cascade(rng: &mut Rng, cfg: &g::Cfg, depth: usize) -> fol::Formula {
    let mut f = formula(rng, cfg, depth.min(2));
    let layers = 1 + rng.below(4);
    for _ in 0..layers {
        f = match rng.below(9) {
            0 => bin(B::Conjunction, bin(B::Conjunction, f.clone(), truth()), f),
            1 => {
                let vs = binders_for(rng, cfg, &f);
                let q = quantifier(rng);
                quant(q.clone(), g::binders(rng, cfg), quant(q, vs, bin(B::Conjunction, f, comparison(rng, cfg, 100))))
            }
            2 => bin(B::Implication, bin(B::ReverseImplication, f.clone(), f), falsity()),
            3 => bin(B::Disjunction, falsity(), bin(B::Implication, truth(), f)),
            4 => {
                let h = formula(rng, cfg, 1);
                bin(B::Conjunction, bin(B::ReverseImplication, f.clone(), h.clone()), bin(B::ReverseImplication, h, f))
            }
            5 => quant(quantifier(rng), g::binders(rng, cfg), bin(B::Disjunction, f, bin(B::Implication, falsity(), truth()))),
            6 => not(bin(B::Implication, f, falsity())),
            7 => {
                let q = quantifier(rng);
                quant(q.clone(), g::binders(rng, cfg), bin(B::Conjunction, truth(), quant(q, g::binders(rng, cfg), f)))
            }
            _ => bin(B::Conjunction, f.clone(), bin(B::Disjunction, f, falsity())),
        };
    }
    f
}
