//! Support code of the composition cluster `compext` (C04full, C02full): cases for the ops whose
//! model side is computed entirely in the model (no component tables), and the bounded
//! "pre-flight" of the one unbounded loop of the real pipeline (`apply_fixpoint` of the classic
//! portfolio inside `ExternalEquivalenceTask::decompose`).
use crate::{
    conv,
    ext::{completion as xc, tasks as t, taustar as ts},
    rng::Rng,
    sexp::{Sexp, tagged},
};
use anthem::{
    convenience::apply::Apply as _,
    syntax_tree::{asp::mini_gringo as asp, fol::sigma_0 as fol},
    translating::{classical_reduction::completion::Completion as _, formula_representation::tau_star::TauStar as _},
    verif::{
        arguments::{Decomposition, FormulaRepresentation},
        task::external_equivalence::ExternalEquivalenceTask,
    },
};
use either::Either;
use indexmap::{IndexMap, IndexSet};

type R<T> = Result<T, String>;

/// = Model/ExternalFull.full_fuel: number of FURTHER passes of the fixpoint loop after the first
pub const FULL_FUEL: usize = 64;

/// `Apply::apply_fixpoint` of the composed portfolio with the loop bounded exactly as
/// Model/StrategyCls.apply_fixpoint_opt_from bounds it (fuel = further passes)
pub fn fixpoint_terminates(f: fol::Formula, portfolio: &[fn(fol::Formula) -> fol::Formula]) -> bool {
    let mut step = |x: fol::Formula| portfolio.iter().fold(x, |x, r| r(x));
    let mut previous = f;
    let mut current = previous.clone().apply(&mut step);
    let mut fuel = FULL_FUEL;
    while previous != current {
        if fuel == 0 {
            return false;
        }
        fuel -= 1;
        previous = current;
        current = previous.clone().apply(&mut step);
    }
    true
}

#[derive(Debug, PartialEq, Eq, Clone, Copy)]
pub enum Preflight {
    Clean,
    Panic,
    Nonterminating,
}

/// The translations of `decompose` (closure `theory_translate`) in the order the real code runs
/// them - specification program first, then the program; tau*, replace_placeholders, completion,
/// then the formulas left to right - with the fixpoint loop bounded.  Returns the first event.
/// Only meaningful when `decompose` reaches the translations (validation passed).
/// The empty completed definitions appended for missing output predicates (since /repo 70e6ace;
/// since 18b2e85 only for those that occur on some side of the task) are left out: `p(V..) <-> #false` is a fixpoint of the portfolio (no panic, no further pass),
/// so they never are the first event.
pub fn preflight(task: &ExternalEquivalenceTask) -> Preflight {
    let placeholders: IndexMap<String, fol::FunctionConstant> =
        task.user_guide.placeholders().into_iter().map(|p| (p.name.clone(), p)).collect();
    let inputs = task.user_guide.input_predicates();
    let mut programs: Vec<&asp::Program> = vec![];
    if let Either::Left(p) = &task.specification {
        programs.push(p);
    }
    programs.push(&task.program);
    let portfolio = t::portfolio_classic();
    for p in programs {
        let r = std::panic::catch_unwind(std::panic::AssertUnwindSafe(|| {
            let theory = match p.clone().tau_star().replace_placeholders(&placeholders).completion(inputs.clone()) {
                Some(t) => t,
                None => return Preflight::Panic,
            };
            if task.simplify {
                for f in theory.formulas {
                    if !fixpoint_terminates(f, &portfolio) {
                        return Preflight::Nonterminating;
                    }
                }
            }
            Preflight::Clean
        }));
        match r {
            Ok(Preflight::Clean) => {}
            Ok(x) => return x,
            Err(_) => return Preflight::Panic,
        }
    }
    Preflight::Clean
}

// ------------------------------------------------------------------ wire format of a task
pub fn task_sexp(task: &ExternalEquivalenceTask) -> Sexp {
    tagged(
        "external",
        vec![
            match &task.specification {
                Either::Left(p) => tagged("spec-program", vec![conv::program(p)]),
                Either::Right(sp) => tagged("spec-spec", vec![conv::specification(sp)]),
            },
            conv::program(&task.program),
            conv::user_guide(&task.user_guide),
            conv::specification(&task.proof_outline),
            t::decomposition(&task.decomposition),
            conv::direction(&task.direction),
            t::repr(&task.formula_representation),
            conv::boolean(task.bypass_tightness),
            conv::boolean(task.simplify),
            conv::boolean(task.break_equivalences),
        ],
    )
}
pub fn parse_task(e: &Sexp) -> R<ExternalEquivalenceTask> {
    match e.tag() {
        Some(("external", [sp, p, ug, po, dec, dir, r, bypass, simplify, brk])) => Ok(ExternalEquivalenceTask {
            specification: match sp.tag() {
                Some(("spec-program", [x])) => Either::Left(conv::parse_program(x)?),
                Some(("spec-spec", [x])) => Either::Right(conv::parse_specification(x)?),
                _ => return Err("external: specification".into()),
            },
            program: conv::parse_program(p)?,
            user_guide: conv::parse_user_guide(ug)?,
            proof_outline: conv::parse_specification(po)?,
            decomposition: t::parse_decomposition(dec)?,
            direction: conv::parse_direction(dir)?,
            formula_representation: t::parse_repr(r)?,
            bypass_tightness: conv::parse_bool(bypass)?,
            simplify: conv::parse_bool(simplify)?,
            break_equivalences: conv::parse_bool(brk)?,
        }),
        _ => Err(format!("external task: {}", e.to_text())),
    }
}

// ------------------------------------------------------------------ generators
/// programs for the end-to-end completion path: the tau* cluster's adversarial grammar (all
/// operators, colliding names, names around the usize boundary -> panic) and the completion
/// cluster's planted-cycle programs
pub fn completion_program(rng: &mut Rng) -> asp::Program {
    if rng.chance(60) {
        let mut cfg = ts::TCfg::adversarial(rng);
        cfg.max_rules = 4;
        cfg.depth = 1 + rng.below(2);
        ts::program(rng, &cfg)
    } else {
        xc::planted_program(rng).0
    }
}
pub fn completion_inputs(rng: &mut Rng, program: &asp::Program) -> Vec<fol::Predicate> {
    let heads = program.head_predicates();
    let all: Vec<asp::Predicate> = program.predicates().into_iter().collect();
    let body_only: Vec<fol::Predicate> = all.iter().filter(|p| !heads.contains(*p)).map(xc::fol_pred).collect();
    let mut inputs = xc::random_subset(rng, &body_only, 50);
    if rng.chance(20) {
        let any: Vec<fol::Predicate> = all.iter().map(xc::fol_pred).collect();
        inputs.extend(xc::random_subset(rng, &any, 30));
        if rng.chance(50) {
            inputs.push(fol::Predicate { symbol: "zz".into(), arity: 1 });
        }
    }
    inputs.into_iter().collect::<IndexSet<_>>().into_iter().collect()
}

/// small arithmetic-free programs: p, q, r can be defined, s only occurs in bodies (an input)
pub fn small_program(rng: &mut Rng) -> asp::Program {
    let (preds, head_preds): (&[(&str, usize)], &[(&str, usize)]) = if rng.chance(50) {
        (&[("p", 1), ("q", 1), ("r", 0), ("s", 1)], &[("p", 1), ("q", 1), ("r", 0)])
    } else {
        // p/1 and r/1 are body-only and share their symbol with a defined predicate
        (&[("p", 0), ("q", 1), ("r", 0), ("s", 0), ("s", 1), ("p", 1), ("r", 1)], &[("p", 0), ("q", 1), ("r", 0)])
    };
    let c = t::PCfg { preds, head_preds, vars: &["X", "Y"], syms: &["a", "b"], arith: false, max_rules: 4, max_body: 2, choice: true, constraints: true };
    t::p_program(rng, &c)
}
pub fn small_inputs(rng: &mut Rng, program: &asp::Program) -> Vec<fol::Predicate> {
    let heads = program.head_predicates();
    let body_only: Vec<fol::Predicate> =
        program.predicates().iter().filter(|p| !heads.contains(*p)).map(xc::fol_pred).collect();
    let mut inputs = xc::random_subset(rng, &body_only, 70);
    if rng.chance(10) {
        inputs.push(fol::Predicate { symbol: "s".into(), arity: 1 });
    }
    inputs.into_iter().collect::<IndexSet<_>>().into_iter().collect()
}

/// a stratified arithmetic-free program: rules for the predicates of `order` (privates first,
/// then outputs) whose bodies mention only inputs and predicates earlier in the order (any sign):
/// tight, no private recursion; choice heads only for the last predicate
fn small_stratified(rng: &mut Rng, inputs: &[(&'static str, usize)], order: &[(&'static str, usize)]) -> asp::Program {
    let mut rules = vec![];
    let mut avail: Vec<(&str, usize)> = inputs.to_vec();
    for (i, h) in order.iter().enumerate() {
        let heads = [*h];
        let n = if rng.chance(10) { 0 } else { 1 + rng.below(2) };
        for _ in 0..n {
            let c = t::PCfg {
                preds: &avail,
                head_preds: &heads,
                vars: &["X", "Y"],
                syms: &["a", "b"],
                arith: false,
                max_rules: 1,
                max_body: 2,
                choice: i + 1 == order.len(),
                constraints: false,
            };
            rules.push(t::p_rule(rng, &c));
        }
        avail.push(*h);
    }
    // 0-3 constraints (`constraint_0`, `constraint_1`, .. in control_translate)
    let n_constraints = rng.weighted(&[70, 18, 8, 4]);
    for _ in 0..n_constraints {
        let c = t::PCfg { preds: &avail, head_preds: &avail, vars: &["X", "Y"], syms: &["a", "b"], arith: false, max_rules: 1, max_body: 2, choice: false, constraints: true };
        rules.push(asp::Rule { head: asp::Head::Falsity, body: t::p_body(rng, &c) });
    }
    asp::Program { rules }
}

/// small accepted program-vs-program tasks (no placeholders, no outline, arithmetic-free, tight,
/// shared private predicate q/1 that gets renamed): the fragment on which `sem_c02_behaviour`
/// evaluates the statement of C02 exhaustively over a finite window
pub fn small_task(rng: &mut Rng) -> ExternalEquivalenceTask {
    let inputs: &[(&'static str, usize)] = if rng.chance(70) { &[("in", 1)] } else { &[("in", 1), ("in2", 0)] };
    let outputs: &[(&'static str, usize)] = if rng.chance(60) { &[("out", 1)] } else { &[("out2", 0), ("out", 1)] };
    let priv_l: &[(&'static str, usize)] = *rng.pick(&[&[][..], &[("q", 1)][..], &[("q", 1)][..], &[("r", 0), ("q", 1)][..]]);
    let priv_r: &[(&'static str, usize)] = *rng.pick(&[&[][..], &[("q", 1)][..], &[("q", 1)][..], &[("q", 1), ("s", 1)][..]]);
    let side = |rng: &mut Rng, privs: &[(&'static str, usize)]| {
        let mut order: Vec<(&'static str, usize)> = privs.to_vec();
        order.extend(outputs.iter().cloned());
        small_stratified(rng, inputs, &order)
    };
    let left = side(rng, priv_l);
    let right = match rng.below(4) {
        0 => left.clone(),
        1 => {
            // a variant of the specification program: one rule replaced or dropped
            let mut r = left.clone();
            if r.rules.len() > 1 {
                let k = rng.below(r.rules.len());
                r.rules.remove(k);
            }
            r
        }
        _ => side(rng, priv_r),
    };
    let mut entries = vec![];
    for (p, n) in inputs {
        entries.push(fol::UserGuideEntry::InputPredicate(fol::Predicate { symbol: p.to_string(), arity: *n }));
    }
    for (p, n) in outputs {
        entries.push(fol::UserGuideEntry::OutputPredicate(fol::Predicate { symbol: p.to_string(), arity: *n }));
    }
    if rng.chance(25) {
        // assumption: not in(a)
        let atom = fol::Formula::AtomicFormula(fol::AtomicFormula::Atom(fol::Atom {
            predicate_symbol: "in".into(),
            terms: vec![fol::GeneralTerm::SymbolicTerm(fol::SymbolicTerm::Symbol("a".into()))],
        }));
        entries.push(fol::UserGuideEntry::AnnotatedFormula(fol::AnnotatedFormula {
            role: fol::Role::Assumption,
            direction: fol::Direction::Universal,
            name: "no_a".into(),
            formula: fol::Formula::UnaryFormula { connective: fol::UnaryConnective::Negation, formula: Box::new(atom) },
        }));
    }
    ExternalEquivalenceTask {
        specification: Either::Left(left),
        program: right,
        user_guide: fol::UserGuide { entries },
        proof_outline: fol::Specification { formulas: vec![] },
        decomposition: if rng.chance(50) { Decomposition::Independent } else { Decomposition::Sequential },
        direction: t::direction(rng),
        formula_representation: FormulaRepresentation::TauStar,
        bypass_tightness: false,
        simplify: rng.chance(60),
        break_equivalences: rng.chance(50),
    }
}

/// an external task around programs of the tau* grammar (arbitrary terms, all signs, choice
/// heads, constraints): everything public unless `private_pct` says otherwise
pub fn adversarial_task(rng: &mut Rng) -> ExternalEquivalenceTask {
    let mut cfg = ts::TCfg::adversarial(rng);
    cfg.max_rules = 3;
    cfg.max_body = 2;
    cfg.depth = 1 + rng.below(2);
    cfg.max_arity = 2;
    cfg.huge = if rng.chance(12) { 10 } else { 0 };
    let program = ts::program(rng, &cfg);
    let spec_program = if rng.chance(40) {
        program.clone()
    } else if rng.chance(60) {
        // a variant: drop or add one rule
        let mut p = program.clone();
        if p.rules.len() > 1 && rng.chance(50) {
            let k = rng.below(p.rules.len());
            p.rules.remove(k);
        } else {
            p.rules.push(ts::rule(rng, &cfg));
        }
        p
    } else {
        ts::program(rng, &cfg)
    };
    let use_spec_program = rng.chance(70);
    let mut heads: IndexSet<asp::Predicate> = program.head_predicates();
    let mut all: IndexSet<asp::Predicate> = program.predicates();
    if use_spec_program {
        heads.extend(spec_program.head_predicates());
        all.extend(spec_program.predicates());
    }
    let private_pct = *rng.pick(&[0, 0, 0, 25, 50]);
    let mut entries = vec![];
    for p in &all {
        if rng.chance(private_pct) {
            continue;
        }
        let q = xc::fol_pred(p);
        // 3%: a head predicate declared input (InputPredicateInRuleHead)
        if !heads.contains(p) || rng.chance(3) {
            entries.push(fol::UserGuideEntry::InputPredicate(q));
        } else {
            entries.push(fol::UserGuideEntry::OutputPredicate(q));
        }
    }
    if rng.chance(25) {
        // the symbol `n` of the grammar becomes a placeholder
        let sort = *rng.pick(&[fol::Sort::Integer, fol::Sort::General, fol::Sort::Symbol]);
        entries.push(fol::UserGuideEntry::PlaceholderDeclaration(fol::PlaceholderDeclaration { name: "n".into(), sort }));
    }
    let specification = if use_spec_program {
        Either::Left(spec_program)
    } else {
        // a specification that is the completion of the program itself would need the code under
        // test; use an empty one (every output definition of the program becomes a conjecture)
        Either::Right(fol::Specification { formulas: vec![] })
    };
    ExternalEquivalenceTask {
        specification,
        program,
        user_guide: fol::UserGuide { entries },
        proof_outline: fol::Specification { formulas: vec![] },
        decomposition: if rng.chance(50) { Decomposition::Independent } else { Decomposition::Sequential },
        direction: t::direction(rng),
        formula_representation: FormulaRepresentation::TauStar,
        bypass_tightness: rng.chance(70),
        simplify: rng.chance(70),
        break_equivalences: rng.chance(50),
    }
}
