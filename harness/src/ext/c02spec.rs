//! Support code of the cluster `c02spec` (C02 for SPECIFICATION-vs-program tasks): the generator of
//! the stream `external_decompose_spec`.  Tasks are assembled as TEXT from templates and parsed
//! with anthem's own parsers (specification, program, user guide), so every generated construct
//! is one a user can write.
//!
//! Aim: small arithmetic-free tasks (few constants, unary / 0-ary predicates) on which the oracle
//! `sem_c02_spec` can enumerate ALL ground atoms of the window, with
//!   * `exists`-prefixed equivalences, equivalences under `forall exists` / `exists forall` mixes,
//!     sorted variables, free variables (read as universally closed);
//!   * spec-private predicates (fresh, or clashing with a private predicate of the program, which
//!     is then renamed `_p` on the program side);
//!   * placeholders of every sort, used on both sides;
//!   * roles spec / assumption x directions universal / forward / backward (a backward assumption
//!     is ignored with a warning);
//!   * unsafe rules with negation (`q(X) :- not p(X).`), choice heads, constraints, private
//!     auxiliaries;
//!   * every direction, decomposition, eq-break and simplify setting.
//! Every declared output predicate occurs in the program or in the specification (an output
//! predicate that occurs on neither side is the subject of /repo 18b2e85 and of the F17 part).
use crate::{ext::compext as x, rng::Rng, sexp::Sexp};
use anthem::{
    syntax_tree::{asp::mini_gringo as asp, fol::sigma_0 as fol},
    verif::{
        arguments::{Decomposition, FormulaRepresentation},
        task::external_equivalence::ExternalEquivalenceTask,
    },
};
use either::Either;
use indexmap::IndexSet;

struct Voc {
    /// (name, arity)
    inputs: Vec<(&'static str, usize)>,
    outputs: Vec<(&'static str, usize)>,
    prog_private: Vec<(&'static str, usize)>,
    spec_private: Vec<(&'static str, usize)>,
    consts: Vec<&'static str>,
    placeholder: Option<(&'static str, &'static str)>,
}

fn pick_s(rng: &mut Rng, xs: &[&'static str]) -> &'static str {
    *rng.pick(xs)
}

fn term(rng: &mut Rng, v: &Voc, var: &str) -> String {
    let mut pool: Vec<String> = v.consts.iter().map(|c| c.to_string()).collect();
    if let Some((n, _)) = v.placeholder {
        pool.push(n.to_string());
        pool.push(n.to_string());
    }
    if pool.is_empty() || rng.chance(72) {
        var.to_string()
    } else if rng.chance(4) {
        (*rng.pick(&["#inf", "#sup"])).to_string()
    } else {
        rng.pick(&pool).clone()
    }
}

fn atom(rng: &mut Rng, v: &Voc, p: (&str, usize), var: &str) -> String {
    if p.1 == 0 {
        p.0.to_string()
    } else {
        let args: Vec<String> = (0..p.1).map(|_| term(rng, v, var)).collect();
        format!("{}({})", p.0, args.join(", "))
    }
}

// ------------------------------------------------------------------ programs
fn body(rng: &mut Rng, v: &Voc, avail: &[(&'static str, usize)]) -> Vec<String> {
    let n = rng.weighted(&[2, 6, 3]);
    let mut items = vec![];
    for _ in 0..n {
        if rng.chance(88) || v.consts.is_empty() {
            let p = *rng.pick(avail);
            let var = if rng.chance(90) { "X" } else { "Y" };
            let a = atom(rng, v, p, var);
            items.push(match rng.weighted(&[5, 4, 1]) {
                0 => a,
                1 => format!("not {a}"),
                _ => format!("not not {a}"),
            });
        } else {
            let c = pick_s(rng, &v.consts);
            let op = if rng.chance(90) { *rng.pick(&["=", "!="]) } else { *rng.pick(&["<", ">=", ">", "<="]) };
            items.push(format!("X {op} {c}"));
        }
    }
    items
}

fn rule_text(head: &str, items: &[String]) -> String {
    if items.is_empty() {
        format!("{head}.")
    } else {
        format!("{head} :- {}.", items.join(", "))
    }
}

/// rules for the program's private predicates first, then for the outputs; bodies over the inputs
/// and the predicates earlier in that order (stratified: tight, no private recursion), with a
/// small chance of a body atom from anywhere (then the task may be refused)
fn program_text(rng: &mut Rng, v: &Voc) -> String {
    let mut order: Vec<(&'static str, usize)> = v.prog_private.clone();
    order.extend(v.outputs.iter().cloned());
    let mut avail: Vec<(&'static str, usize)> = v.inputs.clone();
    let mut rules = vec![];
    for (i, h) in order.iter().enumerate() {
        let n = if rng.chance(8) { 0 } else { 1 + rng.weighted(&[7, 3]) };
        for _ in 0..n {
            let pool: Vec<(&'static str, usize)> = if rng.chance(4) { order.clone() } else { avail.clone() };
            let items = body(rng, v, &pool);
            let is_output = i >= v.prog_private.len();
            let a = atom(rng, v, *h, "X");
            let head = if is_output && rng.chance(15) { format!("{{{a}}}") } else { a };
            rules.push(rule_text(&head, &items));
        }
        avail.push(*h);
    }
    if rng.chance(18) {
        let mut items = body(rng, v, &avail);
        if items.is_empty() {
            let p = *rng.pick(&avail);
            items.push(atom(rng, v, p, "X"));
        }
        rules.push(format!(":- {}.", items.join(", ")));
    }
    rules.join(" ")
}

// ------------------------------------------------------------------ specification formulas
fn var_name(rng: &mut Rng, base: &str) -> String {
    match rng.weighted(&[17, 2, 1]) {
        0 => base.to_string(),
        1 => format!("{base}$i"),
        _ => format!("{base}$s"),
    }
}

/// an atom-like formula over the variable `var`: an atom, a negated atom, or an atom with a guard
fn lit(rng: &mut Rng, v: &Voc, preds: &[(&'static str, usize)], var: &str) -> String {
    let p = *rng.pick(preds);
    // arity-1 atoms of a quantified formula mention the variable far more often than a constant
    let a = if p.1 == 1 && rng.chance(80) { format!("{}({var})", p.0) } else { atom(rng, v, p, var) };
    match rng.weighted(&[12, 5, 2]) {
        0 => a,
        1 => format!("not {a}"),
        _ => {
            if v.consts.is_empty() {
                a
            } else {
                let c = pick_s(rng, &v.consts);
                format!("({a} and {var} {} {c})", rng.pick(&["!=", "="]))
            }
        }
    }
}

fn spec_formula(rng: &mut Rng, v: &Voc, preds: &[(&'static str, usize)]) -> String {
    let x = var_name(rng, "X");
    let y = var_name(rng, "Y");
    let f = lit(rng, v, preds, &x);
    let g = lit(rng, v, preds, &x);
    let gy = lit(rng, v, preds, &y);
    let conn = *rng.pick(&["<->", "<->", "<->", "->", "<-", "and", "or"]);
    match rng.weighted(&[16, 12, 8, 6, 6, 6, 6, 5, 5, 6]) {
        0 => format!("exists {x} ({f} <-> {g})"),
        1 => format!("forall {x} ({f} <-> {g})"),
        2 => format!("forall {x} exists {y} ({f} <-> {gy})"),
        3 => format!("exists {x} forall {y} ({f} <-> {gy})"),
        4 => format!("forall {x} ({f} {conn} {g})"),
        5 => format!("exists {x} ({f} {conn} {g})"),
        6 => {
            // a propositional mix: a closed quantified part against a closed literal
            let q = *rng.pick(&["exists", "forall"]);
            let c = if v.consts.is_empty() { "#inf".to_string() } else { pick_s(rng, &v.consts).to_string() };
            let closed = lit(rng, v, preds, &c);
            format!("({q} {x} {f}) {conn} {closed}")
        }
        7 => format!("{f} {conn} {g}"), // free variable: read as universally closed
        8 => {
            let c = if v.consts.is_empty() { "#sup".to_string() } else { pick_s(rng, &v.consts).to_string() };
            lit(rng, v, preds, &c)
        }
        _ => format!("forall {x} exists {y} (({f} <-> {gy}) {conn} {g})"),
    }
}

fn direction_text(rng: &mut Rng) -> &'static str {
    match rng.weighted(&[6, 2, 2]) {
        0 => "",
        1 => "(forward)",
        _ => "(backward)",
    }
}

fn specification_text(rng: &mut Rng, v: &Voc) -> String {
    let mut all: Vec<(&'static str, usize)> = v.inputs.clone();
    all.extend(v.outputs.iter().cloned());
    all.extend(v.outputs.iter().cloned());
    all.extend(v.spec_private.iter().cloned());
    let mut assumption_preds: Vec<(&'static str, usize)> = v.inputs.clone();
    if rng.chance(20) {
        // specification assumptions may mention private predicates of the program
        assumption_preds.extend(v.prog_private.iter().cloned());
    }
    if rng.chance(4) {
        assumption_preds.extend(v.outputs.iter().cloned()); // refused
    }
    let n = 1 + rng.weighted(&[6, 3, 1]);
    let mut out = vec![];
    for _ in 0..n {
        let dir = direction_text(rng);
        if rng.chance(78) {
            out.push(format!("spec{dir}: {}.", spec_formula(rng, v, &all)));
        } else {
            out.push(format!("assumption{dir}: {}.", spec_formula(rng, v, &assumption_preds)));
        }
    }
    out.join(" ")
}

fn user_guide_text(rng: &mut Rng, v: &Voc, outputs: &[(&'static str, usize)]) -> String {
    let mut out = vec![];
    for (p, n) in &v.inputs {
        out.push(format!("input: {p}/{n}."));
    }
    if let Some((n, sort)) = v.placeholder {
        out.push(format!("input: {n} -> {sort}."));
    }
    for (p, n) in outputs {
        out.push(format!("output: {p}/{n}."));
    }
    if rng.chance(25) {
        let f = match rng.below(4) {
            0 => spec_formula(rng, v, &v.inputs),
            1 => format!("exists X {}", lit(rng, v, &v.inputs, "X")),
            2 => {
                let c = if v.consts.is_empty() { "#inf" } else { pick_s(rng, &v.consts) };
                lit(rng, v, &v.inputs, c)
            }
            _ => format!("forall X ({} -> {})", lit(rng, v, &v.inputs, "X"), lit(rng, v, &v.inputs, "X")),
        };
        out.push(format!("assumption: {f}."));
    }
    out.join(" ")
}

fn vocabulary(rng: &mut Rng) -> Voc {
    let style = rng.weighted(&[6, 2, 2]);
    let (inputs, outputs): (Vec<(&'static str, usize)>, Vec<(&'static str, usize)>) = match style {
        0 => (vec![("p", 1)], vec![("q", 1)]),
        1 => (vec![("p", 0)], if rng.chance(50) { vec![("q", 0)] } else { vec![("q", 0), ("r", 0)] }),
        _ => (if rng.chance(50) { vec![("p", 1)] } else { vec![("p", 1), ("c", 0)] }, vec![("q", 1), ("r", 0)]),
    };
    let prog_private: Vec<(&'static str, usize)> = match rng.weighted(&[5, 3, 2]) {
        0 => vec![],
        1 => vec![("aux", if style == 1 { 0 } else { 1 })],
        _ => vec![("aux", 0)],
    };
    let spec_private: Vec<(&'static str, usize)> = match rng.weighted(&[6, 2, 2, 1]) {
        0 => vec![],
        1 => vec![("s", if style == 1 { 0 } else { 1 })],
        2 => vec![("aux", if style == 1 { 0 } else { 1 })], // clashes with the program's private aux when it has one
        _ => vec![("aux_p", 1)],                            // the renamed name itself (class F9 when the program has aux/1)
    };
    let consts: Vec<&'static str> = match rng.weighted(&[3, 3, 3, 2, 1]) {
        0 => vec![],
        1 => vec!["1"],
        2 => vec!["a"],
        3 => vec!["1", "a"],
        _ => vec!["0", "1"],
    };
    let placeholder = if rng.chance(22) {
        Some(("n", *rng.pick(&["integer", "general", "symbol"])))
    } else {
        None
    };
    Voc { inputs, outputs, prog_private, spec_private, consts, placeholder }
}

fn flags(rng: &mut Rng, specification: fol::Specification, program: asp::Program, user_guide: fol::UserGuide) -> ExternalEquivalenceTask {
    ExternalEquivalenceTask {
        specification: Either::Right(specification),
        program,
        user_guide,
        proof_outline: fol::Specification { formulas: vec![] },
        decomposition: if rng.chance(50) { Decomposition::Independent } else { Decomposition::Sequential },
        direction: *rng.pick(&[fol::Direction::Universal, fol::Direction::Universal, fol::Direction::Forward, fol::Direction::Backward, fol::Direction::Backward]),
        formula_representation: FormulaRepresentation::TauStar,
        bypass_tightness: rng.chance(8),
        simplify: rng.chance(50),
        break_equivalences: rng.chance(65),
    }
}

/// a specification-vs-program task from the templates above
pub fn template_task(rng: &mut Rng) -> ExternalEquivalenceTask {
    let v = vocabulary(rng);
    let program: asp::Program = program_text(rng, &v).parse().expect("c02spec generator: program template does not parse");
    let spec_text = specification_text(rng, &v);
    let specification: fol::Specification =
        spec_text.parse().unwrap_or_else(|_| panic!("c02spec generator: specification template does not parse: {spec_text}"));
    // declared outputs: the output candidates that occur on some side
    let mut occurring: IndexSet<fol::Predicate> = specification.predicates();
    occurring.extend(program.predicates().into_iter().map(fol::Predicate::from));
    let outputs: Vec<(&'static str, usize)> = v
        .outputs
        .iter()
        .cloned()
        .filter(|(p, n)| occurring.contains(&fol::Predicate { symbol: p.to_string(), arity: *n }))
        .collect();
    let ug_text = user_guide_text(rng, &v, &outputs);
    let user_guide: fol::UserGuide =
        ug_text.parse().unwrap_or_else(|_| panic!("c02spec generator: user guide template does not parse: {ug_text}"));
    flags(rng, specification, program, user_guide)
}

/// the task of seeded/C02_r4 and close variants (fixed shapes, random flags)
pub fn fixed_task(rng: &mut Rng) -> ExternalEquivalenceTask {
    let (spec, prog, ug): (&str, &str, &str) = *rng.pick(&[
        ("spec: exists X (p(X) <-> q(X)).", "q(X) :- not p(X).", "input: p/1. output: q/1."),
        ("spec: exists X (p(X) <-> q(X)).", "q(X) :- not p(X).", "input: p/1. output: q/1. assumption: p(1) and not p(2)."),
        ("spec: forall X (q(X) <-> not p(X)).", "q(X) :- not p(X).", "input: p/1. output: q/1."),
        ("spec: forall Y exists X (p(X) <-> q(Y)).", "q(X) :- p(X).", "input: p/1. output: q/1."),
        ("spec: exists X (s(X) <-> q(X)).", "q(X) :- p(X), not aux(X). aux(X) :- p(X), X = 1.", "input: p/1. output: q/1."),
        ("assumption: exists X p(X). spec: exists X q(X).", "q(X) :- p(X).", "input: p/1. output: q/1."),
        ("spec(backward): q <-> p. spec(forward): q -> p.", "q :- p.", "input: p/0. output: q/0."),
        ("spec: q(n) <-> p(n).", "q(X) :- p(X), X = n.", "input: p/1. input: n -> integer. output: q/1."),
    ]);
    flags(
        rng,
        spec.parse().expect("c02spec generator: fixed specification"),
        prog.parse().expect("c02spec generator: fixed program"),
        ug.parse().expect("c02spec generator: fixed user guide"),
    )
}

/// a specification-vs-program task of the `tasks` cluster's generator (planted violations of the
/// ensure_* checks, binary predicates, arithmetic, outlines are dropped), if one turns up
pub fn tasks_cluster_task(rng: &mut Rng) -> Option<Sexp> {
    let ops = crate::ops::tasks::ops();
    let op = ops.iter().find(|o| o.name == "external_decompose")?;
    for _ in 0..12 {
        let case = (op.generate)(rng);
        if let Ok([task, _components]) = case.as_list() {
            if let Ok(mut t) = x::parse_task(task) {
                let mut occurring: IndexSet<fol::Predicate> = match &t.specification {
                    Either::Right(s) => s.predicates(),
                    Either::Left(_) => continue,
                };
                occurring.extend(t.program.predicates().into_iter().map(fol::Predicate::from));
                if t.user_guide.output_predicates().iter().all(|p| occurring.contains(p)) {
                    t.proof_outline = fol::Specification { formulas: vec![] };
                    return Some(x::task_sexp(&t));
                }
            }
        }
    }
    None
}

/// the stream `external_decompose_spec`: 80 % templates, 8 % fixed shapes, 12 % the tasks cluster's
/// specification tasks without outline
pub fn spec_case(rng: &mut Rng) -> Sexp {
    match rng.weighted(&[80, 8, 12]) {
        0 => x::task_sexp(&template_task(rng)),
        1 => x::task_sexp(&fixed_task(rng)),
        _ => match tasks_cluster_task(rng) {
            Some(s) => s,
            None => x::task_sexp(&template_task(rng)),
        },
    }
}
