//! Support code of the `tasks` cluster (strong / external equivalence assembly, proof outlines,
//! equivalence breaking, decomposition): generators, converters, and the computation of the
//! COMPONENT OUTPUTS (tau*, mu, completion, fixpoint simplifications, tightness, private recursion)
//! by the real functions in the documented order.  The model assembles problems from these
//! supplied component outputs; `run` executes the real `Task::decompose()` on the inputs only.
use crate::{
    conv, generate as g,
    rng::Rng,
    sexp::{Sexp, a, l, s, tagged},
};
use anthem::{
    analyzing::{private_recursion::PrivateRecursion as _, tightness::Tightness as _},
    convenience::apply::Apply as _,
    syntax_tree::{asp::mini_gringo as asp, fol::sigma_0 as fol},
    translating::{
        classical_reduction::{completion::Completion as _, gamma::Gamma as _},
        formula_representation::{mu::Mu as _, tau_star::TauStar as _},
    },
    verif::{
        arguments::{Decomposition, FormulaRepresentation},
        outline,
        problem as pb,
        simplifying_fol::sigma_0::{classic::CLASSIC, ht::HT, intuitionistic::INTUITIONISTIC},
        task::external_equivalence::{ExternalEquivalenceTaskError, ExternalEquivalenceTaskWarning},
    },
};
use indexmap::{IndexMap, IndexSet};

type R<T> = Result<T, String>;

pub const FIXPOINT_BOUND: usize = 60;

// ------------------------------------------------------------------ converters

pub fn decomposition(d: &Decomposition) -> Sexp {
    a(match d {
        Decomposition::Independent => "independent",
        Decomposition::Sequential => "sequential",
    })
}
pub fn parse_decomposition(e: &Sexp) -> R<Decomposition> {
    match e.as_str()? {
        "independent" => Ok(Decomposition::Independent),
        "sequential" => Ok(Decomposition::Sequential),
        x => Err(format!("decomposition: {x}")),
    }
}
pub fn repr(r: &FormulaRepresentation) -> Sexp {
    a(match r {
        FormulaRepresentation::Mu => "mu",
        FormulaRepresentation::TauStar => "tau-star",
    })
}
pub fn parse_repr(e: &Sexp) -> R<FormulaRepresentation> {
    match e.as_str()? {
        "mu" => Ok(FormulaRepresentation::Mu),
        "tau-star" => Ok(FormulaRepresentation::TauStar),
        x => Err(format!("formula representation: {x}")),
    }
}
pub fn problems(ps: &[pb::Problem]) -> Sexp {
    tagged("problems", ps.iter().map(conv::problem).collect())
}
pub fn pformulas(fs: &[pb::AnnotatedFormula]) -> Sexp {
    l(fs.iter().map(conv::pformula).collect())
}
pub fn general_lemma(x: &outline::GeneralLemma) -> Sexp {
    tagged("lemma", vec![pformulas(&x.conjectures), pformulas(&x.consequences)])
}
pub fn proof_outline(o: &outline::ProofOutline) -> Sexp {
    tagged(
        "outline",
        vec![
            l(o.forward_lemmas.iter().map(general_lemma).collect()),
            l(o.backward_lemmas.iter().map(general_lemma).collect()),
            l(o.forward_definitions.iter().map(conv::annot).collect()),
            l(o.backward_definitions.iter().map(conv::annot).collect()),
        ],
    )
}
// ------------------------------------------------------------------ errors and warnings WITH the
// values they carry (audit B16): variant name, then the payload in the order of the variant's
// fields; the model prints the same (ocaml/driver/ops_tasks.ml).  Every printer first runs the
// real Display impl of the value (a panic inside Display - there is an `unreachable!()` in the one
// of ExternalEquivalenceTaskWarning - surfaces as `(panic)`); the text is not put on the wire.

/// the items of a ProofOutlineError: "Variant" payload..
pub fn po_error_items(e: &outline::ProofOutlineError) -> Vec<Sexp> {
    use outline::ProofOutlineError as E;
    let _ = format!("{e}");
    match e {
        E::AnnotatedFormulaWithInvalidRole(x) => vec![s("AnnotatedFormulaWithInvalidRole"), conv::annot(x)],
        E::DuplicatedVariables(f) => vec![s("DuplicatedVariables"), conv::formula(f)],
        E::TakenPredicate(p) => vec![s("TakenPredicate"), conv::pred(p)],
        E::FreeRhsVariables(f) => vec![s("FreeRhsVariables"), conv::formula(f)],
        E::UndefinedRhsPredicate { definition, predicate } => {
            vec![s("UndefinedRhsPredicate"), conv::formula(definition), conv::pred(predicate)]
        }
        E::DefinedPredicateVariableListMismatch(f) => vec![s("DefinedPredicateVariableListMismatch"), conv::formula(f)],
        E::TermsInDefinition { term, formula } => vec![s("TermsInDefinition"), conv::gterm(term), conv::formula(formula)],
        E::MalformedInductiveLemma(f) => vec![s("MalformedInductiveLemma"), conv::formula(f)],
        E::MalformedInductiveAntecedent(f) => vec![s("MalformedInductiveAntecedent"), conv::formula(f)],
        E::MalformedInductiveVariables(f) => vec![s("MalformedInductiveVariables"), conv::formula(f)],
        E::MalformedInductiveTerm(f) => vec![s("MalformedInductiveTerm"), conv::formula(f)],
        E::MalformedDefinition(f) => vec![s("MalformedDefinition"), conv::formula(f)],
        E::InvalidRoleForGeneralLemma(x) => vec![s("InvalidRoleForGeneralLemma"), conv::annot(x)],
    }
}
/// the items of a ProofOutlineWarning
pub fn po_warning_items(w: &outline::ProofOutlineWarning) -> Vec<Sexp> {
    let _ = format!("{w}");
    match w {
        outline::ProofOutlineWarning::ExcessQuantifiedVariables(f) => vec![s("ExcessQuantifiedVariables"), conv::formula(f)],
    }
}
/// `(err "Variant" payload..)` of the op proof_outline
pub fn po_error(e: &outline::ProofOutlineError) -> Sexp {
    tagged("err", po_error_items(e))
}
/// `(warnings ("ExcessQuantifiedVariables" formula)..)` of the op proof_outline
pub fn po_warnings(ws: &[outline::ProofOutlineWarning]) -> Sexp {
    tagged("warnings", ws.iter().map(|w| l(po_warning_items(w))).collect())
}
/// `(err "Variant" payload..)` of an external-equivalence task
pub fn ext_error(e: &ExternalEquivalenceTaskError) -> Sexp {
    use ExternalEquivalenceTaskError as E;
    let _ = format!("{e}");
    let preds = |ps: &Vec<fol::Predicate>| preds_sexp(ps.iter());
    let items = match e {
        E::UnsupportedFormulaRepresentation => vec![s("UnsupportedFormulaRepresentation")],
        E::NonTightProgram(p) => vec![s("NonTightProgram"), conv::program(p)],
        E::ProgramContainsPrivateRecursion(p) => vec![s("ProgramContainsPrivateRecursion"), conv::program(p)],
        E::InputOutputPredicatesOverlap(ps) => vec![s("InputOutputPredicatesOverlap"), preds(ps)],
        E::InputPredicateInRuleHead(ps) => vec![s("InputPredicateInRuleHead"), preds(ps)],
        E::OutputPredicateInUserGuideAssumption(ps) => vec![s("OutputPredicateInUserGuideAssumption"), preds(ps)],
        E::OutputPredicateInSpecificationAssumption(ps) => vec![s("OutputPredicateInSpecificationAssumption"), preds(ps)],
        E::PlaceholdersWithIdenticalNamesDifferentSorts(n) => vec![s("PlaceholdersWithIdenticalNamesDifferentSorts"), s(n)],
        E::AssumptionContainsNonInputSymbols(x) => vec![s("AssumptionContainsNonInputSymbols"), conv::annot(x)],
        E::SpecificationContainsUnsupportedRoles(x) => vec![s("SpecificationContainsUnsupportedRoles"), conv::annot(x)],
        E::ProofOutlineError(inner) => {
            let mut v = vec![s("ProofOutlineError")];
            v.extend(po_error_items(inner));
            v
        }
    };
    tagged("err", items)
}
/// one element of `(warnings ..)` of an external-equivalence task: `("Variant" payload..)`
pub fn ext_warning(w: &ExternalEquivalenceTaskWarning) -> Sexp {
    use ExternalEquivalenceTaskWarning as W;
    let _ = format!("{w}");
    l(match w {
        W::NonTightProgram(p) => vec![s("NonTightProgram"), conv::program(p)],
        W::InconsistentDirectionAnnotation(x) => vec![s("InconsistentDirectionAnnotation"), conv::annot(x)],
        W::InvalidRoleWithinUserGuide(x) => vec![s("InvalidRoleWithinUserGuide"), conv::annot(x)],
        W::DefinitionWithWarning(inner) => {
            let mut v = vec![s("DefinitionWithWarning")];
            v.extend(po_warning_items(inner));
            v
        }
    })
}
pub fn placeholders_sexp(m: &[(String, fol::Sort)]) -> Sexp {
    l(m.iter().map(|(n, st)| l(vec![s(n), conv::sort(st)])).collect())
}
pub fn parse_placeholders(e: &Sexp) -> R<Vec<(String, fol::Sort)>> {
    e.as_list()?
        .iter()
        .map(|x| match x.as_list()? {
            [n, st] => Ok((conv::string_of(n)?, conv::parse_sort(st)?)),
            _ => Err(format!("placeholder: {}", x.to_text())),
        })
        .collect()
}
pub fn placeholder_map(m: &[(String, fol::Sort)]) -> IndexMap<String, fol::FunctionConstant> {
    m.iter().map(|(n, st)| (n.clone(), fol::FunctionConstant { name: n.clone(), sort: *st })).collect()
}
pub fn preds_sexp<'x>(ps: impl IntoIterator<Item = &'x fol::Predicate>) -> Sexp {
    l(ps.into_iter().map(conv::pred).collect())
}
pub fn parse_preds(e: &Sexp) -> R<IndexSet<fol::Predicate>> {
    e.as_list()?.iter().map(conv::parse_pred).collect()
}

// ------------------------------------------------------------------ component computations

/// `apply_fixpoint` of the composed portfolio, under an iteration bound (the real loop is
/// unbounded and the classic portfolio is not known to terminate).
pub fn fixpoint_bounded(f: fol::Formula, portfolio: &[fn(fol::Formula) -> fol::Formula]) -> Option<fol::Formula> {
    let mut step = |x: fol::Formula| portfolio.iter().fold(x, |x, r| r(x));
    let mut previous = f;
    let mut current = previous.clone().apply(&mut step);
    let mut n = 0;
    while previous != current {
        n += 1;
        if n > FIXPOINT_BOUND {
            return None;
        }
        previous = current;
        current = previous.clone().apply(&mut step);
    }
    Some(current)
}
pub fn portfolio_ht() -> Vec<fn(fol::Formula) -> fol::Formula> {
    [INTUITIONISTIC, HT].concat()
}
pub fn portfolio_classic() -> Vec<fn(fol::Formula) -> fol::Formula> {
    [INTUITIONISTIC, HT, CLASSIC].concat()
}

/// a table `formula -> formula` as `(name (key value)..)`, keys deduplicated
pub struct Table {
    pub name: &'static str,
    pub entries: Vec<(Sexp, Sexp)>,
}
impl Table {
    pub fn new(name: &'static str) -> Self {
        Table { name, entries: vec![] }
    }
    pub fn add(&mut self, k: Sexp, v: Sexp) {
        if !self.entries.iter().any(|(k0, _)| *k0 == k) {
            self.entries.push((k, v));
        }
    }
    pub fn to_sexp(&self) -> Sexp {
        tagged(self.name, self.entries.iter().map(|(k, v)| l(vec![k.clone(), v.clone()])).collect())
    }
}

/// simplify every formula of a theory with the bounded fixpoint, recording the table; None when
/// the bound is exceeded for some formula
pub fn simplify_theory(
    t: &fol::Theory,
    portfolio: &[fn(fol::Formula) -> fol::Formula],
    table: &mut Table,
) -> Option<fol::Theory> {
    let mut out = vec![];
    for f in &t.formulas {
        let g = fixpoint_bounded(f.clone(), portfolio)?;
        table.add(conv::formula(f), conv::formula(&g));
        out.push(g);
    }
    Some(fol::Theory { formulas: out })
}

/// Component outputs of the strong-equivalence pipeline for one pair of programs, for BOTH values
/// of the simplify flag and both representations asked for, in the documented order:
/// repr -> [INTUITIONISTIC++HT fixpoint] -> gamma -> [INTUITIONISTIC++HT++CLASSIC fixpoint].
/// Returns `(components (tau_star (P T)..) (mu (P T)..) (simp_ht (F G)..) (simp_classic (F G)..))`.
pub fn strong_components(programs: &[&asp::Program], reprs: &[FormulaRepresentation], simplify: &[bool]) -> Option<Sexp> {
    let mut ts = Table::new("tau_star");
    let mut mu = Table::new("mu");
    let mut s1 = Table::new("simp_ht");
    let mut s2 = Table::new("simp_classic");
    for p in programs {
        for r in reprs {
            let t0 = match r {
                FormulaRepresentation::Mu => {
                    let t = (*p).clone().mu();
                    mu.add(conv::program(p), conv::theory(&t));
                    t
                }
                FormulaRepresentation::TauStar => {
                    let t = (*p).clone().tau_star();
                    ts.add(conv::program(p), conv::theory(&t));
                    t
                }
            };
            for simp in simplify {
                if *simp {
                    let t1 = simplify_theory(&t0, &portfolio_ht(), &mut s1)?;
                    let t2 = t1.gamma();
                    simplify_theory(&t2, &portfolio_classic(), &mut s2)?;
                }
            }
        }
    }
    Some(tagged("components", vec![ts.to_sexp(), mu.to_sexp(), s1.to_sexp(), s2.to_sexp()]))
}

/// Component outputs for an external-equivalence task: for each program (the program and, when
/// the specification is a program, that one too): is_tight, has_private_recursion w.r.t. the
/// private predicates, tau_star, completion of the placeholder-replaced theory w.r.t. the input
/// predicates, and the classic fixpoint of every completed formula.
pub fn external_components(
    programs: &[&asp::Program],
    spec_preds: Option<IndexSet<fol::Predicate>>,
    ug: &fol::UserGuide,
) -> Option<Sexp> {
    let public = ug.public_predicates();
    let inputs = ug.input_predicates();
    let placeholders: IndexMap<String, fol::FunctionConstant> =
        ug.placeholders().into_iter().map(|p| (p.name.clone(), p)).collect();
    let mut tight = vec![];
    let mut privrec = vec![];
    let mut ts = Table::new("tau_star");
    let mut comp = Table::new("completion");
    let mut s2 = Table::new("simp_classic");
    // private sets the code may ask about: each program's own private predicates
    for p in programs {
        tight.push(l(vec![conv::program(p), conv::boolean(p.is_tight())]));
        let private: IndexSet<asp::Predicate> = p
            .predicates()
            .into_iter()
            .filter(|q| !public.contains(&fol::Predicate::from(q.clone())))
            .collect();
        let private_fol: Vec<fol::Predicate> = private.iter().cloned().map(fol::Predicate::from).collect();
        privrec.push(l(vec![
            conv::program(p),
            preds_sexp(private_fol.iter()),
            conv::boolean(p.has_private_recursion(&private)),
        ]));
        let t = (*p).clone().tau_star();
        ts.add(conv::program(p), conv::theory(&t));
        let rt = t.replace_placeholders(&placeholders);
        let c = rt.clone().completion(inputs.clone());
        match c {
            None => comp.add(l(vec![conv::theory(&rt), preds_sexp(inputs.iter())]), tagged("none", vec![])),
            Some(c) => {
                comp.add(l(vec![conv::theory(&rt), preds_sexp(inputs.iter())]), tagged("some", vec![conv::theory(&c)]));
                simplify_theory(&c, &portfolio_classic(), &mut s2)?;
            }
        }
    }
    // since /repo 70e6ace (finding F17) theory_translate appends the empty completed definition of every
    // output predicate that does not occur in the completed theory, before the simplification; since
    // /repo 18b2e85 only for those that occur on some side of the task (`occurring_predicates`: the
    // predicates of the programs and of the specification) - the formula's size is proportional to
    // the declared arity, so a declaration like `output: q/9223372036854775806.` must not get one.
    // The simplification table covers them (for every declared output predicate that occurs in the
    // task; built here, not taken from the code, so that the harness compiles against trees without
    // the repair - the comparison of decompose() with the model is what ties the formula to the code)
    let mut occurring: IndexSet<fol::Predicate> = spec_preds.unwrap_or_default();
    for p in programs {
        occurring.extend(p.predicates().into_iter().map(fol::Predicate::from));
    }
    let empty: Vec<fol::Formula> =
        ug.output_predicates().iter().filter(|p| occurring.contains(*p)).map(empty_definition).collect();
    simplify_theory(&fol::Theory { formulas: empty }, &portfolio_classic(), &mut s2)?;
    Some(tagged(
        "components",
        vec![tagged("is_tight", tight), tagged("has_private_recursion", privrec), ts.to_sexp(), comp.to_sexp(), s2.to_sexp()],
    ))
}

/// `forall V1..Vn (p(V1,..,Vn) <-> #false)` (propositional: `p <-> #false`): the completed
/// definition of a predicate without rules, with the head variables completion.rs chooses
pub fn empty_definition(p: &fol::Predicate) -> fol::Formula {
    let names: Vec<String> = (1..=p.arity).map(|i| format!("V{i}")).collect();
    fol::Formula::BinaryFormula {
        connective: fol::BinaryConnective::Equivalence,
        lhs: fol::Formula::AtomicFormula(fol::AtomicFormula::Atom(fol::Atom {
            predicate_symbol: p.symbol.clone(),
            terms: names.iter().cloned().map(fol::GeneralTerm::Variable).collect(),
        }))
        .into(),
        rhs: fol::Formula::AtomicFormula(fol::AtomicFormula::Falsity).into(),
    }
    .quantify(
        fol::Quantifier::Forall,
        names.into_iter().map(|name| fol::Variable { name, sort: fol::Sort::General }).collect(),
    )
}

// ------------------------------------------------------------------ generators

fn pick_s(rng: &mut Rng, xs: &[&str]) -> String {
    rng.pick(xs).to_string()
}

/// arithmetic-free leaf term
pub fn simple_term(rng: &mut Rng, vars: &[&str], syms: &[&str]) -> asp::Term {
    use asp::{PrecomputedTerm as P, Term as T};
    match rng.weighted(&[6, 3, 3, 1]) {
        0 => T::Variable(asp::Variable(pick_s(rng, vars))),
        1 => T::PrecomputedTerm(P::Numeral(rng.range(0, 2) as isize)),
        2 => T::PrecomputedTerm(P::Symbol(pick_s(rng, syms))),
        _ => {
            if rng.chance(50) {
                T::PrecomputedTerm(P::Infimum)
            } else {
                T::PrecomputedTerm(P::Supremum)
            }
        }
    }
}
pub struct PCfg<'x> {
    pub preds: &'x [(&'x str, usize)],
    pub head_preds: &'x [(&'x str, usize)],
    pub vars: &'x [&'static str],
    pub syms: &'x [&'static str],
    pub arith: bool,
    pub max_rules: usize,
    pub max_body: usize,
    pub choice: bool,
    pub constraints: bool,
}
pub fn p_term(rng: &mut Rng, c: &PCfg) -> asp::Term {
    if c.arith && rng.chance(25) {
        let cfg = g::AspCfg { var_names: c.vars.to_vec(), symbols: c.syms.to_vec(), num_lo: -1, num_hi: 3, ..g::AspCfg::default() };
        let depth = 1 + rng.below(2);
        g::term(rng, &cfg, depth)
    } else {
        simple_term(rng, c.vars, c.syms)
    }
}
pub fn p_atom(rng: &mut Rng, c: &PCfg, pool: &[(&str, usize)]) -> asp::Atom {
    let (p, n) = *rng.pick(pool);
    asp::Atom { predicate_symbol: p.to_string(), terms: (0..n).map(|_| p_term(rng, c)).collect() }
}
pub fn p_body(rng: &mut Rng, c: &PCfg) -> asp::Body {
    let n = rng.below(c.max_body + 1);
    let mut fs = vec![];
    for _ in 0..n {
        if rng.chance(75) {
            fs.push(asp::AtomicFormula::Literal(asp::Literal {
                sign: match rng.weighted(&[6, 3, 1]) {
                    0 => asp::Sign::NoSign,
                    1 => asp::Sign::Negation,
                    _ => asp::Sign::DoubleNegation,
                },
                atom: p_atom(rng, c, c.preds),
            }));
        } else {
            fs.push(asp::AtomicFormula::Comparison(asp::Comparison {
                relation: g::asp_relation(rng),
                lhs: p_term(rng, c),
                rhs: p_term(rng, c),
            }));
        }
    }
    asp::Body { formulas: fs }
}
pub fn p_rule(rng: &mut Rng, c: &PCfg) -> asp::Rule {
    let head = match rng.weighted(&[7, if c.choice { 2 } else { 0 }, if c.constraints { 1 } else { 0 }]) {
        0 => asp::Head::Basic(p_atom(rng, c, c.head_preds)),
        1 => asp::Head::Choice(p_atom(rng, c, c.head_preds)),
        _ => asp::Head::Falsity,
    };
    asp::Rule { head, body: p_body(rng, c) }
}
pub fn p_program(rng: &mut Rng, c: &PCfg) -> asp::Program {
    let n = 1 + rng.below(c.max_rules);
    asp::Program { rules: (0..n).map(|_| p_rule(rng, c)).collect() }
}

/// program pair for strong equivalence.  `simple`: arithmetic-free, few small predicates (the
/// fragment on which the semantic checks are exact on a finite window).
pub fn strong_pair(rng: &mut Rng, simple: bool) -> (asp::Program, asp::Program) {
    if simple {
        let preds: &[(&str, usize)] = if rng.chance(50) { &[("p", 0), ("q", 0), ("r", 1)] } else { &[("p", 1), ("q", 1), ("r", 0)] };
        let c = PCfg { preds, head_preds: preds, vars: &["X", "Y"], syms: &["a", "b"], arith: false, max_rules: 3, max_body: 2, choice: true, constraints: true };
        let left = p_program(rng, &c);
        // the right program: a variant of the left one (often equivalent or nearly so) or a fresh one
        let right = match rng.below(4) {
            0 => p_program(rng, &c),
            1 => {
                let mut r = left.clone();
                r.rules.reverse();
                r
            }
            2 => {
                let mut r = left.clone();
                r.rules.push(p_rule(rng, &c));
                r
            }
            _ => {
                let mut r = left.clone();
                let k = rng.below(r.rules.len());
                r.rules[k] = p_rule(rng, &c);
                r
            }
        };
        (left, right)
    } else {
        let cfg = g::AspCfg { max_rules: 3, max_body: 2, max_arity: 2, ..g::AspCfg::default() };
        let left = g::program(rng, &cfg);
        let right = if rng.chance(50) {
            g::program(rng, &cfg)
        } else {
            let mut r = left.clone();
            r.rules.push(g::rule(rng, &cfg));
            r
        };
        (left, right)
    }
}

pub fn direction(rng: &mut Rng) -> fol::Direction {
    *rng.pick(&[fol::Direction::Universal, fol::Direction::Forward, fol::Direction::Backward])
}
pub fn gen_decomposition(rng: &mut Rng) -> Decomposition {
    if rng.chance(50) { Decomposition::Independent } else { Decomposition::Sequential }
}

// ---- formulas over a small vocabulary (specifications, user guides, outlines)

pub struct FCfg<'x> {
    pub preds: &'x [(&'x str, usize)],
    pub vars: &'x [(&'x str, fol::Sort)],
    pub syms: &'x [&'x str],
}
pub fn f_term(rng: &mut Rng, c: &FCfg) -> fol::GeneralTerm {
    use fol::GeneralTerm as G;
    match rng.weighted(&[7, 2, 2, 1]) {
        0 => {
            let (x, st) = *rng.pick(c.vars);
            fol::Variable { name: x.to_string(), sort: st }.into()
        }
        1 => G::IntegerTerm(fol::IntegerTerm::Numeral(rng.range(-1, 3) as isize)),
        2 => G::SymbolicTerm(fol::SymbolicTerm::Symbol(pick_s(rng, c.syms))),
        _ => {
            let (x, _) = *rng.pick(c.vars);
            G::IntegerTerm(fol::IntegerTerm::BinaryOperation {
                op: fol::BinaryOperator::Add,
                lhs: fol::IntegerTerm::Variable(x.to_string()).into(),
                rhs: fol::IntegerTerm::Numeral(1).into(),
            })
        }
    }
}
pub fn f_atom(rng: &mut Rng, c: &FCfg) -> fol::Formula {
    if rng.chance(70) && !c.preds.is_empty() {
        let (p, n) = *rng.pick(c.preds);
        fol::Formula::AtomicFormula(fol::AtomicFormula::Atom(fol::Atom {
            predicate_symbol: p.to_string(),
            terms: (0..n).map(|_| f_term(rng, c)).collect(),
        }))
    } else {
        fol::Formula::AtomicFormula(fol::AtomicFormula::Comparison(fol::Comparison {
            term: f_term(rng, c),
            guards: vec![fol::Guard { relation: g::relation(rng), term: f_term(rng, c) }],
        }))
    }
}
pub fn f_formula(rng: &mut Rng, c: &FCfg, depth: usize) -> fol::Formula {
    use fol::Formula as F;
    if depth == 0 || rng.chance(30) {
        return f_atom(rng, c);
    }
    match rng.weighted(&[2, 7, 3]) {
        0 => F::UnaryFormula { connective: fol::UnaryConnective::Negation, formula: f_formula(rng, c, depth - 1).into() },
        1 => F::BinaryFormula {
            connective: g::connective(rng),
            lhs: f_formula(rng, c, depth - 1).into(),
            rhs: f_formula(rng, c, depth - 1).into(),
        },
        _ => {
            let n = 1 + rng.below(2);
            let variables = (0..n)
                .map(|_| {
                    let (x, st) = *rng.pick(c.vars);
                    fol::Variable { name: x.to_string(), sort: st }
                })
                .collect();
            F::QuantifiedFormula {
                quantification: fol::Quantification {
                    quantifier: if rng.chance(50) { fol::Quantifier::Forall } else { fol::Quantifier::Exists },
                    variables,
                },
                formula: f_formula(rng, c, depth - 1).into(),
            }
        }
    }
}
pub fn forall(vs: Vec<fol::Variable>, f: fol::Formula) -> fol::Formula {
    fol::Formula::QuantifiedFormula {
        quantification: fol::Quantification { quantifier: fol::Quantifier::Forall, variables: vs },
        formula: f.into(),
    }
}
pub fn bin(c: fol::BinaryConnective, x: fol::Formula, y: fol::Formula) -> fol::Formula {
    fol::Formula::BinaryFormula { connective: c, lhs: x.into(), rhs: y.into() }
}
pub fn adversarial_name(rng: &mut Rng) -> String {
    pick_s(rng, &["", "_x", "d", "d", "lemma_1", "_", "x_0", "formula_0_d", "unnamed_formula"])
}

/// an outline entry; mostly acceptable, with every rejected kind planted with small probability.
/// `tempting` = names a definition must NOT be allowed to define when they occur in the task (task
/// predicates, the other side's private predicates, names of private predicates AFTER the `_p`
/// renaming); a definition targets a fresh name with probability `fresh_pct`, a tempting one otherwise.
pub fn outline_entry(
    rng: &mut Rng,
    known: &[(&str, usize)],
    tempting: &[(&str, usize)],
    fresh_pct: usize,
    fresh: &[(&str, usize)],
    defined: &mut Vec<(String, usize)>,
) -> fol::AnnotatedFormula {
    let vars: &[(&str, fol::Sort)] = &[("X", fol::Sort::General), ("Y", fol::Sort::General), ("N", fol::Sort::Integer), ("I", fol::Sort::Integer), ("S", fol::Sort::Symbol)];
    let mut preds: Vec<(&str, usize)> = known.to_vec();
    let defined_now: Vec<(String, usize)> = defined.clone();
    for (p, n) in &defined_now {
        preds.push((p.as_str(), *n));
    }
    // lemmas may also mention not-yet-defined fresh predicates: a later definition of such a predicate must be
    // refused (TakenPredicate; finding F12, repaired) and a later definition body may mention it
    let mut lemma_preds = preds.clone();
    if rng.chance(25) {
        lemma_preds.extend(fresh.iter().cloned());
    }
    let dir = direction(rng);
    let name = adversarial_name(rng);
    match rng.weighted(&[4, 3, 4, 1]) {
        0 => {
            let c = FCfg { preds: &lemma_preds, vars, syms: &["a", "b", "n"] };
            fol::AnnotatedFormula { role: fol::Role::Lemma, direction: dir, name, formula: f_formula(rng, &c, 2) }
        }
        1 => {
            // inductive lemma  forall N X (N >= n -> F)
            let c = FCfg { preds: &lemma_preds, vars: &[("N", fol::Sort::Integer), ("X", fol::Sort::General), ("N", fol::Sort::General)], syms: &["a"] };
            let mut body = f_formula(rng, &c, 2);
            if rng.chance(70) {
                // make sure the induction variable occurs free in the body (otherwise the lemma is rejected)
                let occ = fol::Formula::AtomicFormula(fol::AtomicFormula::Comparison(fol::Comparison {
                    term: fol::GeneralTerm::IntegerTerm(fol::IntegerTerm::Variable("N".into())),
                    guards: vec![fol::Guard { relation: fol::Relation::Greater, term: fol::GeneralTerm::IntegerTerm(fol::IntegerTerm::Numeral(-5)) }],
                }));
                body = bin(fol::BinaryConnective::Conjunction, body, occ);
            }
            let n = rng.range(-2, 2) as isize;
            let iv = if rng.chance(90) { "N" } else { "I" };
            let term: fol::GeneralTerm = match rng.weighted(&[12, 1, 1]) {
                0 => fol::GeneralTerm::IntegerTerm(fol::IntegerTerm::Variable(iv.into())),
                1 => fol::GeneralTerm::Variable("N".into()),
                _ => fol::GeneralTerm::IntegerTerm(fol::IntegerTerm::Numeral(0)),
            };
            let bound: fol::GeneralTerm = if rng.chance(92) {
                fol::GeneralTerm::IntegerTerm(fol::IntegerTerm::Numeral(n))
            } else {
                fol::GeneralTerm::IntegerTerm(fol::IntegerTerm::Variable("I".into()))
            };
            let mut guards = vec![fol::Guard { relation: if rng.chance(92) { fol::Relation::GreaterEqual } else { fol::Relation::Greater }, term: bound }];
            if rng.chance(5) {
                guards.push(fol::Guard { relation: fol::Relation::GreaterEqual, term: fol::GeneralTerm::IntegerTerm(fol::IntegerTerm::Numeral(0)) });
            }
            let ante = fol::Formula::AtomicFormula(fol::AtomicFormula::Comparison(fol::Comparison { term, guards }));
            let f = bin(if rng.chance(93) { fol::BinaryConnective::Implication } else { fol::BinaryConnective::Equivalence }, ante, body.clone());
            // mostly: leave the closure to anthem (free variables); sometimes quantify explicitly,
            // possibly with a wrong variable list
            let f = match rng.weighted(&[6, 3, 1]) {
                0 => f,
                1 => forall(body.free_variables().into_iter().collect(), f),
                _ => forall(vec![fol::Variable { name: "N".into(), sort: fol::Sort::Integer }, fol::Variable { name: "Z".into(), sort: fol::Sort::General }], f),
            };
            fol::AnnotatedFormula { role: fol::Role::InductiveLemma, direction: dir, name, formula: f }
        }
        2 => {
            // definition  forall X.. (aux(X..) <-> F)
            let (p, n) = if rng.chance(fresh_pct) { *rng.pick(fresh) } else { *rng.pick(tempting) };
            let pool = ["X", "Y", "Z"];
            // 30 % of the definitions bind integer / symbol sorted variables (the head's arguments are then
            // `X$i` / `X$s` terms: the TryFrom<GeneralTerm> arms for IntegerTerm::Variable and
            // SymbolicTerm::Variable of outline/mod.rs on the ACCEPTING side; audit 2, B16)
            let sorted = rng.chance(30);
            let mut vs: Vec<fol::Variable> = (0..n)
                .map(|i| fol::Variable {
                    name: pool[i % 3].to_string(),
                    sort: if sorted { *rng.pick(&[fol::Sort::Integer, fol::Sort::Symbol, fol::Sort::General, fol::Sort::Integer]) } else { fol::Sort::General },
                })
                .collect();
            let bvars: Vec<(&str, fol::Sort)> = vs.iter().map(|v| (pool[pool.iter().position(|x| *x == v.name).unwrap()], v.sort)).collect();
            let bvars2: Vec<(&str, fol::Sort)> = if bvars.is_empty() { vec![("X", fol::Sort::General)] } else { bvars };
            let rhs_preds: Vec<(&str, usize)> = if rng.chance(90) { preds.clone() } else { let mut q = preds.clone(); q.push((p, n)); q.extend(fresh.iter().cloned()); q };
            let c = FCfg { preds: &rhs_preds, vars: &bvars2, syms: &["a", "b"] };
            let mut rhs = f_formula(rng, &c, 2);
            if n == 0 || rng.chance(85) {
                // close the body over the block
                let extra: Vec<fol::Variable> = rhs.free_variables().into_iter().filter(|v| !vs.contains(v)).collect();
                if !extra.is_empty() {
                    rhs = fol::Formula::QuantifiedFormula {
                        quantification: fol::Quantification { quantifier: fol::Quantifier::Exists, variables: extra },
                        formula: rhs.into(),
                    };
                }
            }
            let mut terms: Vec<fol::GeneralTerm> = vs.iter().cloned().map(fol::GeneralTerm::from).collect();
            // the relation between the quantifier list and the head's argument list is what makes a
            // definition a definitional extension (closed; every quantified variable among the distinct
            // head variables): a quarter of the definitions get it perturbed - a repeated head variable
            // with the quantifier list unchanged (a quantified variable is left to the body only) or
            // shortened (still conservative: `forall X (aux(X,X) <-> F(X))`), a head argument dropped,
            // an extra / duplicated quantified variable, permutations of either list, a head variable
            // that is not quantified, a non-variable argument, a sort change
            if rng.chance(25) {
                match rng.below(12) {
                    0 if !terms.is_empty() => terms[0] = fol::GeneralTerm::IntegerTerm(fol::IntegerTerm::Numeral(1)),
                    1 if !vs.is_empty() => vs.push(vs[0].clone()),
                    2 => vs.push(fol::Variable { name: "W".into(), sort: fol::Sort::General }),
                    3 | 4 if terms.len() >= 2 => {
                        // repeated head variable, same number of quantified variables
                        let i = rng.below(terms.len());
                        let j = (i + 1 + rng.below(terms.len() - 1)) % terms.len();
                        terms[j] = terms[i].clone();
                    }
                    5 if terms.len() >= 2 => {
                        // repeated head variable, the variable it replaces is no longer quantified
                        let i = rng.below(terms.len());
                        let j = (i + 1 + rng.below(terms.len() - 1)) % terms.len();
                        terms[j] = terms[i].clone();
                        vs.remove(j);
                    }
                    6 if !vs.is_empty() => vs[0].sort = fol::Sort::Integer,
                    7 if terms.len() >= 2 => terms.reverse(),
                    8 if vs.len() >= 2 => vs.reverse(),
                    9 if !terms.is_empty() => {
                        // a head argument dropped: the quantified variable occurs in the body only
                        let i = rng.below(terms.len());
                        terms.remove(i);
                    }
                    10 if !vs.is_empty() => {
                        // a head variable that is not quantified
                        let i = rng.below(vs.len());
                        vs.remove(i);
                    }
                    11 if !terms.is_empty() => {
                        // one more head argument: a repeated or a new variable
                        let t = if rng.chance(60) { terms[0].clone() } else { fol::GeneralTerm::Variable("W".into()) };
                        terms.push(t);
                    }
                    _ => {}
                }
            }
            let arity_now = terms.len();
            let lhs = fol::Formula::AtomicFormula(fol::AtomicFormula::Atom(fol::Atom { predicate_symbol: p.to_string(), terms }));
            let body = bin(if rng.chance(95) { fol::BinaryConnective::Equivalence } else { fol::BinaryConnective::Implication }, lhs, rhs);
            let f = if vs.is_empty() && rng.chance(70) { body } else { forall(vs, body) };
            if !defined.iter().any(|(q, m)| q == p && *m == arity_now) && fresh.contains(&(p, n)) {
                defined.push((p.to_string(), arity_now));
            }
            fol::AnnotatedFormula { role: fol::Role::Definition, direction: dir, name, formula: f }
        }
        _ => {
            let c = FCfg { preds: &preds, vars, syms: &["a"] };
            fol::AnnotatedFormula {
                role: if rng.chance(50) { fol::Role::Assumption } else { fol::Role::Spec },
                direction: dir,
                name,
                formula: f_formula(rng, &c, 1),
            }
        }
    }
}

pub fn outline(rng: &mut Rng, known: &[(&str, usize)], max: usize) -> fol::Specification {
    outline_with(rng, known, known, 88, max)
}
pub fn outline_with(rng: &mut Rng, known: &[(&str, usize)], tempting: &[(&str, usize)], fresh_pct: usize, max: usize) -> fol::Specification {
    let fresh: &[(&str, usize)] = &[("aux", 1), ("aux2", 2), ("d", 0), ("aux", 2)];
    let mut defined = vec![];
    let n = g::count(rng, max);
    let mut formulas = vec![];
    for _ in 0..n {
        let e = outline_entry(rng, known, tempting, fresh_pct, fresh, &mut defined);
        // an entry of a role forbidden in outlines only rarely (it ends the construction)
        if matches!(e.role, fol::Role::Assumption | fol::Role::Spec) && rng.chance(70) {
            continue;
        }
        formulas.push(e);
    }
    fol::Specification { formulas }
}
