//! S-expressions: the wire format shared with the OCaml model driver.
use std::fmt::Write as _;

#[derive(Clone, Debug, PartialEq, Eq)]
pub enum Sexp {
    A(String),
    S(String),
    L(Vec<Sexp>),
}

pub fn a(s: &str) -> Sexp {
    Sexp::A(s.to_string())
}
pub fn s(x: &str) -> Sexp {
    Sexp::S(x.to_string())
}
pub fn l(v: Vec<Sexp>) -> Sexp {
    Sexp::L(v)
}
/// `(tag items...)`
pub fn tagged(tag: &str, mut items: Vec<Sexp>) -> Sexp {
    let mut v = vec![a(tag)];
    v.append(&mut items);
    Sexp::L(v)
}

impl Sexp {
    pub fn write(&self, out: &mut String) {
        match self {
            Sexp::A(x) => out.push_str(x),
            Sexp::S(x) => {
                out.push('"');
                for b in x.bytes() {
                    if b == b'"' || b == b'\\' {
                        out.push('\\');
                        out.push(b as char);
                    } else if !(32..=126).contains(&b) {
                        write!(out, "\\x{:02x}", b).unwrap();
                    } else {
                        out.push(b as char);
                    }
                }
                out.push('"');
            }
            Sexp::L(v) => {
                out.push('(');
                for (i, x) in v.iter().enumerate() {
                    if i > 0 {
                        out.push(' ');
                    }
                    x.write(out);
                }
                out.push(')');
            }
        }
    }
    pub fn to_text(&self) -> String {
        let mut out = String::new();
        self.write(&mut out);
        out
    }
    pub fn as_list(&self) -> Result<&[Sexp], String> {
        match self {
            Sexp::L(v) => Ok(v),
            x => Err(format!("list expected: {}", x.to_text())),
        }
    }
    pub fn as_str(&self) -> Result<&str, String> {
        match self {
            Sexp::S(x) | Sexp::A(x) => Ok(x),
            x => Err(format!("string expected: {}", x.to_text())),
        }
    }
    /// `(tag ...)` -> (tag, rest)
    pub fn tag(&self) -> Option<(&str, &[Sexp])> {
        match self {
            Sexp::L(v) => match v.first() {
                Some(Sexp::A(t)) => Some((t.as_str(), &v[1..])),
                _ => None,
            },
            _ => None,
        }
    }
}

pub fn parse(input: &str) -> Result<Sexp, String> {
    let b = input.as_bytes();
    let mut pos = 0usize;
    let e = parse_expr(b, &mut pos)?;
    skip_ws(b, &mut pos);
    if pos != b.len() {
        return Err("trailing input".into());
    }
    Ok(e)
}

fn skip_ws(b: &[u8], pos: &mut usize) {
    while *pos < b.len() && matches!(b[*pos], b' ' | b'\t' | b'\n' | b'\r') {
        *pos += 1;
    }
}

fn parse_expr(b: &[u8], pos: &mut usize) -> Result<Sexp, String> {
    skip_ws(b, pos);
    if *pos >= b.len() {
        return Err("eof".into());
    }
    match b[*pos] {
        b'(' => {
            *pos += 1;
            let mut items = vec![];
            loop {
                skip_ws(b, pos);
                if *pos >= b.len() {
                    return Err("unclosed".into());
                }
                if b[*pos] == b')' {
                    *pos += 1;
                    break;
                }
                items.push(parse_expr(b, pos)?);
            }
            Ok(Sexp::L(items))
        }
        b')' => Err("unexpected )".into()),
        b'"' => {
            *pos += 1;
            let mut bytes = vec![];
            loop {
                if *pos >= b.len() {
                    return Err("unclosed string".into());
                }
                match b[*pos] {
                    b'"' => {
                        *pos += 1;
                        break;
                    }
                    b'\\' => {
                        *pos += 1;
                        if *pos >= b.len() {
                            return Err("bad escape".into());
                        }
                        if b[*pos] == b'x' {
                            let h = std::str::from_utf8(&b[*pos + 1..*pos + 3]).map_err(|e| e.to_string())?;
                            bytes.push(u8::from_str_radix(h, 16).map_err(|e| e.to_string())?);
                            *pos += 3;
                        } else {
                            bytes.push(b[*pos]);
                            *pos += 1;
                        }
                    }
                    c => {
                        bytes.push(c);
                        *pos += 1;
                    }
                }
            }
            Ok(Sexp::S(String::from_utf8_lossy(&bytes).into_owned()))
        }
        _ => {
            let start = *pos;
            while *pos < b.len() && !matches!(b[*pos], b' ' | b'\t' | b'\n' | b'\r' | b'(' | b')' | b'"') {
                *pos += 1;
            }
            Ok(Sexp::A(String::from_utf8_lossy(&b[start..*pos]).into_owned()))
        }
    }
}
