//! C12, the symbol_order chain judged for the ORIGINAL constants (oracle ops `sem_chain_orig`,
//! `sem_chain_task` of ocaml/driver/ops_chainren.ml).
//!   chain_emit      (raw problem, decomposition)
//!       -> ((renamed <problem after Problem::rename_conflicting_symbols, as a tree>)
//!           (parts (<emitted problem as a tree> "its .p text") ..))
//!       the real add_annotated_formulas / rename_conflicting_symbols / create_unique_formula_names /
//!       decompose / Display.  The oracle obtains the implementation's OWN renaming map by walking
//!       the raw and the renamed formulas in parallel; nothing here or there knows the naming scheme.
//!   chain_external  (external spec program ug outline dec dir repr bypass simplify break)
//!       -> (ok "text" ..) | (err) | (skipped): the .p texts of ExternalEquivalenceTask::decompose()
use super::Op;
use crate::{conv, ext::{chainren as cg, compext as x}, rng::Rng, sexp::{Sexp, a, l, s, tagged}};
use anthem::verif::problem as pb;
use anthem::verif::task::Task as _;

fn gen_chain_emit(rng: &mut Rng) -> Sexp {
    l(vec![cg::raw_problem(rng), a(if rng.chance(50) { "independent" } else { "sequential" })])
}
fn run_chain_emit(e: &Sexp) -> Result<Sexp, String> {
    match e.as_list()? {
        [p, d] => {
            let raw = conv::parse_problem(p)?;
            let renamed = pb::Problem::with_name(raw.name.clone()).add_annotated_formulas(raw.formulas).rename_conflicting_symbols();
            let named = renamed.clone().create_unique_formula_names();
            let parts = match d.as_str()? {
                "independent" => named.decompose_independent(),
                "sequential" => named.decompose_sequential(),
                _ => return Err("decomposition".into()),
            };
            Ok(l(vec![
                tagged("renamed", vec![conv::problem(&renamed)]),
                tagged("parts", parts.iter().map(|q| l(vec![conv::problem(q), s(&format!("{q}"))])).collect()),
            ]))
        }
        _ => Err("chain_emit: (problem decomposition) expected".into()),
    }
}

fn gen_chain_external(rng: &mut Rng) -> Sexp {
    cg::external_task(rng)
}
fn run_chain_external(e: &Sexp) -> Result<Sexp, String> {
    let task = x::parse_task(e)?;
    if task.simplify && x::preflight(&task) == x::Preflight::Nonterminating {
        return Ok(l(vec![a("skipped")]));
    }
    Ok(match task.decompose() {
        Ok(w) => tagged("ok", w.data.iter().map(|q| s(&format!("{q}"))).collect()),
        Err(_) => l(vec![a("err")]),
    })
}

pub fn ops() -> Vec<Op> {
    vec![
        Op { name: "chain_emit", generate: gen_chain_emit, run: run_chain_emit },
        Op { name: "chain_external", generate: gen_chain_external, run: run_chain_external },
    ]
}
