//! Composition cluster `compext` (C04full, C02full): implementation-side operations whose model
//! side is computed entirely in the model (Model/ExternalFull.v), without component tables.
//!   tau_star_completion_full  ((program ..) ((p n)..)) -> (some (theory ..)) | (none) | (panic)
//!       the real `program.tau_star().completion(inputs)`
//!   external_decompose_full   (external spec program ug outline dec dir repr bypass simplify break)
//!       -> (ok (warnings ..) (problems ..)) | (err "Variant" ..) | (panic) | (nonterminating)
//!       the real `ExternalEquivalenceTask{..}.decompose()`
use super::Op;
use crate::{
    conv,
    ext::{compext as x, tasks as t},
    rng::Rng,
    sexp::{Sexp, a, l, tagged},
};
use anthem::{
    syntax_tree::fol::sigma_0 as fol,
    translating::{classical_reduction::completion::Completion as _, formula_representation::tau_star::TauStar as _},
    verif::task::{
        Task as _,
        external_equivalence::{ExternalEquivalenceTask, ExternalEquivalenceTaskError, ExternalEquivalenceTaskWarning},
    },
};
use indexmap::IndexSet;

type R<T> = Result<T, String>;

// ------------------------------------------------------------------ tau_star_completion_full
fn gen_completion_full(rng: &mut Rng) -> Sexp {
    let program = x::completion_program(rng);
    let inputs = x::completion_inputs(rng, &program);
    l(vec![conv::program(&program), l(inputs.iter().map(conv::pred).collect())])
}
/// small arithmetic-free programs (the fragment on which `sem_fages` is exact on a finite window)
fn gen_completion_small(rng: &mut Rng) -> Sexp {
    let program = x::small_program(rng);
    let inputs = x::small_inputs(rng, &program);
    l(vec![conv::program(&program), l(inputs.iter().map(conv::pred).collect())])
}
fn run_completion_full(e: &Sexp) -> R<Sexp> {
    match e.as_list()? {
        [p, ins] => {
            let program = conv::parse_program(p)?;
            let inputs: IndexSet<fol::Predicate> =
                ins.as_list()?.iter().map(conv::parse_pred).collect::<R<Vec<_>>>()?.into_iter().collect();
            // a panic of tau_star propagates to the harness loop, which prints (panic)
            Ok(match program.tau_star().completion(inputs) {
                Some(t) => tagged("some", vec![conv::theory(&t)]),
                None => l(vec![a("none")]),
            })
        }
        _ => Err("tau_star_completion_full: (program inputs) expected".into()),
    }
}

// ------------------------------------------------------------------ external_decompose_full
fn ext_error(e: &ExternalEquivalenceTaskError) -> Sexp {
    t::ext_error(e)
}
/// errors raised by the checks that precede the translations (they do not depend on `simplify`)
fn is_validation_error(e: &ExternalEquivalenceTaskError) -> bool {
    use ExternalEquivalenceTaskError as E;
    !matches!(e, E::OutputPredicateInUserGuideAssumption(_) | E::ProofOutlineError(_))
}
fn ext_warning(w: &ExternalEquivalenceTaskWarning) -> Sexp {
    t::ext_warning(w)
}

/// 60%: the task generator of the `tasks` cluster (stratified programs, planted violations of
/// every ensure_*, placeholders, private q / q_p, specifications, outlines) - its case carries
/// component tables, which are dropped here; 40%: tasks around programs of the tau* grammar.
fn gen_external_full(rng: &mut Rng) -> Sexp {
    if rng.chance(60) {
        let ops = super::tasks::ops();
        let op = ops.iter().find(|o| o.name == "external_decompose").expect("op external_decompose");
        let case = (op.generate)(rng);
        match case.as_list() {
            Ok([task, _components]) => task.clone(),
            // (skipped ..): fixpoint bound / component panic at generation time: keep it skipped
            _ => case,
        }
    } else {
        x::task_sexp(&x::adversarial_task(rng))
    }
}

fn gen_external_small(rng: &mut Rng) -> Sexp {
    x::task_sexp(&x::small_task(rng))
}

fn decompose_sexp(task: ExternalEquivalenceTask) -> Sexp {
    match task.decompose() {
        Ok(w) => tagged("ok", vec![tagged("warnings", w.warnings.iter().map(ext_warning).collect()), t::problems(&w.data)]),
        Err(err) => ext_error(&err),
    }
}

fn run_external_full(e: &Sexp) -> R<Sexp> {
    if matches!(e.tag(), Some(("skipped", _))) {
        return Ok(tagged("none", vec![]));
    }
    let task = x::parse_task(e)?;
    // The only unbounded loop of decompose() is the classic fixpoint inside theory_translate.
    // Pre-flight it with the model's fuel; when it would exceed the fuel, the real call is not
    // made with simplification on (it might not return): the verdict is (nonterminating) provided
    // the checks preceding the translations pass (decided by the real code with simplify off).
    if task.simplify && x::preflight(&task) == x::Preflight::Nonterminating {
        let mut probe = x::parse_task(e)?;
        probe.simplify = false;
        // a panic of the probe can only come from a translation, i.e. after the checks passed
        let r = std::panic::catch_unwind(std::panic::AssertUnwindSafe(|| probe.decompose()));
        return Ok(match r {
            Ok(Err(err)) if is_validation_error(&err) => ext_error(&err),
            _ => l(vec![a("nonterminating")]),
        });
    }
    // a panic propagates to the harness loop, which prints (panic)
    Ok(decompose_sexp(task))
}

pub fn ops() -> Vec<Op> {
    vec![
        Op { name: "tau_star_completion_full", generate: gen_completion_full, run: run_completion_full },
        Op { name: "tau_star_completion_small", generate: gen_completion_small, run: run_completion_full },
        Op { name: "external_decompose_full", generate: gen_external_full, run: run_external_full },
        Op { name: "external_decompose_small", generate: gen_external_small, run: run_external_full },
    ]
}
