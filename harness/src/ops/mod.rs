//! Registry of implementation-side operations.  Each op has
//!   gen: produce the wire-format input of one random case, and
//!   run: execute the real anthem code on a wire-format input and return the wire-format result.
use crate::{rng::Rng, sexp::Sexp};

pub mod gamma;

pub struct Op {
    pub name: &'static str,
    pub generate: fn(&mut Rng) -> Sexp,
    pub run: fn(&Sexp) -> Result<Sexp, String>,
}

pub fn all() -> Vec<Op> {
    let mut v = vec![];
    v.extend(gamma::ops());
    v
}
