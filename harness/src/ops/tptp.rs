//! TPTP cluster: the text anthem emits (C06 formulas, C09 problems, C12 added axioms).
use super::Op;
use crate::{conv, ext::tptp as tg, generate as g, rng::Rng, sexp::{Sexp, l, s, tagged, a}};
use anthem::formatting::fol::sigma_0::tptp::Format;
use anthem::syntax_tree::fol::sigma_0 as fol;
use anthem::verif::problem as pb;

// ---- tptp_format: formula -> the bytes of Format(&formula)
fn gen_formula(rng: &mut Rng) -> Sexp {
    let cfg = tg::cfg(rng);
    let depth = rng.below(5);
    conv::formula(&tg::formula(rng, &cfg, depth))
}
fn run_tptp_format(e: &Sexp) -> Result<Sexp, String> {
    let f = conv::parse_formula(e)?;
    Ok(s(&format!("{}", Format(&f))))
}

// ---- problem_display: problem -> the bytes of format!("{problem}") (any problem, also raw ones)
fn gen_problem(rng: &mut Rng) -> Sexp {
    let raw = tg::raw_problem(rng);
    let p = if rng.chance(70) {
        let p = pb::Problem::with_name("problem")
            .add_annotated_formulas(raw.formulas)
            .rename_conflicting_symbols()
            .create_unique_formula_names();
        let parts = if rng.chance(50) { p.decompose_independent() } else { p.decompose_sequential() };
        if parts.is_empty() { p } else { parts[rng.below(parts.len())].clone() }
    } else {
        raw
    };
    conv::problem(&p)
}
fn run_problem_display(e: &Sexp) -> Result<Sexp, String> {
    let p = conv::parse_problem(e)?;
    Ok(s(&format!("{p}")))
}

// ---- problem_emit: (raw problem, decomposition) -> the texts of the emitted problems
//      (add_annotated_formulas, rename_conflicting_symbols, create_unique_formula_names,
//       decompose, Display): what `verify` writes with --save-problems
fn gen_emit(rng: &mut Rng) -> Sexp {
    let mut raw = tg::raw_problem(rng);
    if !raw.formulas.iter().any(|f| f.role == pb::Role::Conjecture) {
        if let Some(last) = raw.formulas.last_mut() {
            last.role = pb::Role::Conjecture;
        }
    }
    l(vec![conv::problem(&raw), a(if rng.chance(50) { "independent" } else { "sequential" })])
}
fn run_emit(e: &Sexp) -> Result<Sexp, String> {
    match e.as_list()? {
        [p, d] => {
            let raw = conv::parse_problem(p)?;
            let p = pb::Problem::with_name(raw.name.clone())
                .add_annotated_formulas(raw.formulas)
                .rename_conflicting_symbols()
                .create_unique_formula_names();
            let parts = match d.as_str()? {
                "independent" => p.decompose_independent(),
                "sequential" => p.decompose_sequential(),
                _ => return Err("decomposition".into()),
            };
            Ok(l(parts.iter().map(|q| s(&format!("{q}"))).collect()))
        }
        _ => Err("problem_emit: (problem decomposition) expected".into()),
    }
}

// ---- problem_pipeline: (raw problem, decomposition) -> the emitted problems, as trees
fn gen_pipeline(rng: &mut Rng) -> Sexp {
    let raw = tg::raw_problem(rng);
    l(vec![conv::problem(&raw), a(if rng.chance(50) { "independent" } else { "sequential" })])
}
fn run_pipeline(e: &Sexp) -> Result<Sexp, String> {
    match e.as_list()? {
        [p, d] => {
            let raw = conv::parse_problem(p)?;
            let p = pb::Problem::with_name(raw.name.clone())
                .add_annotated_formulas(raw.formulas)
                .rename_conflicting_symbols()
                .create_unique_formula_names();
            let parts = match d.as_str()? {
                "independent" => p.decompose_independent(),
                "sequential" => p.decompose_sequential(),
                _ => return Err("decomposition".into()),
            };
            Ok(l(parts.iter().map(conv::problem).collect()))
        }
        _ => Err("problem_pipeline: (problem decomposition) expected".into()),
    }
}

// ---- strong_transition: (left right) -> the transition axioms of the forward problem
fn gen_programs(rng: &mut Rng) -> Sexp {
    let cfg = g::AspCfg { max_rules: 3, max_body: 2, partial_ops: rng.chance(50), ..g::AspCfg::default() };
    let mut left = g::program(rng, &cfg);
    let mut right = g::program(rng, &cfg);
    // 8 %: a side from the tau* grammar with variables around the usize boundary of the global counter
    // (tau* panics: F11); 2 %: a side without rules (no conjecture: no problem is emitted)
    if rng.chance(8) {
        let mut tc = crate::ext::taustar::TCfg::adversarial(rng);
        tc.huge = 30;
        tc.max_rules = 2;
        let p = crate::ext::taustar::program(rng, &tc);
        if rng.chance(50) { left = p } else { right = p }
    }
    if rng.chance(2) {
        if rng.chance(50) { left.rules.clear() } else { right.rules.clear() }
    }
    l(vec![conv::program(&left), conv::program(&right)])
}
fn run_strong_transition(e: &Sexp) -> Result<Sexp, String> {
    use anthem::verif::arguments::{Decomposition, FormulaRepresentation};
    use anthem::verif::task::{Task as _, strong_equivalence::StrongEquivalenceTask};
    match e.as_list()? {
        [left, right] => {
            let task = StrongEquivalenceTask {
                left: conv::parse_program(left)?,
                right: conv::parse_program(right)?,
                decomposition: Decomposition::Independent,
                direction: fol::Direction::Forward,
                formula_representation: FormulaRepresentation::TauStar,
                simplify: false,
                break_equivalences: false,
            };
            let problems = task.decompose().map_err(|_| "decompose failed".to_string())?.data;
            // no rule on the right = no conjecture = no problem: `(none)` (the model side answers the same;
            // an overflow panic of tau* - variable V18446744073709551615, finding F11 - propagates as `(panic)`
            // and the model side computes TauStar.tau_star of both programs for that; audit 2, B16 / T13)
            let Some(first) = problems.first() else { return Ok(tagged("none", vec![])) };
            Ok(tagged(
                "theory",
                first.formulas.iter().filter(|f| f.name.contains("transition_axiom")).map(|f| conv::formula(&f.formula)).collect(),
            ))
        }
        _ => Err("strong_transition: (left right) expected".into()),
    }
}

pub fn ops() -> Vec<Op> {
    vec![
        Op { name: "tptp_format", generate: gen_formula, run: run_tptp_format },
        Op { name: "problem_display", generate: gen_problem, run: run_problem_display },
        Op { name: "problem_emit", generate: gen_emit, run: run_emit },
        Op { name: "problem_pipeline", generate: gen_pipeline, run: run_pipeline },
        Op { name: "strong_transition", generate: gen_programs, run: run_strong_transition },
    ]
}
