//! C14: mini-gringo print/parse round trip -- implementation-side operations (see
//! ocaml/driver/ops_asprt.ml for the wire format of the results).
use super::Op;
use crate::{conv, ext::asprt as x, rng::Rng, sexp::{a, l, s, tagged, Sexp}};
use anthem::syntax_tree::asp::mini_gringo as asp;

fn gen_program(rng: &mut Rng) -> Sexp {
    // one case in ten may contain identifiers spelled `not` (printing must still agree)
    let cfg = if rng.chance(10) { x::cfg_with_keyword() } else { x::cfg() };
    conv::program(&x::program(rng, &cfg))
}

fn run_print(e: &Sexp) -> Result<Sexp, String> {
    Ok(s(&format!("{}", conv::parse_program(e)?)))
}

fn gen_text(rng: &mut Rng) -> Sexp {
    let base = match rng.weighted(&[30, 45, 25]) {
        0 => {
            // (i) text printed from a random tree
            let cfg = if rng.chance(10) { x::cfg_with_keyword() } else { x::cfg() };
            format!("{}", x::program(rng, &cfg))
        }
        1 => x::text_program(rng), // (ii) text-level grammar
        _ => {
            // (iii) mutated text
            let t = if rng.chance(50) { format!("{}", x::program(rng, &x::cfg())) } else { x::text_program(rng) };
            x::mutate(rng, &t)
        }
    };
    s(&base)
}

fn parse_result(text: &str) -> Sexp {
    match text.parse::<asp::Program>() {
        Ok(p) => tagged("ok", vec![conv::program(&p)]),
        Err(_) => tagged("err", vec![]),
    }
}

fn run_parse(e: &Sexp) -> Result<Sexp, String> {
    Ok(parse_result(e.as_str()?))
}

/// "printed", parse result of "printed", "printed again" | (none)
fn roundtrip_tail(printed: String) -> Vec<Sexp> {
    // a panic while re-parsing must not be confused with a panic of the first parse
    let r = std::panic::catch_unwind(|| printed.parse::<asp::Program>());
    let (res, again) = match r {
        Ok(Ok(q)) => (tagged("ok", vec![conv::program(&q)]), s(&format!("{q}"))),
        Ok(Err(_)) => (tagged("err", vec![]), tagged("none", vec![])),
        Err(_) => (tagged("panic", vec![]), tagged("none", vec![])),
    };
    vec![s(&printed), res, again]
}

fn run_roundtrip(e: &Sexp) -> Result<Sexp, String> {
    let p = conv::parse_program(e)?;
    Ok(tagged("rt", roundtrip_tail(format!("{p}"))))
}

fn gen_roundtrip_text(rng: &mut Rng) -> Sexp {
    // mostly accepted texts: that is where the round trip says something
    let base = x::text_program(rng);
    let t = if rng.chance(85) { base } else { x::mutate(rng, &base) };
    s(&t)
}

fn run_roundtrip_text(e: &Sexp) -> Result<Sexp, String> {
    let text = e.as_str()?.to_string();
    match std::panic::catch_unwind(|| text.parse::<asp::Program>()) {
        Err(_) => Ok(l(vec![a("skip"), a("panic")])),
        Ok(Err(_)) => Ok(l(vec![a("skip"), a("err")])),
        Ok(Ok(p)) => {
            let mut v = vec![tagged("ok", vec![conv::program(&p)])];
            v.extend(roundtrip_tail(format!("{p}")));
            Ok(tagged("rt", v))
        }
    }
}

pub fn ops() -> Vec<Op> {
    vec![
        Op { name: "asp_print", generate: gen_program, run: run_print },
        Op { name: "asp_parse", generate: gen_text, run: run_parse },
        Op { name: "asp_roundtrip", generate: gen_program, run: run_roundtrip },
        Op { name: "asp_roundtrip_text", generate: gen_roundtrip_text, run: run_roundtrip_text },
    ]
}
