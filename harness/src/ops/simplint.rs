//! C07 (intuitionistic half) / C18: every rewrite of intuitionistic.rs alone (`si_<name>`), the
//! intuitionistic and ht portfolios under each strategy (`simplify_int`, `simplify_ht`), and the
//! fixpoint loop with its pass count and a second simplification of the result (`fixpoint_ht`).
use super::Op;
use crate::ext::simplint as x;
use crate::{conv, rng::Rng, sexp::{a, l, tagged, Sexp}};

fn gen_rule<const K: usize>(rng: &mut Rng) -> Sexp {
    let cfg = x::cfg(rng);
    let depth = 1 + rng.below(3);
    let f = if rng.chance(70) { x::redex_of(K, rng, &cfg, depth) } else { x::formula(rng, &cfg, depth) };
    conv::formula(&f)
}
fn run_rule<const K: usize>(e: &Sexp) -> Result<Sexp, String> {
    Ok(conv::formula(&(x::RULES[K].1)(conv::parse_formula(e)?)))
}

fn gen_strategy_case(rng: &mut Rng) -> Sexp {
    let cfg = x::cfg(rng);
    let depth = 1 + rng.below(4);
    let f = if rng.chance(25) { x::cascade(rng, &cfg, depth) } else { x::formula(rng, &cfg, depth) };
    let s = x::STRATEGIES[rng.weighted(&[2, 3, 5])].0;
    l(vec![a(s), conv::formula(&f)])
}
fn run_simplify(portfolio: &[x::Rewrite], e: &Sexp) -> Result<Sexp, String> {
    match e.as_list()? {
        [s, f] => {
            let s = x::parse_strategy(s.as_str()?)?;
            let f = conv::parse_formula(f)?;
            Ok(match x::simplify(portfolio, s, f) {
                Ok(g) => conv::formula(&g),
                Err(n) => tagged("nonterminating", vec![conv::unum(n)]),
            })
        }
        _ => Err("simplify: (strategy formula) expected".into()),
    }
}
fn run_simplify_int(e: &Sexp) -> Result<Sexp, String> {
    run_simplify(&x::portfolio_intuitionistic(), e)
}
fn run_simplify_ht(e: &Sexp) -> Result<Sexp, String> {
    run_simplify(&x::portfolio_ht(), e)
}

fn gen_fixpoint_case(rng: &mut Rng) -> Sexp {
    let cfg = x::cfg(rng);
    let depth = 1 + rng.below(4);
    let f = if rng.chance(60) { x::cascade(rng, &cfg, depth) } else { x::formula(rng, &cfg, depth) };
    conv::formula(&f)
}
/// (fix <passes> <result> <result of simplifying the result again is identical>)
fn run_fixpoint_ht(e: &Sexp) -> Result<Sexp, String> {
    let f = conv::parse_formula(e)?;
    let p = x::portfolio_ht();
    let Some(passes) = x::fixpoint_passes(&p, &f) else {
        return Ok(tagged("nonterminating", vec![conv::unum(x::MAX_PASSES)]));
    };
    let g = x::simplify(&p, x::Strategy::Fixpoint, f).map_err(|_| "unreachable".to_string())?;
    let again = match x::simplify(&p, x::Strategy::Fixpoint, g.clone()) {
        Ok(g2) => g2 == g,
        Err(_) => false,
    };
    Ok(tagged("fix", vec![conv::unum(passes), conv::formula(&g), conv::boolean(again)]))
}

/// which rewrites fire somewhere in the formula when applied alone at every node (post-order):
/// (fired b0 .. b12), indices as in ext::simplint::RULES.  Feeds the rule-firing statistics.
fn run_profile(e: &Sexp) -> Result<Sexp, String> {
    use anthem::convenience::apply::Apply as _;
    let f = conv::parse_formula(e)?;
    let mut v = vec![];
    for (_, r) in x::RULES {
        let mut r = *r;
        v.push(conv::boolean(f.clone().apply(&mut r) != f));
    }
    Ok(tagged("fired", v))
}

macro_rules! rule_op {
    ($k:literal, $name:literal) => {
        Op { name: $name, generate: gen_rule::<$k>, run: run_rule::<$k> }
    };
}

pub fn ops() -> Vec<Op> {
    // indices follow ext::simplint::RULES
    vec![
        rule_op!(0, "si_evaluate_comparisons"),
        rule_op!(1, "si_apply_negation_definition"),
        rule_op!(2, "si_apply_negation_definition_inverse"),
        rule_op!(3, "si_apply_reverse_implication_definition"),
        rule_op!(4, "si_apply_reverse_implication_definition_inverse"),
        rule_op!(5, "si_apply_equivalence_definition"),
        rule_op!(6, "si_apply_equivalence_definition_inverse"),
        rule_op!(7, "si_remove_identities"),
        rule_op!(8, "si_remove_annihilations"),
        rule_op!(9, "si_remove_idempotences"),
        rule_op!(10, "si_remove_orphaned_variables"),
        rule_op!(11, "si_remove_empty_quantifications"),
        rule_op!(12, "si_join_nested_quantifiers"),
        Op { name: "simplify_int", generate: gen_strategy_case, run: run_simplify_int },
        Op { name: "simplify_ht", generate: gen_strategy_case, run: run_simplify_ht },
        Op { name: "fixpoint_ht", generate: gen_fixpoint_case, run: run_fixpoint_ht },
        Op { name: "si_profile", generate: gen_fixpoint_case, run: run_profile },
    ]
}
