//! C04 / C11 (tightness, private recursion): implementation-side operations.
//!   completion             ((theory f..) ((p n)..))      -> (some (theory ..)) | (none)
//!   is_tight               (program ..)                   -> true | false
//!   has_private_recursion  ((program ..) ((p n)..))       -> true | false
use super::Op;
use crate::{
    conv,
    ext::completion as x,
    generate as g,
    rng::Rng,
    sexp::{Sexp, a, l, tagged},
};
use anthem::{
    analyzing::{private_recursion::PrivateRecursion as _, tightness::Tightness as _},
    syntax_tree::{asp::mini_gringo as asp, fol::sigma_0 as fol},
    translating::{classical_reduction::completion::Completion as _, formula_representation::tau_star::TauStar as _},
};
use indexmap::IndexSet;

fn preds(ps: &[fol::Predicate]) -> Sexp {
    l(ps.iter().map(conv::pred).collect())
}
fn parse_preds(e: &Sexp) -> Result<Vec<fol::Predicate>, String> {
    e.as_list()?.iter().map(conv::parse_pred).collect()
}

/// tau*-theories of generated programs (inputs: predicates that occur in no head, as the
/// property requires, and - 20% - arbitrary ones) and hand-made theories with random input sets
fn gen_completion(rng: &mut Rng) -> Sexp {
    let (theory, inputs) = if rng.chance(55) {
        let program = if rng.chance(50) {
            x::planted_program(rng).0
        } else {
            let cfg = g::AspCfg { max_rules: 4, ..g::AspCfg::default() };
            g::program(rng, &cfg)
        };
        let heads = program.head_predicates();
        let all: Vec<asp::Predicate> = program.predicates().into_iter().collect();
        let body_only: Vec<fol::Predicate> = all.iter().filter(|p| !heads.contains(*p)).map(x::fol_pred).collect();
        let mut inputs = x::random_subset(rng, &body_only, 50);
        if rng.chance(20) {
            let any: Vec<fol::Predicate> = all.iter().map(x::fol_pred).collect();
            inputs.extend(x::random_subset(rng, &any, 30));
            if rng.chance(50) {
                inputs.push(fol::Predicate { symbol: "zz".into(), arity: 1 });
            }
        }
        (program.tau_star(), inputs)
    } else {
        let theory = x::handmade_theory(rng);
        let all: Vec<fol::Predicate> = theory.predicates().into_iter().collect();
        let mut inputs = x::random_subset(rng, &all, 30);
        if rng.chance(10) {
            inputs.push(fol::Predicate { symbol: "p".into(), arity: rng.below(3) });
        }
        (theory, inputs)
    };
    // IndexSet semantics on the implementation side: keep the wire list duplicate-free
    let inputs: Vec<fol::Predicate> = inputs.into_iter().collect::<IndexSet<_>>().into_iter().collect();
    l(vec![conv::theory(&theory), preds(&inputs)])
}

fn run_completion(e: &Sexp) -> Result<Sexp, String> {
    match e.as_list()? {
        [t, ins] => {
            let theory = conv::parse_theory(t)?;
            let inputs: IndexSet<fol::Predicate> = parse_preds(ins)?.into_iter().collect();
            Ok(match theory.completion(inputs) {
                Some(t) => tagged("some", vec![conv::theory(&t)]),
                None => l(vec![a("none")]),
            })
        }
        _ => Err("completion: (theory inputs) expected".into()),
    }
}

fn gen_program(rng: &mut Rng) -> Sexp {
    conv::program(&x::planted_program(rng).0)
}
fn run_is_tight(e: &Sexp) -> Result<Sexp, String> {
    Ok(conv::boolean(conv::parse_program(e)?.is_tight()))
}

fn gen_privrec(rng: &mut Rng) -> Sexp {
    let program = x::planted_program(rng).0;
    let all: Vec<fol::Predicate> = program.predicates().iter().map(x::fol_pred).collect();
    let pct = *rng.pick(&[0, 30, 60, 100]);
    let mut private = x::random_subset(rng, &all, pct);
    if rng.chance(10) {
        private.push(fol::Predicate { symbol: "zz".into(), arity: 0 });
    }
    let private: Vec<fol::Predicate> = private.into_iter().collect::<IndexSet<_>>().into_iter().collect();
    l(vec![conv::program(&program), preds(&private)])
}
fn run_privrec(e: &Sexp) -> Result<Sexp, String> {
    match e.as_list()? {
        [p, ps] => {
            let program = conv::parse_program(p)?;
            // as ExternalEquivalenceTask::ensure_absence_of_private_recursion does
            let private: IndexSet<asp::Predicate> = parse_preds(ps)?.iter().map(x::asp_pred).collect();
            Ok(conv::boolean(program.has_private_recursion(&private)))
        }
        _ => Err("has_private_recursion: (program preds) expected".into()),
    }
}

pub fn ops() -> Vec<Op> {
    vec![
        Op { name: "completion", generate: gen_completion, run: run_completion },
        Op { name: "is_tight", generate: gen_program, run: run_is_tight },
        Op { name: "has_private_recursion", generate: gen_privrec, run: run_privrec },
    ]
}
