//! C15: print / parse / round-trip operations for target-language formulas, theories, specifications
//! and user guides.
//!   fol_print_<k>        tree -> "text"                      (bytes of Display; model: FolPrint.show_*)
//!   fol_parse_<k>        "text" -> (ok tree) | (err)         (str::parse; a panic is `(panic)`;
//!                                                             model: FolParse.parse_*_str = lex then parse)
//!   fol_roundtrip_<k>    tree -> (ok) | (cex <kind> "printed" [tree'])   parse(print t) = t, print idempotent
//!   fol_roundtrip_text   (<k> "text") -> (skip) | (ok) | (cex ...)       the same starting from a text
//!   fol_roundtrip_translated  (tau_star P) | (natural P) | (mu P) | (gamma P) | (completion P)
//!                             | (simplify portfolio strategy P) | (simplify_theory portfolio strategy T)
//!                             | (tau_star_text "program")
//!                        -> (skip) | (ok) | (cex (theory ..) <kind> "printed" [tree'])
//!                        the output of the real translate / simplify functions must re-parse to itself
use super::Op;
use crate::{conv, ext::folrt as x, generate as g, rng::Rng, sexp::{Sexp, a, l, s, tagged}};
use anthem::{
    convenience::{apply::Apply as _, compose::Compose as _},
    syntax_tree::{asp::mini_gringo as asp, fol::sigma_0 as fol},
    translating::{
        classical_reduction::{completion::Completion as _, gamma::Gamma as _},
        formula_representation::{mu::Mu as _, natural::Natural as _, tau_star::TauStar as _},
    },
    verif::simplifying_fol::sigma_0::{classic::CLASSIC, ht::HT, intuitionistic::INTUITIONISTIC},
};

fn text_of(e: &Sexp) -> Result<String, String> {
    match e {
        Sexp::S(t) => Ok(t.clone()),
        e => Err(format!("quoted text expected: {}", e.to_text())),
    }
}

// ------------------------------------------------------------------ print
fn gen_formula(rng: &mut Rng) -> Sexp { conv::formula(&x::formula(rng)) }
fn gen_theory(rng: &mut Rng) -> Sexp { conv::theory(&x::theory(rng)) }
fn gen_spec(rng: &mut Rng) -> Sexp { conv::specification(&x::specification(rng)) }
fn gen_ug(rng: &mut Rng) -> Sexp { conv::user_guide(&x::user_guide(rng)) }

fn run_print_formula(e: &Sexp) -> Result<Sexp, String> { Ok(s(&conv::parse_formula(e)?.to_string())) }
fn run_print_theory(e: &Sexp) -> Result<Sexp, String> { Ok(s(&conv::parse_theory(e)?.to_string())) }
fn run_print_spec(e: &Sexp) -> Result<Sexp, String> { Ok(s(&conv::parse_specification(e)?.to_string())) }
fn run_print_ug(e: &Sexp) -> Result<Sexp, String> { Ok(s(&conv::parse_user_guide(e)?.to_string())) }

// ------------------------------------------------------------------ parse
fn mix(rng: &mut Rng, printed: String, fuzz: fn(&mut Rng) -> String) -> Sexp {
    let t = match rng.weighted(&[35, 35, 15, 15]) {
        0 => printed,
        1 => fuzz(rng),
        2 => x::mutate(rng, &printed),
        _ => {
            let f = fuzz(rng);
            x::mutate(rng, &f)
        }
    };
    s(&t)
}
fn gen_text_formula(rng: &mut Rng) -> Sexp { let p = x::formula(rng).to_string(); mix(rng, p, x::fuzz_formula) }
fn gen_text_theory(rng: &mut Rng) -> Sexp { let p = x::theory(rng).to_string(); mix(rng, p, x::fuzz_theory) }
fn gen_text_spec(rng: &mut Rng) -> Sexp { let p = x::specification(rng).to_string(); mix(rng, p, x::fuzz_spec) }
fn gen_text_ug(rng: &mut Rng) -> Sexp { let p = x::user_guide(rng).to_string(); mix(rng, p, x::fuzz_ug) }

fn ok(t: Sexp) -> Sexp { tagged("ok", vec![t]) }
fn err() -> Sexp { l(vec![a("err")]) }

fn run_parse_formula(e: &Sexp) -> Result<Sexp, String> {
    Ok(match text_of(e)?.parse::<fol::Formula>() { Ok(t) => ok(conv::formula(&t)), Err(_) => err() })
}
fn run_parse_theory(e: &Sexp) -> Result<Sexp, String> {
    Ok(match text_of(e)?.parse::<fol::Theory>() { Ok(t) => ok(conv::theory(&t)), Err(_) => err() })
}
fn run_parse_spec(e: &Sexp) -> Result<Sexp, String> {
    Ok(match text_of(e)?.parse::<fol::Specification>() { Ok(t) => ok(conv::specification(&t)), Err(_) => err() })
}
fn run_parse_ug(e: &Sexp) -> Result<Sexp, String> {
    Ok(match text_of(e)?.parse::<fol::UserGuide>() { Ok(t) => ok(conv::user_guide(&t)), Err(_) => err() })
}

// ------------------------------------------------------------------ round trip
/// parse(print t) == t  (then print(parse(print t)) == print t follows; it is checked anyway)
fn roundtrip<T>(t: &T, conv_t: fn(&T) -> Sexp) -> Sexp
where
    T: std::fmt::Display + std::str::FromStr + PartialEq,
{
    let printed = t.to_string();
    match printed.parse::<T>() {
        Err(_) => tagged("cex", vec![a("rejected"), s(&printed)]),
        Ok(t2) => {
            if &t2 != t {
                tagged("cex", vec![a("changed"), s(&printed), conv_t(&t2)])
            } else if t2.to_string() != printed {
                tagged("cex", vec![a("not-idempotent"), s(&printed), s(&t2.to_string())])
            } else {
                l(vec![a("ok")])
            }
        }
    }
}
fn run_rt_formula(e: &Sexp) -> Result<Sexp, String> { Ok(roundtrip(&conv::parse_formula(e)?, conv::formula)) }
fn run_rt_theory(e: &Sexp) -> Result<Sexp, String> { Ok(roundtrip(&conv::parse_theory(e)?, conv::theory)) }
fn run_rt_spec(e: &Sexp) -> Result<Sexp, String> { Ok(roundtrip(&conv::parse_specification(e)?, conv::specification)) }
fn run_rt_ug(e: &Sexp) -> Result<Sexp, String> { Ok(roundtrip(&conv::parse_user_guide(e)?, conv::user_guide)) }

/// the tree type of the model keeps arities as unary naturals: keep round-trip texts below 10^5
fn cap_arities(e: Sexp) -> Sexp {
    match e {
        Sexp::S(t) => {
            let cs: Vec<char> = t.chars().collect();
            let mut out = String::new();
            let mut i = 0;
            while i < cs.len() {
                if cs[i].is_ascii_digit() {
                    let mut j = i;
                    while j < cs.len() && cs[j].is_ascii_digit() { j += 1; }
                    let run: String = cs[i..j].iter().collect();
                    // keep overflowing values (>= 2^64: a panic, no tree is built) and small ones
                    if run.len() > 5 && run.len() < 21 { out.push_str(&run[..5]) } else { out.push_str(&run) }
                    i = j;
                } else {
                    out.push(cs[i]);
                    i += 1;
                }
            }
            Sexp::S(out)
        }
        e => e,
    }
}
fn gen_rt_text(rng: &mut Rng) -> Sexp {
    match rng.below(4) {
        0 => tagged("formula", vec![gen_text_formula(rng)]),
        1 => tagged("theory", vec![gen_text_theory(rng)]),
        2 => tagged("spec", vec![gen_text_spec(rng)]),
        _ => tagged("ug", vec![cap_arities(gen_text_ug(rng))]),
    }
}
fn rt_text<T>(text: &str, conv_t: fn(&T) -> Sexp) -> Sexp
where
    T: std::fmt::Display + std::str::FromStr + PartialEq,
{
    match text.parse::<T>() {
        Err(_) => l(vec![a("skip")]),
        Ok(t) => roundtrip(&t, conv_t),
    }
}
fn run_rt_text(e: &Sexp) -> Result<Sexp, String> {
    match e.tag() {
        Some(("formula", [t])) => Ok(rt_text::<fol::Formula>(&text_of(t)?, conv::formula)),
        Some(("theory", [t])) => Ok(rt_text::<fol::Theory>(&text_of(t)?, conv::theory)),
        Some(("spec", [t])) => Ok(rt_text::<fol::Specification>(&text_of(t)?, conv::specification)),
        Some(("ug", [t])) => Ok(rt_text::<fol::UserGuide>(&text_of(t)?, conv::user_guide)),
        _ => Err(format!("fol_roundtrip_text: {}", e.to_text())),
    }
}

// ------------------------------------------------------------------ output of translate / simplify
fn asp_cfg(rng: &mut Rng) -> g::AspCfg {
    let mut c = g::AspCfg::default();
    if rng.chance(30) {
        c.preds.extend_from_slice(&["and", "or", "forall", "exists", "andy", "forallx", "_p"]);
        c.symbols.extend_from_slice(&["and", "not", "forall", "nota", "i", "_a"]);
    }
    if rng.chance(4) {
        c.preds.extend_from_slice(&["notp", "forallX", "not_"]);
    }
    if rng.chance(12) {
        // finding F7e: keyword-prefixed symbolic constants (class F7b once natural / mu / a simplification
        // puts them first in a comparison) and look-alikes outside the class
        c.symbols.extend_from_slice(&["notq", "forallX", "existsY", "not_", "forallx", "existsa"]);
    }
    if rng.chance(25) {
        c.partial_ops = false;
    }
    if rng.chance(15) {
        c.extreme_numerals = 10;
    }
    c
}
fn portfolio_name(rng: &mut Rng) -> &'static str { *rng.pick(&["classic", "ht", "intuitionistic"]) }
fn strategy_name(rng: &mut Rng) -> &'static str { *rng.pick(&["shallow", "recursive", "fixpoint"]) }
fn gen_translated(rng: &mut Rng) -> Sexp {
    let c = asp_cfg(rng);
    let p = conv::program(&g::program(rng, &c));
    match rng.weighted(&[5, 2, 2, 3, 3, 5, 4]) {
        0 => tagged("tau_star", vec![p]),
        1 => tagged("natural", vec![p]),
        2 => tagged("mu", vec![p]),
        3 => tagged("gamma", vec![p]),
        4 => tagged("completion", vec![p]),
        5 => tagged("simplify", vec![a(portfolio_name(rng)), a(strategy_name(rng)), p]),
        _ => tagged("simplify_theory", vec![a(portfolio_name(rng)), a(strategy_name(rng)), conv::theory(&x::theory(rng))]),
    }
}
fn simplify(theory: fol::Theory, portfolio: &str, strategy: &str) -> Result<fol::Theory, String> {
    let fs: Vec<fn(fol::Formula) -> fol::Formula> = match portfolio {
        "classic" => [INTUITIONISTIC, HT, CLASSIC].concat(),
        "ht" => [INTUITIONISTIC, HT].concat(),
        "intuitionistic" => [INTUITIONISTIC].concat(),
        p => return Err(format!("portfolio {p}")),
    };
    let mut simplification = fs.into_iter().compose();
    Ok(theory
        .into_iter()
        .map(|formula| match strategy {
            "shallow" => simplification(formula),
            "recursive" => formula.apply(&mut simplification),
            _ => formula.apply_fixpoint(&mut simplification),
        })
        .collect())
}
fn translated(e: &Sexp) -> Result<Option<fol::Theory>, String> {
    Ok(match e.tag() {
        Some(("tau_star", [p])) => Some(conv::parse_program(p)?.tau_star()),
        Some(("tau_star_text", [t])) => match text_of(t)?.parse::<asp::Program>() {
            Ok(p) => Some(p.tau_star()),
            Err(_) => None,
        },
        Some(("natural", [p])) => conv::parse_program(p)?.natural(),
        Some(("mu", [p])) => Some(conv::parse_program(p)?.mu()),
        Some(("gamma", [p])) => Some(conv::parse_program(p)?.tau_star().gamma()),
        Some(("completion", [p])) => conv::parse_program(p)?.tau_star().completion(Default::default()),
        Some(("simplify", [pf, st, p])) => Some(simplify(conv::parse_program(p)?.tau_star(), pf.as_str()?, st.as_str()?)?),
        Some(("simplify_theory", [pf, st, t])) => Some(simplify(conv::parse_theory(t)?, pf.as_str()?, st.as_str()?)?),
        _ => return Err(format!("fol_roundtrip_translated: {}", e.to_text())),
    })
}
fn run_translated(e: &Sexp) -> Result<Sexp, String> {
    Ok(match translated(e)? {
        None => l(vec![a("skip")]),
        Some(t) => match roundtrip(&t, conv::theory) {
            Sexp::L(v) if v.first() == Some(&a("cex")) => {
                let mut out = vec![a("cex"), conv::theory(&t)];
                out.extend_from_slice(&v[1..]);
                l(out)
            }
            r => r,
        },
    })
}

pub fn ops() -> Vec<Op> {
    vec![
        Op { name: "fol_print_formula", generate: gen_formula, run: run_print_formula },
        Op { name: "fol_print_theory", generate: gen_theory, run: run_print_theory },
        Op { name: "fol_print_spec", generate: gen_spec, run: run_print_spec },
        Op { name: "fol_print_ug", generate: gen_ug, run: run_print_ug },
        Op { name: "fol_parse_formula", generate: gen_text_formula, run: run_parse_formula },
        Op { name: "fol_parse_theory", generate: gen_text_theory, run: run_parse_theory },
        Op { name: "fol_parse_spec", generate: gen_text_spec, run: run_parse_spec },
        Op { name: "fol_parse_ug", generate: gen_text_ug, run: run_parse_ug },
        Op { name: "fol_roundtrip_formula", generate: gen_formula, run: run_rt_formula },
        Op { name: "fol_roundtrip_theory", generate: gen_theory, run: run_rt_theory },
        Op { name: "fol_roundtrip_spec", generate: gen_spec, run: run_rt_spec },
        Op { name: "fol_roundtrip_ug", generate: gen_ug, run: run_rt_ug },
        Op { name: "fol_roundtrip_text", generate: gen_rt_text, run: run_rt_text },
        Op { name: "fol_roundtrip_translated", generate: gen_translated, run: run_translated },
    ]
}
