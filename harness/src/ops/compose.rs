//! Implementation-side operations of the COMPOSITION of the strong-equivalence pipeline
//! (C03full, C08mu, C19): `mu`, `strong_decompose_full`, `strong_families_full`.
//!
//! Unlike `strong_decompose` (ops/tasks.rs), whose model receives tables of component outputs
//! computed by the real component functions, the model side of these ops computes EVERYTHING
//! (tau*, mu, both fixpoint simplifications, gamma, equivalence breaking, assembly, renaming,
//! naming, decomposition) from the two programs and the flags alone; `run` executes the real
//! `Task::decompose()`.
//!
//! The real `apply_fixpoint` loop is unbounded and termination of the post-gamma portfolio
//! (INTUITIONISTIC ++ HT ++ CLASSIC) is not proved.  Before the real `decompose()` is entered the
//! loops are therefore replayed with the real composed portfolios and the real `Apply::apply`
//! under the model's bound (`CLASSIC_FUEL` = `Model/StrongFull.classic_fuel` further passes after the
//! first one); a loop that exceeds it is answered `(nonterminating)`, as the model does.
use super::Op;
use crate::{
    conv,
    ext::{natural as nat, tasks as t, taustar as ts},
    generate as g,
    rng::Rng,
    sexp::{Sexp, a, l, tagged},
};
use anthem::{
    convenience::apply::Apply as _,
    syntax_tree::{asp::mini_gringo as asp, fol::sigma_0 as fol},
    translating::{
        classical_reduction::gamma::Gamma as _,
        formula_representation::{mu::Mu as _, tau_star::TauStar as _},
    },
    verif::{
        arguments::{Decomposition, FormulaRepresentation},
        problem as pb,
        simplifying_fol::sigma_0::{classic::CLASSIC, ht::HT, intuitionistic::INTUITIONISTIC},
        task::{Task as _, strong_equivalence::StrongEquivalenceTask},
    },
};

type R<T> = Result<T, String>;

/// = Model/StrongFull.classic_fuel
pub const CLASSIC_FUEL: usize = 64;
/// the pre-gamma loop always terminates in the model (fuel mu F + 1, C18_term_ht); a real loop
/// that needs more passes than this is reported as `(nonterminating)` and disagrees with the model
pub const HT_BOUND: usize = 3000;

// ------------------------------------------------------------------ mu

fn gen_mu(rng: &mut Rng) -> Sexp {
    let p = match rng.below(10) {
        0..=4 => nat::program(rng),
        5..=6 => nat::small_program(rng),
        7..=8 => {
            // tau*-adversarial names, including the usize boundary of the global counter
            let cfg = ts::TCfg::adversarial(rng);
            ts::program(rng, &cfg)
        }
        _ => {
            // a regular program with one tau*-adversarial rule in the middle
            let mut p = nat::program(rng);
            let cfg = ts::TCfg::adversarial(rng);
            let k = rng.below(p.rules.len() + 1);
            p.rules.insert(k, ts::rule(rng, &cfg));
            p
        }
    };
    conv::program(&p)
}
fn run_mu(e: &Sexp) -> R<Sexp> {
    Ok(conv::theory(&conv::parse_program(e)?.mu()))
}

// ------------------------------------------------------------------ the strong-equivalence pipeline

/// `apply_fixpoint` of the composed portfolio with at most `fuel` further passes after the first
fn fixpoint_fuel(f: fol::Formula, portfolio: &[fn(fol::Formula) -> fol::Formula], fuel: usize) -> Option<fol::Formula> {
    let mut step = |x: fol::Formula| portfolio.iter().fold(x, |x, r| r(x));
    let mut previous = f;
    let mut current = previous.clone().apply(&mut step);
    let mut left = fuel;
    while previous != current {
        if left == 0 {
            return None;
        }
        left -= 1;
        previous = current;
        current = previous.clone().apply(&mut step);
    }
    Some(current)
}
fn fixpoint_theory(t: fol::Theory, portfolio: &[fn(fol::Formula) -> fol::Formula], fuel: usize) -> Option<fol::Theory> {
    let mut out = vec![];
    for f in t.formulas {
        out.push(fixpoint_fuel(f, portfolio, fuel)?);
    }
    Some(fol::Theory { formulas: out })
}
fn repr_of(r: FormulaRepresentation, p: &asp::Program) -> fol::Theory {
    match r {
        FormulaRepresentation::Mu => p.clone().mu(),
        FormulaRepresentation::TauStar => p.clone().tau_star(),
    }
}
/// do all fixpoint loops of the task stop within the model's bounds?  (Panics propagate.)
fn loops_terminate(r: FormulaRepresentation, simplify: bool, left: &asp::Program, right: &asp::Program) -> bool {
    let l0 = repr_of(r, left);
    let r0 = repr_of(r, right);
    if !simplify {
        return true;
    }
    let ht = [INTUITIONISTIC, HT].concat();
    let cls = [INTUITIONISTIC, HT, CLASSIC].concat();
    let Some(l1) = fixpoint_theory(l0, &ht, HT_BOUND) else { return false };
    let Some(r1) = fixpoint_theory(r0, &ht, HT_BOUND) else { return false };
    let l2 = l1.gamma();
    let r2 = r1.gamma();
    if fixpoint_theory(l2, &cls, CLASSIC_FUEL).is_none() {
        return false;
    }
    fixpoint_theory(r2, &cls, CLASSIC_FUEL).is_some()
}
fn real_decompose(r: FormulaRepresentation, dir: fol::Direction, dec: Decomposition, simplify: bool, brk: bool, left: &asp::Program, right: &asp::Program) -> R<Vec<pb::Problem>> {
    let task = StrongEquivalenceTask {
        left: left.clone(),
        right: right.clone(),
        decomposition: dec,
        direction: dir,
        formula_representation: r,
        simplify,
        break_equivalences: brk,
    };
    match task.decompose() {
        Ok(w) => Ok(w.data),
        Err(_) => Err("strong task error".into()),
    }
}

// ---- program pairs: small, all shapes the three component generators produce

fn small_tau_program(rng: &mut Rng) -> asp::Program {
    let mut cfg = ts::TCfg::small(rng);
    if rng.chance(30) {
        // colliding names of the adversarial pool, still small
        cfg = ts::TCfg::adversarial(rng);
        cfg.max_rules = 2;
        cfg.max_body = 2;
        cfg.max_arity = 2;
        cfg.depth = 1 + rng.below(2);
        cfg.huge = if rng.chance(25) { 12 } else { 0 };
    }
    ts::program(rng, &cfg)
}
fn variant(rng: &mut Rng, left: &asp::Program, fresh: asp::Program) -> asp::Program {
    match rng.below(4) {
        0 => fresh,
        1 => {
            let mut r = left.clone();
            r.rules.reverse();
            r
        }
        2 => {
            let mut r = left.clone();
            r.rules.extend(fresh.rules.into_iter().take(1));
            r
        }
        _ => {
            let mut r = left.clone();
            if let Some(x) = fresh.rules.into_iter().next() {
                let k = rng.below(r.rules.len());
                r.rules[k] = x;
            }
            r
        }
    }
}
fn pair(rng: &mut Rng) -> (asp::Program, asp::Program) {
    match rng.below(10) {
        // the tasks cluster's pairs: arithmetic-free (the fragment of sem_c03) and generic
        0..=3 => t::strong_pair(rng, true),
        4 => t::strong_pair(rng, false),
        // tau*-adversarial small programs
        5..=6 => {
            let left = small_tau_program(rng);
            let fresh = small_tau_program(rng);
            let right = variant(rng, &left, fresh);
            (left, right)
        }
        // natural / mu: regular and irregular rules, fresh-name collisions N0, N0_0
        7..=8 => {
            let left = nat::small_program(rng);
            let fresh = nat::small_program(rng);
            let right = variant(rng, &left, fresh);
            (left, right)
        }
        _ => {
            let cfg = g::AspCfg { max_rules: 2, max_body: 2, max_arity: 2, ..g::AspCfg::default() };
            (g::program(rng, &cfg), g::program(rng, &cfg))
        }
    }
}

fn gen_strong_decompose_full(rng: &mut Rng) -> Sexp {
    let (left, right) = pair(rng);
    let r = if rng.chance(50) { FormulaRepresentation::Mu } else { FormulaRepresentation::TauStar };
    let dir = t::direction(rng);
    let dec = t::gen_decomposition(rng);
    let simplify = rng.chance(65);
    let brk = rng.chance(50);
    l(vec![
        l(vec![t::repr(&r), conv::direction(&dir), t::decomposition(&dec), conv::boolean(simplify), conv::boolean(brk)]),
        conv::program(&left),
        conv::program(&right),
    ])
}
fn run_strong_decompose_full(e: &Sexp) -> R<Sexp> {
    match e.as_list()? {
        [flags, left, right] => match flags.as_list()? {
            [r, dir, dec, simplify, brk] => {
                let r = t::parse_repr(r)?;
                let simplify = conv::parse_bool(simplify)?;
                let left = conv::parse_program(left)?;
                let right = conv::parse_program(right)?;
                if !loops_terminate(r, simplify, &left, &right) {
                    return Ok(l(vec![a("nonterminating")]));
                }
                let ps = real_decompose(r, conv::parse_direction(dir)?, t::parse_decomposition(dec)?, simplify, conv::parse_bool(brk)?, &left, &right)?;
                Ok(t::problems(&ps))
            }
            _ => Err("strong_decompose_full: flags".into()),
        },
        _ => Err("strong_decompose_full: (flags left right) expected".into()),
    }
}

/// all 8 flag combinations of one task: input ((repr dir) L R),
/// output (families (family (simplify eq-break decomposition) problem..)..) as `strong_families`
const FAMILY_FLAGS: [(bool, bool, Decomposition); 8] = [
    (true, true, Decomposition::Sequential),
    (true, true, Decomposition::Independent),
    (true, false, Decomposition::Sequential),
    (true, false, Decomposition::Independent),
    (false, true, Decomposition::Sequential),
    (false, true, Decomposition::Independent),
    (false, false, Decomposition::Sequential),
    (false, false, Decomposition::Independent),
];
fn gen_strong_families_full(rng: &mut Rng) -> Sexp {
    let (left, right) = pair(rng);
    let r = if rng.chance(50) { FormulaRepresentation::Mu } else { FormulaRepresentation::TauStar };
    let dir = t::direction(rng);
    l(vec![l(vec![t::repr(&r), conv::direction(&dir)]), conv::program(&left), conv::program(&right)])
}
fn run_strong_families_full(e: &Sexp) -> R<Sexp> {
    match e.as_list()? {
        [flags, left, right] => match flags.as_list()? {
            [r, dir] => {
                let r = t::parse_repr(r)?;
                let dir = conv::parse_direction(dir)?;
                let left = conv::parse_program(left)?;
                let right = conv::parse_program(right)?;
                if !loops_terminate(r, true, &left, &right) {
                    return Ok(l(vec![a("nonterminating")]));
                }
                let mut fams = vec![];
                for (simplify, brk, dec) in FAMILY_FLAGS {
                    let ps = real_decompose(r, dir, dec, simplify, brk, &left, &right)?;
                    let mut items = vec![l(vec![conv::boolean(simplify), conv::boolean(brk), t::decomposition(&dec)])];
                    items.extend(ps.iter().map(conv::problem));
                    fams.push(tagged("family", items));
                }
                Ok(tagged("families", fams))
            }
            _ => Err("strong_families_full: flags".into()),
        },
        _ => Err("strong_families_full: ((repr dir) left right) expected".into()),
    }
}

// ---- C07verify: the simplification steps INSIDE verify.  Pairs on which the pre-gamma pass must keep
// the here-and-there meaning: double negations in bodies and choice heads are frequent, the programs
// are tiny and arithmetic-free (the fragment on which sem_c03_full / sem_c19_strong_full are exact),
// and the right program is mostly the left one with ONE negation depth or head kind changed
// (`not not a` <-> `a` <-> `not a`, `{a}` <-> `a`, a rule dropped): claims that are true classically
// and false in HT, or the other way round.

fn nn_atom(rng: &mut Rng, preds: &[(&str, usize)]) -> asp::Atom {
    let (p, n) = *rng.pick(preds);
    let terms = (0..n)
        .map(|_| match rng.weighted(&[6, 2, 2]) {
            0 => asp::Term::Variable(asp::Variable("X".to_string())),
            1 => asp::Term::PrecomputedTerm(asp::PrecomputedTerm::Symbol("a".to_string())),
            _ => asp::Term::PrecomputedTerm(asp::PrecomputedTerm::Numeral(1)),
        })
        .collect();
    asp::Atom { predicate_symbol: p.to_string(), terms }
}
fn nn_sign(rng: &mut Rng) -> asp::Sign {
    match rng.weighted(&[3, 2, 5]) {
        0 => asp::Sign::NoSign,
        1 => asp::Sign::Negation,
        _ => asp::Sign::DoubleNegation,
    }
}
fn nn_rule(rng: &mut Rng, preds: &[(&str, usize)]) -> asp::Rule {
    let head = match rng.weighted(&[5, 5, 1]) {
        0 => asp::Head::Basic(nn_atom(rng, preds)),
        1 => asp::Head::Choice(nn_atom(rng, preds)),
        _ => asp::Head::Falsity,
    };
    let n = rng.weighted(&[2, 5, 3]);
    let n = if matches!(head, asp::Head::Falsity) { n.max(1) } else { n };
    let formulas = (0..n)
        .map(|_| asp::AtomicFormula::Literal(asp::Literal { sign: nn_sign(rng), atom: nn_atom(rng, preds) }))
        .collect();
    asp::Rule { head, body: asp::Body { formulas } }
}
/// one negation depth or one head kind of `p` changed, or one rule dropped / added
fn nn_variant(rng: &mut Rng, p: &asp::Program, preds: &[(&str, usize)]) -> asp::Program {
    let mut q = p.clone();
    let k = rng.below(q.rules.len());
    match rng.weighted(&[5, 3, 1, 1, 1]) {
        0 => {
            let lits: Vec<usize> = (0..q.rules[k].body.formulas.len()).collect();
            if lits.is_empty() {
                q.rules[k].body.formulas.push(asp::AtomicFormula::Literal(asp::Literal { sign: asp::Sign::DoubleNegation, atom: nn_atom(rng, preds) }));
            } else {
                let i = *rng.pick(&lits);
                if let asp::AtomicFormula::Literal(l) = &mut q.rules[k].body.formulas[i] {
                    l.sign = match l.sign {
                        asp::Sign::DoubleNegation => if rng.chance(80) { asp::Sign::NoSign } else { asp::Sign::Negation },
                        asp::Sign::NoSign => asp::Sign::DoubleNegation,
                        asp::Sign::Negation => asp::Sign::DoubleNegation,
                    };
                }
            }
        }
        1 => {
            q.rules[k].head = match q.rules[k].head.clone() {
                asp::Head::Choice(a) => asp::Head::Basic(a),
                asp::Head::Basic(a) => asp::Head::Choice(a),
                asp::Head::Falsity => asp::Head::Choice(nn_atom(rng, preds)),
            };
        }
        2 => {
            if q.rules.len() > 1 {
                q.rules.remove(k);
            } else {
                // `p :- not not p.` / `{p}.` against `p :- p.`
                if let Some(asp::AtomicFormula::Literal(l)) = q.rules[k].body.formulas.first_mut() {
                    l.sign = asp::Sign::NoSign;
                }
            }
        }
        3 => q.rules.push(nn_rule(rng, preds)),
        _ => q.rules.reverse(),
    }
    q
}
fn verify_pair(rng: &mut Rng) -> (asp::Program, asp::Program) {
    let preds: &[(&str, usize)] = match rng.below(4) {
        0 => &[("p", 0)],
        1 => &[("p", 0), ("q", 0)],
        2 => &[("p", 0), ("q", 0), ("r", 1)],
        _ => &[("p", 1), ("q", 0)],
    };
    let n = 1 + rng.weighted(&[5, 3, 1]);
    let mut left = asp::Program { rules: (0..n).map(|_| nn_rule(rng, preds)).collect() };
    if rng.chance(25) {
        // the textbook shapes: `p :- not not p.` and `{p}.`
        let a = nn_atom(rng, &preds[..1]);
        left.rules[0] = if rng.chance(50) {
            asp::Rule { head: asp::Head::Basic(a.clone()), body: asp::Body { formulas: vec![asp::AtomicFormula::Literal(asp::Literal { sign: asp::Sign::DoubleNegation, atom: a })] } }
        } else {
            asp::Rule { head: asp::Head::Choice(a), body: asp::Body { formulas: vec![] } }
        };
    }
    let right = if rng.chance(85) {
        nn_variant(rng, &left, preds)
    } else {
        asp::Program { rules: (0..n).map(|_| nn_rule(rng, preds)).collect() }
    };
    if rng.chance(50) { (left, right) } else { (right, left) }
}
fn gen_strong_decompose_verify(rng: &mut Rng) -> Sexp {
    let (left, right) = verify_pair(rng);
    let r = if rng.chance(35) { FormulaRepresentation::Mu } else { FormulaRepresentation::TauStar };
    let dir = t::direction(rng);
    let dec = t::gen_decomposition(rng);
    // `verify` simplifies unless --no-simplify is given
    let simplify = rng.chance(85);
    let brk = rng.chance(50);
    l(vec![
        l(vec![t::repr(&r), conv::direction(&dir), t::decomposition(&dec), conv::boolean(simplify), conv::boolean(brk)]),
        conv::program(&left),
        conv::program(&right),
    ])
}
fn gen_strong_families_verify(rng: &mut Rng) -> Sexp {
    let (left, right) = verify_pair(rng);
    let r = if rng.chance(35) { FormulaRepresentation::Mu } else { FormulaRepresentation::TauStar };
    let dir = t::direction(rng);
    l(vec![l(vec![t::repr(&r), conv::direction(&dir)]), conv::program(&left), conv::program(&right)])
}

pub fn ops() -> Vec<Op> {
    vec![
        Op { name: "strong_decompose_verify", generate: gen_strong_decompose_verify, run: run_strong_decompose_full },
        Op { name: "strong_families_verify", generate: gen_strong_families_verify, run: run_strong_families_full },
        Op { name: "mu", generate: gen_mu, run: run_mu },
        Op { name: "strong_decompose_full", generate: gen_strong_decompose_full, run: run_strong_decompose_full },
        Op { name: "strong_families_full", generate: gen_strong_families_full, run: run_strong_families_full },
    ]
}
