//! Cluster `headpred` (C19ext: role stability of external equivalence under simplification).
//!   external_roles  (external spec program ug outline dec dir repr bypass simplify break)
//!       -> (families (family (simplify eq-break decomposition) problem..)..) | (err ..) | (panic)
//!          | (nonterminating)
//!       the real `ExternalEquivalenceTask{..}.decompose()` under all 8 flag combinations; the
//!       model side is Model/ExternalFull.external_decompose_full (no component tables).
//! The generator aims at the shapes on which the classification by `head_predicate` could depend
//! on the simplification: private predicates defined by facts (`aux.` -> `aux <-> #true`), by
//! rules whose body simplifies to #true / #false (`aux :- 1 = 1.`, `aux :- 1 != 1.`), by no rule
//! at all (`aux <-> #false`), first-order private facts, constraints that pass through
//! `not not F => F`, shared private predicates (renamed `_p` on the program side).
use super::Op;
use crate::{
    ext::{compext as x, tasks as t},
    rng::Rng,
    sexp::{Sexp, a, l, tagged},
    conv,
};
use anthem::{
    syntax_tree::{asp::mini_gringo as asp, fol::sigma_0 as fol},
    verif::{
        arguments::{Decomposition, FormulaRepresentation},
        task::{Task as _, external_equivalence::{ExternalEquivalenceTask, ExternalEquivalenceTaskError}},
    },
};
use either::Either;

type R<T> = Result<T, String>;

const FAMILY_FLAGS: [(bool, bool, Decomposition); 8] = [
    (true, true, Decomposition::Sequential),
    (true, true, Decomposition::Independent),
    (true, false, Decomposition::Sequential),
    (true, false, Decomposition::Independent),
    (false, true, Decomposition::Sequential),
    (false, true, Decomposition::Independent),
    (false, false, Decomposition::Sequential),
    (false, false, Decomposition::Independent),
];

const AUX_DEFS: &[&str] = &[
    "aux.",
    "aux.",
    "aux :- 1 = 1.",
    "aux :- a = a.",
    "aux :- 1 != 1.",
    "aux :- t.",
    "aux :- not t.",
    "aux :- not not t.",
    "aux :- in(1).",
    "aux :- in(X), X = X.",
    "aux. aux :- t.",
    "aux :- t. aux :- not t.",
    "",
];
const ON_DEFS: &[&str] = &["on.", "on.", "on :- 2 > 1.", "on :- t, not t.", "on :- in(a).", ""];
const R_DEFS: &[&str] = &[
    "r(1).",
    "r(a).",
    "r(1). r(2).",
    "r(X) :- in(X).",
    "r(X) :- in(X), X = X.",
    "r(X) :- in(X), not t.",
    "r(X) :- X = 1.",
    "r(X) :- in(X), 1 = 1.",
    "r(1..2).",
    "r(X) :- in(X), aux.",
    "",
];
const OUT_RULES: &[&str] = &[
    "out(X) :- in(X), aux.",
    "out(X) :- in(X), not aux.",
    "out(X) :- r(X).",
    "out(X) :- in(X), not r(X).",
    "out(X) :- in(X), on.",
    "out(X) :- in(X).",
    "q :- aux.",
    "q :- t, on.",
    "q :- t.",
    "q :- not aux, t.",
    "q :- r(1).",
    "q.",
    "{q} :- aux.",
    "{out(X)} :- r(X).",
];
const CONSTRAINTS: &[&str] = &[
    ":- not aux.",
    ":- not not aux.",
    ":- aux, not aux.",
    ":- in(X), not r(X).",
    ":- on, aux.",
    ":- t, not on.",
    ":- r(X), X != X.",
];

fn ext_error(e: &ExternalEquivalenceTaskError) -> Sexp {
    t::ext_error(e)
}

fn side(rng: &mut Rng) -> String {
    let mut s = String::new();
    let push = |s: &mut String, x: &str| {
        if !x.is_empty() {
            s.push_str(x);
            s.push('\n');
        }
    };
    if rng.chance(75) {
        push(&mut s, *rng.pick(AUX_DEFS));
    }
    if rng.chance(40) {
        push(&mut s, *rng.pick(ON_DEFS));
    }
    if rng.chance(50) {
        push(&mut s, *rng.pick(R_DEFS));
    }
    for _ in 0..1 + rng.below(3) {
        push(&mut s, *rng.pick(OUT_RULES));
    }
    // 0-3 constraints (`constraint_0`, `constraint_1`, .. in control_translate)
    for _ in 0..rng.weighted(&[62, 24, 10, 4]) {
        push(&mut s, *rng.pick(CONSTRAINTS));
    }
    s
}

fn gen_roles_task(rng: &mut Rng) -> ExternalEquivalenceTask {
    // 25%: the small accepted tasks of the compext cluster (shared private q/1), for breadth
    if rng.chance(25) {
        return x::small_task(rng);
    }
    let left = side(rng);
    let right = match rng.below(4) {
        0 => left.clone(),
        _ => side(rng),
    };
    let parse = |s: &str| -> asp::Program { s.parse().expect("headpred generator: template does not parse") };
    let mut entries = vec![];
    let pred = |p: &str, n: usize| fol::Predicate { symbol: p.to_string(), arity: n };
    entries.push(fol::UserGuideEntry::InputPredicate(pred("in", 1)));
    entries.push(fol::UserGuideEntry::InputPredicate(pred("t", 0)));
    entries.push(fol::UserGuideEntry::OutputPredicate(pred("out", 1)));
    entries.push(fol::UserGuideEntry::OutputPredicate(pred("q", 0)));
    // sometimes a "private" predicate is public after all (its definition is then a Spec)
    if rng.chance(15) {
        entries.push(fol::UserGuideEntry::OutputPredicate(pred("aux", 0)));
    }
    if rng.chance(10) {
        entries.push(fol::UserGuideEntry::OutputPredicate(pred("r", 1)));
    }
    ExternalEquivalenceTask {
        specification: Either::Left(parse(&left)),
        program: parse(&right),
        user_guide: fol::UserGuide { entries },
        proof_outline: fol::Specification { formulas: vec![] },
        decomposition: t::gen_decomposition(rng),
        direction: t::direction(rng),
        formula_representation: FormulaRepresentation::TauStar,
        bypass_tightness: false,
        simplify: true,
        break_equivalences: rng.chance(50),
    }
}

fn gen_external_roles(rng: &mut Rng) -> Sexp {
    x::task_sexp(&gen_roles_task(rng))
}

fn run_external_roles(e: &Sexp) -> R<Sexp> {
    // the only unbounded loop is the classic fixpoint: pre-flight it with the model's fuel
    let mut probe = x::parse_task(e)?;
    probe.simplify = true;
    let pre = x::preflight(&probe);
    let mut fams = vec![];
    for (simplify, brk, dec) in FAMILY_FLAGS {
        let mut tk = x::parse_task(e)?;
        tk.simplify = simplify;
        tk.break_equivalences = brk;
        tk.decomposition = dec;
        if simplify && pre == x::Preflight::Nonterminating {
            // validation errors come first (they do not depend on the flag)
            let mut off = x::parse_task(e)?;
            off.simplify = false;
            return Ok(match std::panic::catch_unwind(std::panic::AssertUnwindSafe(|| off.decompose())) {
                Ok(Err(err)) => ext_error(&err),
                _ => l(vec![a("nonterminating")]),
            });
        }
        let flags = l(vec![conv::boolean(simplify), conv::boolean(brk), t::decomposition(&dec)]);
        // a panic propagates to the harness loop, which prints (panic)
        match tk.decompose() {
            Ok(w) => {
                let mut items = vec![flags];
                items.extend(w.data.iter().map(conv::problem));
                fams.push(tagged("family", items));
            }
            Err(err) => return Ok(ext_error(&err)),
        }
    }
    Ok(tagged("families", fams))
}

pub fn ops() -> Vec<Op> {
    vec![Op { name: "external_roles", generate: gen_external_roles, run: run_external_roles }]
}
