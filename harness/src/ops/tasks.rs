//! Implementation-side operations of the `tasks` cluster (C02, C03, C11enforce, C13, C19).
use super::Op;
use crate::{
    conv,
    ext::tasks as t,
    generate as g,
    rng::Rng,
    sexp::{Sexp, a, l, s, tagged},
};
use anthem::{
    syntax_tree::{asp::mini_gringo as asp, fol::sigma_0 as fol},
    verif::{
        arguments::{Decomposition, FormulaRepresentation},
        breaking_fol::sigma_0::ht as brk,
        outline, problem as pb,
        task::{
            Task as _,
            external_equivalence::{ExternalEquivalenceTask, ExternalEquivalenceTaskError, ExternalEquivalenceTaskWarning},
            strong_equivalence::StrongEquivalenceTask,
        },
    },
};
use either::Either;

type R<T> = Result<T, String>;

fn skipped(why: &str) -> Sexp {
    tagged("skipped", vec![s(why)])
}
fn is_skipped(e: &Sexp) -> bool {
    matches!(e.tag(), Some(("skipped", _)))
}
fn none() -> Sexp {
    tagged("none", vec![])
}

// ------------------------------------------------------------------ break_equivalences_*

fn gen_break_formula(rng: &mut Rng) -> Sexp {
    conv::formula(&breakable_formula(rng))
}
fn breakable_formula(rng: &mut Rng) -> fol::Formula {
    let cfg = if rng.chance(50) { g::Cfg::tight() } else { g::Cfg::default() };
    let depth = 1 + rng.below(3);
    // a universal prefix (possibly nested, possibly with an existential in between, possibly an
    // empty block) over an equivalence / another connective
    let mut f = if rng.chance(70) {
        t::bin(fol::BinaryConnective::Equivalence, g::formula(rng, &cfg, depth), g::formula(rng, &cfg, depth))
    } else {
        g::formula(rng, &cfg, depth + 1)
    };
    let n = rng.below(4);
    for _ in 0..n {
        let vs = if rng.chance(8) { vec![] } else { g::binders(rng, &cfg) };
        let q = if rng.chance(85) { fol::Quantifier::Forall } else { fol::Quantifier::Exists };
        f = fol::Formula::QuantifiedFormula { quantification: fol::Quantification { quantifier: q, variables: vs }, formula: f.into() };
    }
    f
}
fn run_break_formula(e: &Sexp) -> R<Sexp> {
    Ok(conv::theory(&brk::break_equivalences_formula(conv::parse_formula(e)?)))
}
fn gen_break_theory(rng: &mut Rng) -> Sexp {
    let n = g::count(rng, 3);
    conv::theory(&fol::Theory { formulas: (0..n).map(|_| breakable_formula(rng)).collect() })
}
fn run_break_theory(e: &Sexp) -> R<Sexp> {
    Ok(conv::theory(&brk::break_equivalences_theory(conv::parse_theory(e)?)))
}
fn gen_break_annot(rng: &mut Rng) -> Sexp {
    conv::annot(&fol::AnnotatedFormula {
        role: *rng.pick(&[fol::Role::Spec, fol::Role::Assumption, fol::Role::Lemma]),
        direction: t::direction(rng),
        name: t::adversarial_name(rng),
        formula: breakable_formula(rng),
    })
}
fn run_break_annot(e: &Sexp) -> R<Sexp> {
    Ok(conv::specification(&brk::break_equivalences_annotated_formula(conv::parse_annot(e)?)))
}

// ------------------------------------------------------------------ problems

fn gen_pformula(rng: &mut Rng, cfg: &g::Cfg) -> pb::AnnotatedFormula {
    let depth = rng.below(3);
    pb::AnnotatedFormula {
        name: t::adversarial_name(rng),
        role: if rng.chance(55) { pb::Role::Axiom } else { pb::Role::Conjecture },
        formula: g::formula(rng, cfg, depth),
    }
}
fn gen_problem(rng: &mut Rng) -> pb::Problem {
    // symbols that clash with 0-ary predicates, so that rename_conflicting_symbols fires
    let cfg = g::Cfg {
        preds: vec!["p", "q", "hp", "a"],
        symbols: vec!["a", "p", "hp", "a__s", "b"],
        max_arity: 1,
        ..g::Cfg::tight()
    };
    // 4 %: 11-14 formulas, mostly conjectures: sub-problem names `{name}_{i}` and `formula_{i}` names with
    // two-digit indices (audit 2, B16: every printed index was one digit)
    let many = rng.chance(4);
    let n = if many { 11 + rng.below(4) } else { g::count(rng, 5) };
    pb::Problem {
        name: rng.pick(&["problem", "", "forward", "_x"]).to_string(),
        interpretation: pb::Interpretation::Standard,
        formulas: (0..n)
            .map(|_| {
                let mut f = gen_pformula(rng, &cfg);
                if many && rng.chance(85) {
                    f.role = pb::Role::Conjecture;
                }
                f
            })
            .collect(),
    }
}
fn gen_problem_decompose(rng: &mut Rng) -> Sexp {
    l(vec![t::decomposition(&t::gen_decomposition(rng)), conv::problem(&gen_problem(rng))])
}
fn run_problem_decompose(e: &Sexp) -> R<Sexp> {
    match e.as_list()? {
        [d, p] => {
            let p = conv::parse_problem(p)?;
            Ok(t::problems(&p.decompose(t::parse_decomposition(d)?)))
        }
        _ => Err("problem_decompose: (strategy problem) expected".into()),
    }
}
/// (name (pf ..)..): with_name(name).add_annotated_formulas(..).rename_conflicting_symbols()
/// .create_unique_formula_names()
fn gen_problem_assembly(rng: &mut Rng) -> Sexp {
    let p = gen_problem(rng);
    l(vec![s(&p.name), t::pformulas(&p.formulas)])
}
fn run_problem_assembly(e: &Sexp) -> R<Sexp> {
    match e.as_list()? {
        [n, fs] => {
            let fs = fs.as_list()?.iter().map(conv::parse_pformula).collect::<R<Vec<_>>>()?;
            let p = pb::Problem::with_name(conv::string_of(n)?)
                .add_annotated_formulas(fs)
                .rename_conflicting_symbols()
                .create_unique_formula_names();
            Ok(tagged(
                "assembled",
                vec![
                    conv::problem(&p),
                    t::preds_sexp(p.predicates().iter()),
                    l(p.symbols().iter().map(|x| s(x)).collect()),
                    l(p.function_constants().iter().map(conv::fconst).collect()),
                ],
            ))
        }
        _ => Err("problem_assembly: (name formulas) expected".into()),
    }
}

// ------------------------------------------------------------------ strong equivalence

fn flags_sexp(r: FormulaRepresentation, dir: fol::Direction, dec: Decomposition, simplify: bool, brk: bool) -> Sexp {
    l(vec![t::repr(&r), conv::direction(&dir), t::decomposition(&dec), conv::boolean(simplify), conv::boolean(brk)])
}
fn gen_strong_decompose(rng: &mut Rng) -> Sexp {
    let simple = rng.chance(50);
    let (left, right) = t::strong_pair(rng, simple);
    let r = if rng.chance(50) { FormulaRepresentation::Mu } else { FormulaRepresentation::TauStar };
    let dir = t::direction(rng);
    let dec = t::gen_decomposition(rng);
    let simplify = rng.chance(60);
    let brk = rng.chance(60);
    match t::strong_components(&[&left, &right], &[r], &[simplify]) {
        None => skipped("fixpoint-bound"),
        Some(c) => l(vec![flags_sexp(r, dir, dec, simplify, brk), conv::program(&left), conv::program(&right), c]),
    }
}
fn strong_problems(r: FormulaRepresentation, dir: fol::Direction, dec: Decomposition, simplify: bool, brk: bool, left: &asp::Program, right: &asp::Program) -> R<Vec<pb::Problem>> {
    let task = StrongEquivalenceTask {
        left: left.clone(),
        right: right.clone(),
        decomposition: dec,
        direction: dir,
        formula_representation: r,
        simplify,
        break_equivalences: brk,
    };
    match task.decompose() {
        Ok(w) => Ok(w.data),
        Err(_) => Err("strong task error".into()),
    }
}
fn run_strong_decompose(e: &Sexp) -> R<Sexp> {
    if is_skipped(e) {
        return Ok(none());
    }
    match e.as_list()? {
        [flags, left, right, _components] => match flags.as_list()? {
            [r, dir, dec, simplify, brk] => {
                let ps = strong_problems(
                    t::parse_repr(r)?,
                    conv::parse_direction(dir)?,
                    t::parse_decomposition(dec)?,
                    conv::parse_bool(simplify)?,
                    conv::parse_bool(brk)?,
                    &conv::parse_program(left)?,
                    &conv::parse_program(right)?,
                )?;
                Ok(t::problems(&ps))
            }
            _ => Err("strong_decompose: flags".into()),
        },
        _ => Err("strong_decompose: (flags left right components) expected".into()),
    }
}

/// all 8 flag combinations for one pair / representation / direction:
/// input ((repr dir) L R components), output (families (family (simplify eq-break decomposition) problem..)..)
const FAMILY_FLAGS: [(bool, bool, Decomposition); 8] = [
    (true, true, Decomposition::Sequential),
    (true, true, Decomposition::Independent),
    (true, false, Decomposition::Sequential),
    (true, false, Decomposition::Independent),
    (false, true, Decomposition::Sequential),
    (false, true, Decomposition::Independent),
    (false, false, Decomposition::Sequential),
    (false, false, Decomposition::Independent),
];
fn gen_strong_families(rng: &mut Rng) -> Sexp {
    let simple = rng.chance(75);
    let (left, right) = t::strong_pair(rng, simple);
    let r = if rng.chance(50) { FormulaRepresentation::Mu } else { FormulaRepresentation::TauStar };
    let dir = *rng.pick(&[fol::Direction::Forward, fol::Direction::Backward, fol::Direction::Universal]);
    match t::strong_components(&[&left, &right], &[r], &[true]) {
        None => skipped("fixpoint-bound"),
        Some(c) => l(vec![l(vec![t::repr(&r), conv::direction(&dir)]), conv::program(&left), conv::program(&right), c]),
    }
}
fn run_strong_families(e: &Sexp) -> R<Sexp> {
    if is_skipped(e) {
        return Ok(none());
    }
    match e.as_list()? {
        [flags, left, right, _components] => match flags.as_list()? {
            [r, dir] => {
                let r = t::parse_repr(r)?;
                let dir = conv::parse_direction(dir)?;
                let left = conv::parse_program(left)?;
                let right = conv::parse_program(right)?;
                let mut fams = vec![];
                for (simplify, brk, dec) in FAMILY_FLAGS {
                    let ps = strong_problems(r, dir, dec, simplify, brk, &left, &right)?;
                    let mut items = vec![l(vec![conv::boolean(simplify), conv::boolean(brk), t::decomposition(&dec)])];
                    items.extend(ps.iter().map(conv::problem));
                    fams.push(tagged("family", items));
                }
                Ok(tagged("families", fams))
            }
            _ => Err("strong_families: flags".into()),
        },
        _ => Err("strong_families: ((repr dir) left right components) expected".into()),
    }
}

// ------------------------------------------------------------------ proof outlines

/// the antecedent comparison of an inductive lemma `ante -> F`, possibly under quantifier blocks
fn antecedent_mut(f: &mut fol::Formula) -> Option<&mut fol::Comparison> {
    use fol::Formula as F;
    match f {
        F::QuantifiedFormula { formula, .. } => antecedent_mut(formula),
        F::BinaryFormula { connective: fol::BinaryConnective::Implication, lhs, .. } => match lhs.as_mut() {
            F::AtomicFormula(fol::AtomicFormula::Comparison(c)) => Some(c),
            _ => None,
        },
        _ => None,
    }
}
/// seeded/C13_r6: a third of the inductive lemmas get a comparison CHAIN as antecedent, `N >= n <rel> t [<rel> t]`
/// (2-3 guards).  anthem refuses every one of them (MalformedInductiveAntecedent: exactly one guard).  The extra
/// guards range over what makes the class dangerous and what does not: the induction variable itself
/// (`>= n != N`, `>= n < N`: the chain excludes the base point, base + step no longer give the lemma), `N + 1`,
/// the bound again (`>= n >= n`), another numeral (`>= n < m`).  Counted as `@inductive-chain-antecedent`,
/// `@inductive-chain-3-guards` (harness/src/features.rs).
fn chain_antecedents(rng: &mut Rng, spec: &mut fol::Specification) {
    use fol::{GeneralTerm as G, IntegerTerm as I, Relation as Rl};
    for af in spec.formulas.iter_mut() {
        if af.role != fol::Role::InductiveLemma || !rng.chance(34) {
            continue;
        }
        let Some(c) = antecedent_mut(&mut af.formula) else { continue };
        c.guards.truncate(1);
        let Some(first) = c.guards.first().cloned() else { continue };
        let extra = if rng.chance(70) { 1 } else { 2 };
        for _ in 0..extra {
            let relation = match rng.weighted(&[3, 3, 1, 1, 1, 1]) {
                0 => Rl::NotEqual,
                1 => Rl::Less,
                2 => Rl::LessEqual,
                3 => Rl::Greater,
                4 => Rl::GreaterEqual,
                _ => Rl::Equal,
            };
            let term = match rng.weighted(&[5, 3, 2, 1]) {
                0 => c.term.clone(),
                1 => G::IntegerTerm(I::Numeral(rng.range(-2, 3) as isize)),
                2 => first.term.clone(),
                _ => match &c.term {
                    G::IntegerTerm(t) => G::IntegerTerm(I::BinaryOperation { op: fol::BinaryOperator::Add, lhs: t.clone().into(), rhs: I::Numeral(1).into() }),
                    t => t.clone(),
                },
            };
            c.guards.push(fol::Guard { relation, term });
        }
    }
}

/// (spec taken_predicates placeholders)
fn gen_proof_outline(rng: &mut Rng) -> Sexp {
    // sometimes the task also has a renamed private predicate (`q_p`, see ExternalEquivalenceTask)
    let known: &[(&str, usize)] = if rng.chance(75) { &[("in", 1), ("out", 1), ("q", 1), ("r", 0)] } else { &[("in", 1), ("out", 1), ("q", 1), ("r", 0), ("q_p", 1)] };
    let mut spec = t::outline(rng, known, 4);
    chain_antecedents(rng, &mut spec);
    let mut taken: Vec<fol::Predicate> = known.iter().map(|(p, n)| fol::Predicate { symbol: p.to_string(), arity: *n }).collect();
    if rng.chance(10) {
        taken.push(fol::Predicate { symbol: "aux".into(), arity: 1 });
    }
    let ph: Vec<(String, fol::Sort)> = match rng.below(4) {
        0 => vec![("n".into(), fol::Sort::Integer)],
        1 => vec![("a".into(), fol::Sort::General), ("n".into(), fol::Sort::Symbol)],
        _ => vec![],
    };
    l(vec![conv::specification(&spec), t::preds_sexp(taken.iter()), t::placeholders_sexp(&ph)])
}
fn run_proof_outline(e: &Sexp) -> R<Sexp> {
    match e.as_list()? {
        [spec, taken, ph] => {
            let spec = conv::parse_specification(spec)?;
            let taken = t::parse_preds(taken)?;
            let ph = t::placeholder_map(&t::parse_placeholders(ph)?);
            match outline::ProofOutline::from_specification(spec, taken, &ph) {
                Ok(w) => Ok(tagged("ok", vec![t::proof_outline(&w.data), t::po_warnings(&w.warnings)])),
                Err(err) => Ok(t::po_error(&err)),
            }
        }
        _ => Err("proof_outline: (spec taken placeholders) expected".into()),
    }
}

// ------------------------------------------------------------------ external equivalence

fn ext_error(e: &ExternalEquivalenceTaskError) -> Sexp {
    t::ext_error(e)
}
fn ext_warning(w: &ExternalEquivalenceTaskWarning) -> Sexp {
    t::ext_warning(w)
}

fn var(x: &str) -> asp::Term {
    asp::Term::Variable(asp::Variable(x.into()))
}
fn lit(p: &str, args: Vec<asp::Term>) -> asp::AtomicFormula {
    asp::AtomicFormula::Literal(asp::Literal { sign: asp::Sign::NoSign, atom: asp::Atom { predicate_symbol: p.into(), terms: args } })
}
fn basic(p: &str, args: Vec<asp::Term>, body: Vec<asp::AtomicFormula>) -> asp::Rule {
    asp::Rule { head: asp::Head::Basic(asp::Atom { predicate_symbol: p.into(), terms: args }), body: asp::Body { formulas: body } }
}

/// a stratified program: rules for the predicates of `order` (privates first, then outputs) whose
/// bodies mention only inputs and predicates earlier in the order: tight, no private recursion
fn stratified_program(rng: &mut Rng, inputs: &[(&str, usize)], order: &[(&str, usize)], syms: &[&'static str], arith: bool) -> asp::Program {
    let mut rules = vec![];
    let mut avail: Vec<(&str, usize)> = inputs.to_vec();
    for (i, h) in order.iter().enumerate() {
        let heads = [*h];
        let n = if rng.chance(12) { 0 } else { 1 + rng.below(2) };
        for _ in 0..n {
            let c = t::PCfg {
                preds: &avail,
                head_preds: &heads,
                vars: &["X", "Y"],
                syms,
                arith,
                max_rules: 1,
                max_body: 2,
                choice: i + 1 == order.len() || rng.chance(10),
                constraints: false,
            };
            rules.push(t::p_rule(rng, &c));
        }
        avail.push(*h);
    }
    // 0-3 constraints: control_translate numbers them `constraint_0`, `constraint_1`, .. per side
    // (audit 2, B16: k >= 1 was reached by the `_full` op only)
    let n_constraints = rng.weighted(&[64, 22, 10, 4]);
    for _ in 0..n_constraints {
        let c = t::PCfg { preds: &avail, head_preds: &avail, vars: &["X", "Y"], syms, arith, max_rules: 1, max_body: 2, choice: false, constraints: true };
        rules.push(asp::Rule { head: asp::Head::Falsity, body: t::p_body(rng, &c) });
    }
    asp::Program { rules }
}

/// plant one violation of an applicability condition into a program
fn plant_program_violation(rng: &mut Rng, p: &mut asp::Program, private: &[(&str, usize)], outputs: &[(&str, usize)], inputs: &[(&str, usize)]) {
    let args = |n: usize| -> Vec<asp::Term> { (0..n).map(|i| var(["X", "Y", "Z"][i % 3])).collect() };
    match rng.below(5) {
        0 => {
            // positive recursion through an output predicate: not tight, no private recursion
            let (o, n) = *rng.pick(outputs);
            p.rules.push(basic(o, args(n), vec![lit(o, args(n))]));
        }
        1 if !private.is_empty() => {
            // recursion through a private predicate: not tight AND private recursion
            let (q, n) = *rng.pick(private);
            p.rules.push(basic(q, args(n), vec![lit(q, args(n))]));
        }
        2 if !private.is_empty() => {
            // private recursion through negation (tight): q :- not q'. q' :- not q.
            let (q, n) = *rng.pick(private);
            p.rules.push(asp::Rule {
                head: asp::Head::Basic(asp::Atom { predicate_symbol: q.into(), terms: args(n) }),
                body: asp::Body {
                    formulas: vec![asp::AtomicFormula::Literal(asp::Literal {
                        sign: asp::Sign::Negation,
                        atom: asp::Atom { predicate_symbol: q.into(), terms: args(n) },
                    })],
                },
            });
        }
        3 if !private.is_empty() => {
            // choice rule with a private head
            let (q, n) = *rng.pick(private);
            p.rules.push(asp::Rule { head: asp::Head::Choice(asp::Atom { predicate_symbol: q.into(), terms: args(n) }), body: asp::Body { formulas: vec![] } });
        }
        _ => {
            // an input predicate heads a rule; 35 %: every input predicate does, in reverse order of declaration
            // (the payload of InputPredicateInRuleHead lists them in the order of the input declarations)
            if inputs.len() >= 2 && rng.chance(35) {
                for (i, n) in inputs.iter().rev() {
                    p.rules.push(basic(i, args(*n), vec![]));
                }
            } else {
                let (i, n) = *rng.pick(inputs);
                p.rules.push(basic(i, args(n), vec![]));
            }
        }
    }
}

fn pr(p: &str, n: usize) -> fol::Predicate {
    fol::Predicate { symbol: p.into(), arity: n }
}

fn gen_external_task(rng: &mut Rng) -> ExternalEquivalenceTask {
    let all_inputs: &[(&str, usize)] = &[("in", 1), ("in2", 0), ("in", 2)];
    let all_outputs: &[(&str, usize)] = &[("out", 1), ("out2", 0), ("out", 2)];
    let n_in = 1 + rng.weighted(&[6, 3, 1]);
    let n_out = 1 + rng.weighted(&[6, 3, 1]);
    let inputs = &all_inputs[..n_in.min(3)];
    let outputs = &all_outputs[..n_out.min(3)];
    // private predicates: the same names on both sides (renaming), `q_p` next to `q` (clash F9)
    let priv_prog: &[(&str, usize)] = *rng.pick(&[&[][..], &[("q", 1)][..], &[("q", 1), ("q_p", 1)][..], &[("r", 0), ("q", 1)][..], &[("q", 2)][..]]);
    let priv_spec: &[(&str, usize)] = *rng.pick(&[&[][..], &[("q", 1)][..], &[("q", 1), ("r", 0)][..], &[("s", 1)][..], &[("q_p", 1)][..]]);
    let placeholders: Vec<(String, fol::Sort)> = match rng.below(6) {
        0 => vec![("n".into(), fol::Sort::Integer)],
        1 => vec![("n".into(), fol::Sort::General), ("a".into(), fol::Sort::Symbol)],
        2 => vec![("n".into(), fol::Sort::Integer), ("n".into(), fol::Sort::Integer)],
        _ => vec![],
    };
    let syms: &[&'static str] = &["a", "n", "b"];
    let arith = rng.chance(30);

    // outputs missing on one side: each side defines a random non-empty subset of the outputs
    let sub = |rng: &mut Rng, xs: &[(&'static str, usize)]| -> Vec<(&'static str, usize)> {
        let v: Vec<_> = xs.iter().cloned().filter(|_| rng.chance(80)).collect();
        if v.is_empty() { vec![xs[0]] } else { v }
    };
    let order_of = |rng: &mut Rng, privs: &[(&'static str, usize)], outs: &[(&'static str, usize)]| -> Vec<(&'static str, usize)> {
        let mut o: Vec<(&'static str, usize)> = privs.to_vec();
        o.extend(sub(rng, outs));
        o
    };
    let outputs_s: Vec<(&'static str, usize)> = outputs.to_vec();
    let order_p = order_of(rng, priv_prog, &outputs_s);
    let mut program = stratified_program(rng, inputs, &order_p, syms, arith);

    let mut violations = 0;
    if rng.chance(12) {
        plant_program_violation(rng, &mut program, priv_prog, outputs, inputs);
        violations += 1;
    }

    let vars: &[(&str, fol::Sort)] = &[("X", fol::Sort::General), ("Y", fol::Sort::General), ("N", fol::Sort::Integer)];
    let in_preds: Vec<(&str, usize)> = inputs.to_vec();
    let mut pub_preds: Vec<(&str, usize)> = inputs.to_vec();
    pub_preds.extend(outputs.iter().cloned());

    let specification = if rng.chance(50) {
        let order_s = order_of(rng, priv_spec, &outputs_s);
        let mut sp = stratified_program(rng, inputs, &order_s, syms, arith);
        if rng.chance(10) {
            plant_program_violation(rng, &mut sp, priv_spec, outputs, inputs);
            violations += 1;
        }
        Either::Left(sp)
    } else {
        let mut spec_preds = pub_preds.clone();
        spec_preds.extend(priv_spec.iter().cloned());
        let mut assumption_preds = in_preds.clone();
        if rng.chance(30) {
            assumption_preds.extend(priv_prog.iter().cloned());
        }
        let n = 1 + rng.below(4);
        let mut formulas = vec![];
        for _ in 0..n {
            let dir = if rng.chance(60) { fol::Direction::Universal } else { t::direction(rng) };
            let name = t::adversarial_name(rng);
            let (role, formula) = match rng.weighted(&[6, 3, 1]) {
                0 => (fol::Role::Spec, t::f_formula(rng, &t::FCfg { preds: &spec_preds, vars, syms }, 2)),
                1 => {
                    let ps = if rng.chance(8) {
                        violations += 1;
                        if rng.chance(50) { &pub_preds } else { &spec_preds }
                    } else {
                        &assumption_preds
                    };
                    (fol::Role::Assumption, t::f_formula(rng, &t::FCfg { preds: ps, vars, syms }, 1))
                }
                _ => {
                    // an equivalence under a universal prefix, the shape eq-break looks for
                    let c = t::FCfg { preds: &spec_preds, vars: &[("X", fol::Sort::General)], syms };
                    let f = t::forall(
                        vec![fol::Variable { name: "X".into(), sort: fol::Sort::General }],
                        t::bin(fol::BinaryConnective::Equivalence, t::f_atom(rng, &c), t::f_formula(rng, &c, 1)),
                    );
                    (fol::Role::Spec, f)
                }
            };
            formulas.push(fol::AnnotatedFormula { role, direction: dir, name, formula });
        }
        if rng.chance(4) {
            violations += 1;
            let c = t::FCfg { preds: &spec_preds, vars, syms };
            formulas.push(fol::AnnotatedFormula {
                // `definition` passes ensure_specification_roles_are_supported and reaches unreachable!()
                role: *rng.pick(&[fol::Role::Lemma, fol::Role::InductiveLemma, fol::Role::Definition]),
                direction: fol::Direction::Universal,
                name: "x".into(),
                formula: t::f_formula(rng, &c, 1),
            });
        }
        Either::Right(fol::Specification { formulas })
    };

    // user guide
    let mut entries = vec![];
    for (p, n) in inputs {
        entries.push(fol::UserGuideEntry::InputPredicate(pr(p, *n)));
    }
    for (p, n) in outputs {
        entries.push(fol::UserGuideEntry::OutputPredicate(pr(p, *n)));
    }
    if rng.chance(5) {
        violations += 1;
        // one or (40 %, when there are two) several input predicates declared output as well, in the order of
        // the inputs or reversed: the payload of InputOutputPredicatesOverlap is the intersection in the
        // order of the INPUT declarations
        if inputs.len() >= 2 && rng.chance(40) {
            let mut both: Vec<(&str, usize)> = inputs.to_vec();
            if rng.chance(50) {
                both.reverse();
            }
            for (p, n) in both {
                if rng.chance(80) {
                    entries.push(fol::UserGuideEntry::OutputPredicate(pr(p, n)));
                }
            }
        } else {
            let (p, n) = *rng.pick(inputs);
            entries.push(fol::UserGuideEntry::OutputPredicate(pr(p, n)));
        }
    }
    if rng.chance(10) {
        // duplicate declarations are harmless
        let (p, n) = *rng.pick(inputs);
        entries.push(fol::UserGuideEntry::InputPredicate(pr(p, n)));
    }
    for (nm, st) in &placeholders {
        entries.push(fol::UserGuideEntry::PlaceholderDeclaration(fol::PlaceholderDeclaration { name: nm.clone(), sort: *st }));
    }
    if rng.chance(5) {
        violations += 1;
        entries.push(fol::UserGuideEntry::PlaceholderDeclaration(fol::PlaceholderDeclaration { name: "n".into(), sort: fol::Sort::General }));
        entries.push(fol::UserGuideEntry::PlaceholderDeclaration(fol::PlaceholderDeclaration { name: "n".into(), sort: fol::Sort::Symbol }));
    }
    // user-guide assumptions over the input predicates; 8 %: over all public predicates; 7 %: over
    // the inputs and the PRIVATE predicates of the program / the specification (refused:
    // ensure_assumptions_only_contain_input_symbols is called with an EMPTY set of extra symbols for
    // user-guide formulas, external_equivalence.rs:478, and with the program's private predicates
    // for specification formulas, :496 - audit 2, B16 row 1: only such a case tells the two call
    // sites apart)
    let mut ug_priv_preds: Vec<(&str, usize)> = in_preds.clone();
    ug_priv_preds.extend(priv_prog.iter().cloned());
    if rng.chance(30) {
        ug_priv_preds.extend(priv_spec.iter().cloned());
    }
    let n_as = rng.weighted(&[5, 3, 1]);
    for _ in 0..n_as {
        let ps = if rng.chance(8) {
            violations += 1;
            &pub_preds
        } else if ug_priv_preds.len() > in_preds.len() && rng.chance(8) {
            violations += 1;
            &ug_priv_preds
        } else {
            &in_preds
        };
        let role = if rng.chance(90) { fol::Role::Assumption } else { fol::Role::Spec };
        entries.push(fol::UserGuideEntry::AnnotatedFormula(fol::AnnotatedFormula {
            role,
            direction: if rng.chance(80) { fol::Direction::Universal } else { t::direction(rng) },
            name: t::adversarial_name(rng),
            formula: t::f_formula(rng, &t::FCfg { preds: ps, vars, syms }, 1),
        }));
    }
    if rng.chance(20) {
        // order of entries is irrelevant to the accessors
        let k = rng.below(entries.len());
        entries.rotate_left(k);
    }
    let user_guide = fol::UserGuide { entries };

    // proof outline
    // The predicates of the task as they occur in the EMITTED problems: public predicates, private
    // predicates of both sides, and - for a private predicate p/n shared by both sides - the name
    // p_p/n the program side's copy gets from `rename_predicates`.  Outline lemmas talk about them
    // (that is what `_p` names are for); outline definitions must not be allowed to define them.
    let renamed: Vec<(String, usize, bool)> =
        priv_prog.iter().chain(priv_spec.iter()).map(|(p, n)| (format!("{p}_p"), *n, priv_prog.contains(&(*p, *n)) && priv_spec.contains(&(*p, *n)))).collect();
    let shared_renamed: Vec<(&str, usize)> = renamed.iter().filter(|x| x.2).map(|(p, n, _)| (p.as_str(), *n)).collect();
    let mut known: Vec<(&str, usize)> = pub_preds.clone();
    known.extend(priv_prog.iter().cloned());
    if rng.chance(50) {
        known.extend(shared_renamed.iter().cloned());
    }
    if rng.chance(25) {
        known.extend(priv_spec.iter().cloned().filter(|x| !priv_prog.contains(x)));
    }
    // definition targets that are not fresh names: the renamed names twice (most interesting), every
    // task predicate, the other side's private predicates, `_p` names of unshared private predicates
    // (nothing is renamed to them: acceptable unless they exist)
    let mut tempting: Vec<(&str, usize)> = known.clone();
    tempting.extend(priv_spec.iter().cloned());
    tempting.extend(shared_renamed.iter().cloned());
    tempting.extend(shared_renamed.iter().cloned());
    tempting.extend(renamed.iter().map(|(p, n, _)| (p.as_str(), *n)));
    // tasks with a renamed private predicate get an outline more often
    let with_outline = rng.chance(if shared_renamed.is_empty() { 45 } else { 65 });
    let proof_outline = if with_outline { t::outline_with(rng, &known, &tempting, 65, 3) } else { fol::Specification { formulas: vec![] } };
    let _ = violations;

    ExternalEquivalenceTask {
        specification,
        program,
        user_guide,
        proof_outline,
        decomposition: t::gen_decomposition(rng),
        direction: t::direction(rng),
        formula_representation: if rng.chance(96) { FormulaRepresentation::TauStar } else { FormulaRepresentation::Mu },
        bypass_tightness: rng.chance(35),
        simplify: rng.chance(60),
        break_equivalences: rng.chance(60),
    }
}

fn external_task_sexp(task: &ExternalEquivalenceTask) -> Sexp {
    tagged(
        "external",
        vec![
            match &task.specification {
                Either::Left(p) => tagged("spec-program", vec![conv::program(p)]),
                Either::Right(sp) => tagged("spec-spec", vec![conv::specification(sp)]),
            },
            conv::program(&task.program),
            conv::user_guide(&task.user_guide),
            conv::specification(&task.proof_outline),
            t::decomposition(&task.decomposition),
            conv::direction(&task.direction),
            t::repr(&task.formula_representation),
            conv::boolean(task.bypass_tightness),
            conv::boolean(task.simplify),
            conv::boolean(task.break_equivalences),
        ],
    )
}
fn parse_external_task(e: &Sexp) -> R<ExternalEquivalenceTask> {
    match e.tag() {
        Some(("external", [sp, p, ug, po, dec, dir, r, bypass, simplify, brk])) => Ok(ExternalEquivalenceTask {
            specification: match sp.tag() {
                Some(("spec-program", [x])) => Either::Left(conv::parse_program(x)?),
                Some(("spec-spec", [x])) => Either::Right(conv::parse_specification(x)?),
                _ => return Err("external: specification".into()),
            },
            program: conv::parse_program(p)?,
            user_guide: conv::parse_user_guide(ug)?,
            proof_outline: conv::parse_specification(po)?,
            decomposition: t::parse_decomposition(dec)?,
            direction: conv::parse_direction(dir)?,
            formula_representation: t::parse_repr(r)?,
            bypass_tightness: conv::parse_bool(bypass)?,
            simplify: conv::parse_bool(simplify)?,
            break_equivalences: conv::parse_bool(brk)?,
        }),
        _ => Err(format!("external task: {}", e.to_text())),
    }
}
fn external_case(task: &ExternalEquivalenceTask) -> Sexp {
    let mut programs: Vec<&asp::Program> = vec![&task.program];
    if let Either::Left(p) = &task.specification {
        programs.push(p);
    }
    // the component functions may panic on inputs the task would reject before calling them
    // the predicates of a specification count as occurring in the task (/repo 18b2e85)
    let spec_preds = match &task.specification {
        Either::Left(_) => None,
        Either::Right(s) => Some(s.predicates()),
    };
    let comps = std::panic::catch_unwind(std::panic::AssertUnwindSafe(|| t::external_components(&programs, spec_preds, &task.user_guide)));
    match comps {
        Ok(Some(c)) => l(vec![external_task_sexp(task), c]),
        Ok(None) => skipped("fixpoint-bound"),
        Err(_) => skipped("component-panic"),
    }
}
fn gen_external_decompose(rng: &mut Rng) -> Sexp {
    external_case(&gen_external_task(rng))
}
fn run_external_decompose(e: &Sexp) -> R<Sexp> {
    if is_skipped(e) {
        return Ok(none());
    }
    match e.as_list()? {
        [task, _components] => {
            let task = parse_external_task(task)?;
            match task.decompose() {
                Ok(w) => Ok(tagged(
                    "ok",
                    vec![tagged("warnings", w.warnings.iter().map(ext_warning).collect()), t::problems(&w.data)],
                )),
                Err(err) => Ok(ext_error(&err)),
            }
        }
        _ => Err("external_decompose: (task components) expected".into()),
    }
}

/// the 8 flag combinations of one accepted-or-rejected external task (for the C19 cross-check)
fn gen_external_families(rng: &mut Rng) -> Sexp {
    let mut task = gen_external_task(rng);
    task.direction = *rng.pick(&[fol::Direction::Forward, fol::Direction::Backward, fol::Direction::Universal]);
    task.simplify = true;
    external_case(&task)
}
fn run_external_families(e: &Sexp) -> R<Sexp> {
    if is_skipped(e) {
        return Ok(none());
    }
    match e.as_list()? {
        [task, _components] => {
            let mut fams = vec![];
            for (simplify, brk, dec) in FAMILY_FLAGS {
                let mut tk = parse_external_task(task)?;
                tk.simplify = simplify;
                tk.break_equivalences = brk;
                tk.decomposition = dec;
                let flags = l(vec![conv::boolean(simplify), conv::boolean(brk), t::decomposition(&dec)]);
                match tk.decompose() {
                    Ok(w) => {
                        let mut items = vec![flags];
                        items.extend(w.data.iter().map(conv::problem));
                        fams.push(tagged("family", items));
                    }
                    Err(err) => return Ok(ext_error(&err)),
                }
            }
            Ok(tagged("families", fams))
        }
        _ => Err("external_families: (task components) expected".into()),
    }
}


// ------------------------------------------------------------------ case builders (tools)
/// (flags L R) -> the full `strong_decompose` case (components computed by the real functions)
fn run_mk_strong_case(e: &Sexp) -> R<Sexp> {
    match e.as_list()? {
        [flags, left, right] => match flags.as_list()? {
            [r, _dir, _dec, simplify, _brk] => {
                let left_p = conv::parse_program(left)?;
                let right_p = conv::parse_program(right)?;
                match t::strong_components(&[&left_p, &right_p], &[t::parse_repr(r)?], &[conv::parse_bool(simplify)?]) {
                    None => Ok(skipped("fixpoint-bound")),
                    Some(c) => Ok(l(vec![flags.clone(), left.clone(), right.clone(), c])),
                }
            }
            _ => Err("mk_strong_case: flags".into()),
        },
        _ => Err("mk_strong_case: (flags left right) expected".into()),
    }
}
/// (external ...) -> the full `external_decompose` case
fn run_mk_external_case(e: &Sexp) -> R<Sexp> {
    Ok(external_case(&parse_external_task(e)?))
}
fn gen_nothing(_rng: &mut Rng) -> Sexp {
    l(vec![])
}

pub fn ops() -> Vec<Op> {
    let _ = a("");
    vec![
        Op { name: "break_equivalences_formula", generate: gen_break_formula, run: run_break_formula },
        Op { name: "break_equivalences_theory", generate: gen_break_theory, run: run_break_theory },
        Op { name: "break_equivalences_annotated_formula", generate: gen_break_annot, run: run_break_annot },
        Op { name: "problem_decompose", generate: gen_problem_decompose, run: run_problem_decompose },
        Op { name: "problem_assembly", generate: gen_problem_assembly, run: run_problem_assembly },
        Op { name: "strong_decompose", generate: gen_strong_decompose, run: run_strong_decompose },
        Op { name: "strong_families", generate: gen_strong_families, run: run_strong_families },
        Op { name: "proof_outline", generate: gen_proof_outline, run: run_proof_outline },
        Op { name: "external_decompose", generate: gen_external_decompose, run: run_external_decompose },
        Op { name: "external_families", generate: gen_external_families, run: run_external_families },
        Op { name: "mk_strong_case", generate: gen_nothing, run: run_mk_strong_case },
        Op { name: "mk_external_case", generate: gen_nothing, run: run_mk_external_case },
    ]
}
