//! C18, classic portfolio: `classic_passes` (the CLI's `simplify --portfolio classic --strategy
//! fixpoint` = INTUITIONISTIC ++ HT ++ CLASSIC) and `classic_only_passes` (CLASSIC alone):
//! the real composed portfolio and the real `Apply::apply`, replayed pass by pass with a bound.
//!   (passes <n> <result> (trace (<size> <mu> <gen> <qn> <scope> <def>) ..))   one trace entry per
//!       formula of the run (input, after pass 1, .., after pass n-1; pass n changes nothing)
//!   (nonterminating <n>)   still changing after MAX_PASSES extra passes
//!   (toolarge <n>)         an intermediate formula exceeds SIZE_CAP nodes (terms included)
//!   (apply-fixpoint-differs <n> <result of the real apply_fixpoint>)   the replay converged after
//!       n passes but the real `Formula::apply_fixpoint` (called afterwards on the same input with
//!       the same composed portfolio) returned a different formula; the model never answers this
//!   (panic)
use super::Op;
use crate::{
    conv,
    ext::clsterm as x,
    rng::Rng,
    sexp::{Sexp, a, l, tagged},
};
use anthem::{
    syntax_tree::fol::sigma_0 as fol,
    verif::simplifying_fol::sigma_0::{classic::CLASSIC, ht::HT, intuitionistic::INTUITIONISTIC},
};

fn outcome(p: x::Passes) -> Sexp {
    match p {
        x::Passes::Done(n, g, trace) => {
            let mut t = vec![a("trace")];
            for e in trace {
                t.push(l(e.iter().map(|k| a(&k.to_string())).collect()));
            }
            tagged("passes", vec![conv::unum(n), conv::formula(&g), l(t)])
        }
        x::Passes::Nonterminating(n) => tagged("nonterminating", vec![conv::unum(n)]),
        x::Passes::TooLarge(n) => tagged("toolarge", vec![conv::unum(n)]),
        x::Passes::FixpointDiffers(n, g) => tagged("apply-fixpoint-differs", vec![conv::unum(n), conv::formula(&g)]),
    }
}
fn full() -> Vec<fn(fol::Formula) -> fol::Formula> {
    [INTUITIONISTIC, HT, CLASSIC].concat()
}
fn run_classic_passes(e: &Sexp) -> Result<Sexp, String> {
    Ok(outcome(x::passes(full(), conv::parse_formula(e)?)))
}
fn run_classic_only_passes(e: &Sexp) -> Result<Sexp, String> {
    Ok(outcome(x::passes(CLASSIC.to_vec(), conv::parse_formula(e)?)))
}
fn gen_case(rng: &mut Rng) -> Sexp {
    conv::formula(&x::case(rng))
}

pub fn ops() -> Vec<Op> {
    vec![
        Op { name: "classic_passes", generate: gen_case, run: run_classic_passes },
        Op { name: "classic_only_passes", generate: gen_case, run: run_classic_only_passes },
    ]
}
