//! C08 / C11-regularity: natural, mu, is_regular on the real code.
use super::Op;
use crate::{conv, ext::natural as ngen, generate as g, rng::Rng, sexp::{Sexp, a, l, tagged}};
use anthem::{
    analyzing::regularity::Regularity as _,
    syntax_tree::asp::mini_gringo as asp,
    translating::formula_representation::{mu::Mu as _, natural::Natural as _, tau_star::TauStar as _},
};

fn gen_program(rng: &mut Rng) -> Sexp {
    // a tenth of the cases from the generic (unbiased) program grammar
    if rng.chance(10) {
        let cfg = g::AspCfg { max_rules: 3, ..g::AspCfg::default() };
        conv::program(&g::program(rng, &cfg))
    } else {
        conv::program(&ngen::program(rng))
    }
}
fn gen_small_program(rng: &mut Rng) -> Sexp {
    conv::program(&ngen::small_program(rng))
}

fn run_natural(e: &Sexp) -> Result<Sexp, String> {
    let p = conv::parse_program(e)?;
    Ok(match p.natural() {
        Some(t) => tagged("some", vec![conv::theory(&t)]),
        None => l(vec![a("none")]),
    })
}

fn run_is_regular(e: &Sexp) -> Result<Sexp, String> {
    let p = conv::parse_program(e)?;
    Ok(conv::boolean(p.is_regular()))
}

/// (mu (consistent b) (branches (nat F) | (tau) ...)):
/// the i-th branch is `(nat F)` when natural accepts the i-th rule on its own, F being the i-th
/// formula printed by mu; `(tau)` otherwise.  `consistent` says that mu has one formula per rule,
/// that on every `nat` rule mu's formula is natural's formula for that rule, and that on every
/// `tau` rule it is the i-th formula of the implementation's own tau* translation of the program.
fn run_mu_branches(e: &Sexp) -> Result<Sexp, String> {
    let p = conv::parse_program(e)?;
    let mu = p.clone().mu();
    let ts = p.clone().tau_star();
    let mut consistent = mu.formulas.len() == p.rules.len() && ts.formulas.len() == p.rules.len();
    let mut branches = vec![];
    for (i, r) in p.rules.iter().enumerate() {
        let single = asp::Program { rules: vec![r.clone()] };
        match single.natural() {
            Some(t) => {
                if t.formulas.len() != 1 || mu.formulas.get(i) != t.formulas.first() {
                    consistent = false;
                }
                match mu.formulas.get(i) {
                    Some(f) => branches.push(tagged("nat", vec![conv::formula(f)])),
                    None => branches.push(l(vec![a("missing")])),
                }
            }
            None => {
                if mu.formulas.get(i) != ts.formulas.get(i) {
                    consistent = false;
                }
                branches.push(l(vec![a("tau")]));
            }
        }
    }
    Ok(tagged("mu", vec![tagged("consistent", vec![conv::boolean(consistent)]), tagged("branches", branches)]))
}

/// The CLI path `translate --with natural`: Program::from_str on the program text, natural, Display
/// of the theory; the printed theory is parsed back and returned as a tree.  Cases whose program
/// text does not parse back to the same program (printer/parser matters, property C14) are
/// answered from the tree directly, so that this op only ever differs from `natural` through the
/// text path of natural's own output.
fn run_natural_text(e: &Sexp) -> Result<Sexp, String> {
    use std::str::FromStr;
    let p = conv::parse_program(e)?;
    let text = format!("{p}");
    let p2 = match asp::Program::from_str(&text) {
        Ok(p2) if p2 == p => p2,
        _ => { if std::env::var("NAT_TEXT_STRICT").is_ok() { return Err("no-roundtrip".into()); } return run_natural(e) }
    };
    Ok(match p2.natural() {
        Some(t) => {
            let printed = format!("{t}");
            let back = anthem::syntax_tree::fol::sigma_0::Theory::from_str(&printed)
                .map_err(|err| format!("printed natural theory does not parse: {err}: {printed}"))?;
            tagged("some", vec![conv::theory(&back)])
        }
        None => l(vec![a("none")]),
    })
}

/// cases of `mu_branches`: the programs of the cluster and, 4 %, programs of the tau* grammar with
/// variables around the usize boundary of tau*'s global counter (`V18446744073709551615`: p.mu() and
/// p.tau_star() panic, finding F11; audit 2, B16 / T13)
fn gen_mu_program(rng: &mut Rng) -> Sexp {
    if rng.chance(4) {
        let mut cfg = crate::ext::taustar::TCfg::adversarial(rng);
        cfg.huge = 25;
        cfg.max_rules = 3;
        conv::program(&crate::ext::taustar::program(rng, &cfg))
    } else {
        gen_program(rng)
    }
}

pub fn ops() -> Vec<Op> {
    vec![
        Op { name: "natural", generate: gen_program, run: run_natural },
        Op { name: "natural_small", generate: gen_small_program, run: run_natural },
        Op { name: "natural_text", generate: gen_program, run: run_natural_text },
        Op { name: "is_regular", generate: gen_program, run: run_is_regular },
        Op { name: "mu_branches", generate: gen_mu_program, run: run_mu_branches },
    ]
}
