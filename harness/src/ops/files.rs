//! C20: `files_sort` — an abstract file tree is materialised in a scratch directory and passed to
//! `Files::sort`; the answer lists the five buckets and the six accessors with paths relative to
//! the scratch root.
//!   input   (node ...)  with node = (file "name") | (special "name") | (dir "name" node ...)
//!           the top-level nodes are the arguments, in order (a node may be listed twice)
use super::Op;
use crate::{
    rng::Rng,
    sexp::{Sexp, a, l, s, tagged},
};
use anthem::verif::files::Files;
use std::{
    path::{Path, PathBuf},
    sync::atomic::{AtomicUsize, Ordering},
};

const FILE_NAMES: &[&str] = &[
    "a.lp", "b.lp", "z.lp", "A.lp", "B.lp", "0.lp", "a.spec", "b.spec", "Z.spec", "u.ug", "v.ug", "o.po", "p.po", ".lp", ".spec",
    "..lp", "a.", "a.lp.bak", "x.LP", "noext", "a.b.lp", "\u{fc}.lp", "a b.lp", "-x.lp", "lp", "a.lp~", "_.ug", "a.lpx", "aa.lp",
    "a-.lp", "a_.lp", "a0.lp", "a.po.lp", "README.md",
];
const DIR_NAMES: &[&str] = &["d", "D", "d.lp", "e.spec", "x y", "a", "zz", ".hidden", "\u{e9}"];

fn gen_nodes(rng: &mut Rng, depth: usize, max: usize) -> Vec<Sexp> {
    let n = rng.below(max + 1);
    let mut used: Vec<String> = vec![];
    let mut out = vec![];
    for _ in 0..n {
        let dir = depth > 0 && rng.chance(25);
        let name = if dir { *rng.pick(DIR_NAMES) } else { *rng.pick(FILE_NAMES) };
        if used.iter().any(|u| u == name) {
            continue;
        }
        used.push(name.to_string());
        if dir {
            let mut v = vec![s(name)];
            v.extend(gen_nodes(rng, depth - 1, 5));
            out.push(tagged("dir", v));
        } else if rng.chance(6) {
            out.push(tagged("special", vec![s(name)]));
        } else {
            out.push(tagged("file", vec![s(name)]));
        }
    }
    out
}

fn gen_case(rng: &mut Rng) -> Sexp {
    let mut nodes = gen_nodes(rng, 2, 7);
    // shuffle = argument order independent of names; sometimes pass one argument twice
    for i in (1..nodes.len()).rev() {
        let j = rng.below(i + 1);
        nodes.swap(i, j);
    }
    if !nodes.is_empty() && rng.chance(10) {
        let k = rng.below(nodes.len());
        nodes.push(nodes[k].clone());
    }
    l(nodes)
}

fn build(root: &Path, node: &Sexp) -> Result<PathBuf, String> {
    let (tag, rest) = node.tag().ok_or("node expected")?;
    let name = rest.first().ok_or("name expected")?.as_str()?;
    let path = root.join(name);
    match tag {
        "file" => {
            std::fs::write(&path, b"").map_err(|e| e.to_string())?;
        }
        "special" => {
            if std::fs::symlink_metadata(&path).is_err() {
                std::os::unix::fs::symlink("/dev/null", &path).map_err(|e| e.to_string())?;
            }
        }
        "dir" => {
            std::fs::create_dir_all(&path).map_err(|e| e.to_string())?;
            for c in &rest[1..] {
                build(&path, c)?;
            }
        }
        t => return Err(format!("unknown node tag {t}")),
    }
    Ok(path)
}

static COUNTER: AtomicUsize = AtomicUsize::new(0);

fn rel(root: &Path, p: &Path) -> Sexp {
    use std::os::unix::ffi::OsStrExt as _;
    let r = p.strip_prefix(root).unwrap_or(p);
    // bytes, not lossy text: the wire format escapes every non-printable byte
    s(&String::from_utf8_lossy(r.as_os_str().as_bytes()))
}
fn opt(root: &Path, p: Option<&PathBuf>) -> Sexp {
    match p {
        Some(p) => tagged("some", vec![rel(root, p)]),
        None => l(vec![a("none")]),
    }
}

fn run(e: &Sexp) -> Result<Sexp, String> {
    let base = Path::new(concat!(env!("CARGO_MANIFEST_DIR"), "/../work/scratch"));
    let root = base.join(format!("files-{}-{}", std::process::id(), COUNTER.fetch_add(1, Ordering::SeqCst)));
    let _ = std::fs::remove_dir_all(&root);
    std::fs::create_dir_all(&root).map_err(|e| e.to_string())?;
    let result = (|| {
        let mut args = vec![];
        for n in e.as_list()? {
            args.push(build(&root, n)?);
        }
        let files = Files::sort(args).map_err(|e| format!("walkdir: {e}"))?;
        let list = |v: &Vec<PathBuf>| l(v.iter().map(|p| rel(&root, p)).collect());
        let spec = match files.specification() {
            None => l(vec![a("none")]),
            // Either::Left = a program used as specification (the `either` crate is not a direct dependency here)
            Some(e) if e.is_left() => tagged("some", vec![tagged("program", vec![rel(&root, e.left().unwrap())])]),
            Some(e) => tagged("some", vec![tagged("spec", vec![rel(&root, e.right().unwrap())])]),
        };
        Ok(tagged(
            "files",
            vec![
                tagged("specifications", vec![list(&files.specifications)]),
                tagged("programs", vec![list(&files.programs)]),
                tagged("user_guides", vec![list(&files.user_guides)]),
                tagged("proof_outlines", vec![list(&files.proof_outlines)]),
                tagged("other", vec![list(&files.other)]),
                tagged("left", vec![opt(&root, files.left())]),
                tagged("right", vec![opt(&root, files.right())]),
                tagged("specification", vec![spec]),
                tagged("program", vec![opt(&root, files.program())]),
                tagged("user_guide", vec![opt(&root, files.user_guide())]),
                tagged("proof_outline", vec![opt(&root, files.proof_outline())]),
            ],
        ))
    })();
    let _ = std::fs::remove_dir_all(&root);
    result
}

pub fn ops() -> Vec<Op> {
    vec![Op { name: "files_sort", generate: gen_case, run }]
}
