//! C20: `files_sort` — an abstract file tree is materialised in a scratch directory and passed to
//! `Files::sort`; the answer lists the five buckets and the six accessors with paths relative to
//! the scratch root.
//!   input   (node ...)  with node = (file "name") | (special "name") | (dir "name" node ...)
//!                                 | (link "name" file|special|dangling|loop) | (link "name" (dir node ...))
//!           the top-level nodes are the arguments, in order (a node may be listed twice).
//!           Links: `file` -> a regular file outside the tree (directly or through a second link),
//!           `special` -> /dev/null, `dangling` -> a missing path or the link itself (ELOOP),
//!           `loop` -> "." (the directory that contains the link; not realisable as an argument),
//!           `(dir ..)` -> a directory outside the tree with these entries.
//!   output  (files ...) or, when Files::sort returns a walkdir error, (err (io|loop "path"))
use super::Op;
use crate::{
    rng::Rng,
    sexp::{Sexp, a, l, s, tagged},
};
use anthem::verif::files::Files;
use std::{
    path::{Path, PathBuf},
    sync::atomic::{AtomicUsize, Ordering},
};

const FILE_NAMES: &[&str] = &[
    "a.lp", "b.lp", "z.lp", "A.lp", "B.lp", "0.lp", "a.spec", "b.spec", "Z.spec", "u.ug", "v.ug", "o.po", "p.po", ".lp", ".spec",
    "..lp", "a.", "a.lp.bak", "x.LP", "noext", "a.b.lp", "\u{fc}.lp", "a b.lp", "-x.lp", "lp", "a.lp~", "_.ug", "a.lpx", "aa.lp",
    "a-.lp", "a_.lp", "a0.lp", "a.po.lp", "README.md",
];
const DIR_NAMES: &[&str] = &["d", "D", "d.lp", "e.spec", "x y", "a", "zz", ".hidden", "\u{e9}"];

fn gen_nodes(rng: &mut Rng, depth: usize, max: usize, root: bool) -> Vec<Sexp> {
    let n = rng.below(max + 1);
    let mut used: Vec<String> = vec![];
    let mut out = vec![];
    for _ in 0..n {
        let dir = depth > 0 && rng.chance(25);
        let name = if dir { *rng.pick(DIR_NAMES) } else { *rng.pick(FILE_NAMES) };
        if used.iter().any(|u| u == name) {
            continue;
        }
        used.push(name.to_string());
        if dir {
            let mut v = vec![];
            v.extend(gen_nodes(rng, depth - 1, 5, false));
            if rng.chance(25) {
                // a symbolic link to a directory
                v.insert(0, a("dir"));
                out.push(tagged("link", vec![s(name), l(v)]));
            } else {
                v.insert(0, s(name));
                out.push(tagged("dir", v));
            }
        } else {
            let k = rng.below(200);
            out.push(match k {
                0..=9 => tagged("special", vec![s(name)]),
                10..=39 => tagged("link", vec![s(name), a("file")]),
                40..=45 => tagged("link", vec![s(name), a("special")]),
                46..=48 => tagged("link", vec![s(name), a("dangling")]),
                49..=51 if !root => tagged("link", vec![s(name), a("loop")]),
                _ => tagged("file", vec![s(name)]),
            });
        }
    }
    out
}

fn gen_case(rng: &mut Rng) -> Sexp {
    let mut nodes = gen_nodes(rng, 2, 7, true);
    // shuffle = argument order independent of names; sometimes pass one argument twice
    for i in (1..nodes.len()).rev() {
        let j = rng.below(i + 1);
        nodes.swap(i, j);
    }
    if !nodes.is_empty() && rng.chance(10) {
        let k = rng.below(nodes.len());
        nodes.push(nodes[k].clone());
    }
    l(nodes)
}

fn atom(e: &Sexp) -> Option<&str> {
    match e {
        Sexp::A(x) => Some(x.as_str()),
        _ => None,
    }
}

/// where the targets of links live: a sibling of the scratch root (never walked)
struct Store {
    dir: PathBuf,
    next: usize,
}
impl Store {
    fn fresh(&mut self) -> Result<PathBuf, String> {
        std::fs::create_dir_all(&self.dir).map_err(|e| e.to_string())?;
        self.next += 1;
        Ok(self.dir.join(format!("t{}", self.next)))
    }
}

fn build(root: &Path, node: &Sexp, store: &mut Store, top: bool) -> Result<PathBuf, String> {
    use std::os::unix::fs::symlink;
    let (tag, rest) = node.tag().ok_or("node expected")?;
    let name = rest.first().ok_or("name expected")?.as_str()?;
    let path = root.join(name);
    let exists = std::fs::symlink_metadata(&path).is_ok(); // an argument listed twice
    match tag {
        "file" => {
            std::fs::write(&path, b"").map_err(|e| e.to_string())?;
        }
        "special" => {
            // a socket (std only); where the path is too long for sun_path, a link to a device
            if !exists && std::os::unix::net::UnixListener::bind(&path).is_err() {
                symlink("/dev/null", &path).map_err(|e| e.to_string())?;
            }
        }
        "dir" => {
            std::fs::create_dir_all(&path).map_err(|e| e.to_string())?;
            for c in &rest[1..] {
                build(&path, c, store, false)?;
            }
        }
        "link" if exists => {}
        "link" => {
            let target = rest.get(1).ok_or("link target expected")?;
            match atom(target) {
                Some("file") => {
                    let t = store.fresh()?;
                    std::fs::write(&t, b"").map_err(|e| e.to_string())?;
                    if store.next % 2 == 0 {
                        // through a second link
                        let t2 = store.fresh()?;
                        symlink(&t, &t2).map_err(|e| e.to_string())?;
                        symlink(&t2, &path).map_err(|e| e.to_string())?;
                    } else {
                        symlink(&t, &path).map_err(|e| e.to_string())?;
                    }
                }
                Some("special") => symlink("/dev/null", &path).map_err(|e| e.to_string())?,
                Some("dangling") => {
                    let t = store.fresh()?;
                    if store.next % 2 == 0 {
                        symlink(&t, &path).map_err(|e| e.to_string())?; // missing target
                    } else {
                        symlink(name, &path).map_err(|e| e.to_string())?; // the link itself: ELOOP
                    }
                }
                Some("loop") => {
                    if top {
                        return Err("a loop link as an argument is not realisable (walkdir's ancestor stack is empty)".into());
                    }
                    symlink(".", &path).map_err(|e| e.to_string())?;
                }
                Some(t) => return Err(format!("unknown link target {t}")),
                None => {
                    let (ttag, cs) = target.tag().ok_or("link target expected")?;
                    if ttag != "dir" {
                        return Err(format!("unknown link target ({ttag} ..)"));
                    }
                    let t = store.fresh()?;
                    std::fs::create_dir_all(&t).map_err(|e| e.to_string())?;
                    for c in cs {
                        build(&t, c, store, false)?;
                    }
                    symlink(&t, &path).map_err(|e| e.to_string())?;
                }
            }
        }
        t => return Err(format!("unknown node tag {t}")),
    }
    Ok(path)
}

static COUNTER: AtomicUsize = AtomicUsize::new(0);

fn rel(root: &Path, p: &Path) -> Sexp {
    use std::os::unix::ffi::OsStrExt as _;
    let r = p.strip_prefix(root).unwrap_or(p);
    // bytes, not lossy text: the wire format escapes every non-printable byte
    s(&String::from_utf8_lossy(r.as_os_str().as_bytes()))
}
fn opt(root: &Path, p: Option<&PathBuf>) -> Sexp {
    match p {
        Some(p) => tagged("some", vec![rel(root, p)]),
        None => l(vec![a("none")]),
    }
}

fn run(e: &Sexp) -> Result<Sexp, String> {
    let base = Path::new(concat!(env!("CARGO_MANIFEST_DIR"), "/../work/scratch"));
    let root = base.join(format!("files-{}-{}", std::process::id(), COUNTER.fetch_add(1, Ordering::SeqCst)));
    let mut store = Store { dir: base.join(format!("{}-store", root.file_name().unwrap().to_string_lossy())), next: 0 };
    let _ = std::fs::remove_dir_all(&root);
    let _ = std::fs::remove_dir_all(&store.dir);
    std::fs::create_dir_all(&root).map_err(|e| e.to_string())?;
    let store_dir = store.dir.clone();
    let result = (|| {
        let mut args = vec![];
        for n in e.as_list()? {
            args.push(build(&root, n, &mut store, true)?);
        }
        let files = match Files::sort(args) {
            Ok(f) => f,
            Err(e) => {
                // walkdir::Error: the path it names and whether it is a loop
                let p = e.path().ok_or_else(|| format!("walkdir: {e}"))?;
                let kind = if e.loop_ancestor().is_some() { "loop" } else { "io" };
                return Ok(tagged("err", vec![tagged(kind, vec![rel(&root, p)])]));
            }
        };
        let list = |v: &Vec<PathBuf>| l(v.iter().map(|p| rel(&root, p)).collect());
        let spec = match files.specification() {
            None => l(vec![a("none")]),
            // Either::Left = a program used as specification (the `either` crate is not a direct dependency here)
            Some(e) if e.is_left() => tagged("some", vec![tagged("program", vec![rel(&root, e.left().unwrap())])]),
            Some(e) => tagged("some", vec![tagged("spec", vec![rel(&root, e.right().unwrap())])]),
        };
        Ok(tagged(
            "files",
            vec![
                tagged("specifications", vec![list(&files.specifications)]),
                tagged("programs", vec![list(&files.programs)]),
                tagged("user_guides", vec![list(&files.user_guides)]),
                tagged("proof_outlines", vec![list(&files.proof_outlines)]),
                tagged("other", vec![list(&files.other)]),
                tagged("left", vec![opt(&root, files.left())]),
                tagged("right", vec![opt(&root, files.right())]),
                tagged("specification", vec![spec]),
                tagged("program", vec![opt(&root, files.program())]),
                tagged("user_guide", vec![opt(&root, files.user_guide())]),
                tagged("proof_outline", vec![opt(&root, files.proof_outline())]),
            ],
        ))
    })();
    let _ = std::fs::remove_dir_all(&root);
    let _ = std::fs::remove_dir_all(&store_dir);
    result
}

pub fn ops() -> Vec<Op> {
    vec![Op { name: "files_sort", generate: gen_case, run }]
}
