//! Cluster `tasktext` (C09tasks, audit B8): the TEXT of every problem a verification task emits.
//!   task_emit_strong    ((repr dir dec simplify break) L R)   = the input of strong_decompose_full
//!   task_emit_external  (external spec program ug outline dec dir repr bypass simplify break)
//!                                                             = the input of external_decompose_full
//!       -> (texts ("name" "text") ..)   name = Problem.name, text = format!("{problem}"), i.e. the
//!                                       bytes `verify --save-problems` writes to <name>.p
//!        | (none)                       the task is refused / skipped / exceeds the fixpoint fuel
//!        | (panic)
//! The tasks are run by the operations of the clusters `compose` / `compext` (same generators, same
//! pre-flight of the fixpoint loops); their problems are printed with `Display for Problem`.
use super::Op;
use crate::{
    conv,
    rng::Rng,
    sexp::{Sexp, a, l, s, tagged},
};

type R<T> = Result<T, String>;

fn find(ops: Vec<Op>, name: &str) -> Op {
    ops.into_iter().find(|o| o.name == name).unwrap_or_else(|| panic!("op {name}"))
}
fn strong_op() -> Op {
    find(super::compose::ops(), "strong_decompose_full")
}
fn external_op() -> Op {
    find(super::compext::ops(), "external_decompose_full")
}
fn external_small_op() -> Op {
    find(super::compext::ops(), "external_decompose_small")
}

fn none() -> Sexp {
    tagged("none", vec![])
}
fn texts(problems: &[Sexp]) -> R<Sexp> {
    let mut out = vec![];
    for p in problems {
        let p = conv::parse_problem(p)?;
        out.push(l(vec![s(&p.name), s(&format!("{p}"))]));
    }
    Ok(tagged("texts", out))
}
/// the answer of strong_decompose_full / external_decompose_full -> the texts
fn texts_of(out: &Sexp) -> R<Sexp> {
    match out.tag() {
        Some(("problems", ps)) => texts(ps),
        Some(("ok", [_warnings, problems])) => match problems.tag() {
            Some(("problems", ps)) => texts(ps),
            _ => Err("task_emit: (problems ..) expected".into()),
        },
        Some(("panic", _)) => Ok(l(vec![a("panic")])),
        _ => Ok(none()),
    }
}

fn gen_strong(rng: &mut Rng) -> Sexp {
    (strong_op().generate)(rng)
}
fn run_strong(e: &Sexp) -> R<Sexp> {
    texts_of(&(strong_op().run)(e)?)
}
fn gen_external(rng: &mut Rng) -> Sexp {
    let case = if rng.chance(70) { (external_op().generate)(rng) } else { (external_small_op().generate)(rng) };
    // 30 %: the clash shapes of `rename_conflicting_symbols` inside the proof outline (see clash_variant)
    if rng.chance(30) { clash_variant(rng, case) } else { case }
}

// ---------------------------------------------------------------- symbol / 0-ary predicate clashes
/// `(sy "from")` -> `(sy "to")` everywhere in `e` (formulas and programs use the same constructor)
fn rename_symbol(e: &Sexp, from: &str, to: &str) -> Sexp {
    match e {
        Sexp::L(v) => match e.tag() {
            Some(("sy", [Sexp::S(x)])) if x == from => tagged("sy", vec![s(to)]),
            _ => l(v.iter().map(|x| rename_symbol(x, from, to)).collect()),
        },
        _ => e.clone(),
    }
}
fn visit<'a>(e: &'a Sexp, f: &mut dyn FnMut(&'a Sexp)) {
    f(e);
    if let Sexp::L(v) = e {
        for x in v {
            visit(x, f);
        }
    }
}
/// predicates (name, arity) of the task: formula atoms `(P "p" t..)`, program atoms
/// `(basic|choice|pos|neg|nneg ("p" t..))`, user-guide declarations `(input|output ("p" n))`
fn task_predicates(parts: &[Sexp]) -> Vec<(String, usize)> {
    let mut out: Vec<(String, usize)> = vec![];
    for part in parts {
        visit(part, &mut |x| {
            let found = match x.tag() {
                Some(("P", [Sexp::S(p), args @ ..])) => Some((p.clone(), args.len())),
                Some(("basic" | "choice" | "pos" | "neg" | "nneg", [Sexp::L(atom)])) => match atom.as_slice() {
                    [Sexp::S(p), args @ ..] => Some((p.clone(), args.len())),
                    _ => None,
                },
                Some(("input" | "output", [Sexp::L(d)])) => match d.as_slice() {
                    [Sexp::S(p), Sexp::A(n)] => n.parse().ok().map(|n| (p.clone(), n)),
                    _ => None,
                },
                _ => None,
            };
            if let Some(p) = found {
                if !out.contains(&p) {
                    out.push(p);
                }
            }
        });
    }
    out
}

/// A task whose PROOF OUTLINE mentions a symbolic constant named like a 0-ary predicate of the task
/// (the clash `Problem::rename_conflicting_symbols` resolves by renaming the constant `c` to `c__s`
/// in every formula of the problem, conjecture included).  `case` is a generated task; the variant
///   * picks the clashing name `c`: a 0-ary predicate of the task (`in2`, `out2`, `r`, ..), or `d`
///     (then the 0-ary predicate occurs in the outline only: in a lemma, i.e. in the CONJECTURE of an
///     outline problem and in the premises of the later ones);
///   * renames the constant `a` (or `b`) to `c` in the outline only / in the whole task / in the
///     programs, specification and user guide only (the constant then reaches the outline problems
///     through the premises);
///   * 20 %: renames the other constant to `c__s` (the renamed constant meets an existing constant);
///   * adds 1-3 outline entries that mention `c` as a constant, next to the 0-ary predicate `c` or
///     alone: lemmas, inductive lemmas (base and step share the premises), a definition with a
///     lemma that uses it; directions universal / forward / backward.
fn clash_variant(rng: &mut Rng, case: Sexp) -> Sexp {
    let Some(("external", parts)) = case.tag() else { return case };
    if parts.len() != 10 {
        return case;
    }
    let mut parts: Vec<Sexp> = parts.to_vec();
    let preds = task_predicates(&parts[0..4]);
    let zero: Vec<&str> = preds.iter().filter(|(_, n)| *n == 0).map(|(p, _)| p.as_str()).collect();
    let wide: Vec<(&str, usize)> = preds.iter().filter(|(p, n)| *n >= 1 && p != "aux").map(|(p, n)| (p.as_str(), *n)).collect();
    let c: String = if !zero.is_empty() && rng.chance(75) { rng.pick(&zero).to_string() } else { "d".to_string() };
    let (from, other) = if rng.chance(70) { ("a", "b") } else { ("b", "a") };
    let scope = rng.weighted(&[45, 40, 15]);
    let merged = rng.chance(20);
    for (i, part) in parts.iter_mut().enumerate().take(4) {
        let here = match scope {
            0 => i == 3,
            1 => true,
            _ => i != 3,
        };
        if here {
            *part = rename_symbol(part, from, &c);
            if merged {
                *part = rename_symbol(part, other, &format!("{c}__s"));
            }
        }
    }
    // the added entries
    let sym = |x: &str| tagged("sy", vec![s(x)]);
    let zero_atom = |x: &str| tagged("P", vec![s(x)]);
    let mention = |rng: &mut Rng, x: &str| -> Sexp {
        // an atom that has the constant `x` as an argument, or a comparison with it
        if !wide.is_empty() && rng.chance(75) {
            let (p, n) = *rng.pick(&wide);
            let k = rng.below(n);
            let mut items = vec![s(p)];
            for i in 0..n {
                items.push(if i == k { sym(x) } else { tagged("gv", vec![s("X")]) });
            }
            tagged("P", items)
        } else {
            tagged("C", vec![tagged("gv", vec![s("X")]), l(vec![a(*rng.pick(&["eq", "ne", "le"])), sym(x)])])
        }
    };
    let dir = |rng: &mut Rng| a(*rng.pick(&["universal", "universal", "forward", "backward"]));
    let name = |rng: &mut Rng| s(*rng.pick(&["", "l", "d", "lemma_1", "unnamed_formula"]));
    let rels = ("ge", "gt", "eq");
    let mut entries: Vec<Sexp> = vec![];
    let n = 1 + rng.below(3);
    for _ in 0..n {
        let m = mention(rng, &c);
        let m = if merged && rng.chance(50) { tagged("or", vec![m, mention(rng, &format!("{c}__s"))]) } else { m };
        // the constant alone / next to the 0-ary predicate of the same name
        let body = match rng.weighted(&[4, 3, 2, 1]) {
            0 => m,
            1 => tagged("imp", vec![zero_atom(&c), m]),
            2 => tagged("or", vec![tagged("not", vec![zero_atom(&c)]), m]),
            _ => tagged("and", vec![m, tagged("not", vec![tagged("not", vec![zero_atom(&c)])])]),
        };
        match rng.weighted(&[5, 3, 2]) {
            0 => entries.push(tagged("af", vec![a("lemma"), dir(rng), name(rng), body])),
            1 => {
                // inductive lemma  N >= k -> F and N > -5 (closed by anthem): two conjectures over the same premises
                let nv = tagged("iv", vec![s("N")]);
                let ante = tagged("C", vec![nv.clone(), l(vec![a(rels.0), tagged("n", vec![a(&rng.range(-1, 2).to_string())])])]);
                let occ = tagged("C", vec![nv, l(vec![a(rels.1), tagged("n", vec![a("-5")])])]);
                let f = tagged("imp", vec![ante, tagged("and", vec![body, occ])]);
                entries.push(tagged("af", vec![a("inductive-lemma"), dir(rng), name(rng), f]));
            }
            _ => {
                // definition  forall X (aux3(X) <-> X = c [or c/0]), then a lemma about aux3(c)
                let x = tagged("gv", vec![s("X")]);
                let eq = tagged("C", vec![x.clone(), l(vec![a(rels.2), sym(&c)])]);
                let rhs = if rng.chance(40) { tagged("or", vec![eq, zero_atom(&c)]) } else { eq };
                let def = tagged("forall", vec![l(vec![l(vec![s("X"), a("g")])]), tagged("iff", vec![tagged("P", vec![s("aux3"), x]), rhs])]);
                let d = dir(rng);
                entries.push(tagged("af", vec![a("definition"), d.clone(), name(rng), def]));
                let use_it = tagged("P", vec![s("aux3"), sym(&c)]);
                let use_it = if rng.chance(50) { use_it } else { tagged("imp", vec![body, use_it]) };
                entries.push(tagged("af", vec![a("lemma"), if rng.chance(70) { d } else { dir(rng) }, name(rng), use_it]));
                break;
            }
        }
    }
    if let Some(("spec", old)) = parts[3].tag() {
        let mut all: Vec<Sexp> = old.to_vec();
        if rng.chance(50) {
            all.extend(entries);
        } else {
            entries.extend(all);
            all = entries;
        }
        parts[3] = tagged("spec", all);
    }
    tagged("external", parts)
}
fn run_external(e: &Sexp) -> R<Sexp> {
    texts_of(&(external_op().run)(e)?)
}

pub fn ops() -> Vec<Op> {
    vec![
        Op { name: "task_emit_strong", generate: gen_strong, run: run_strong },
        Op { name: "task_emit_external", generate: gen_external, run: run_external },
    ]
}
