//! Cluster `tasktext` (C09tasks, audit B8): the TEXT of every problem a verification task emits.
//!   task_emit_strong    ((repr dir dec simplify break) L R)   = the input of strong_decompose_full
//!   task_emit_external  (external spec program ug outline dec dir repr bypass simplify break)
//!                                                             = the input of external_decompose_full
//!       -> (texts ("name" "text") ..)   name = Problem.name, text = format!("{problem}"), i.e. the
//!                                       bytes `verify --save-problems` writes to <name>.p
//!        | (none)                       the task is refused / skipped / exceeds the fixpoint fuel
//!        | (panic)
//! The tasks are run by the operations of the clusters `compose` / `compext` (same generators, same
//! pre-flight of the fixpoint loops); their problems are printed with `Display for Problem`.
use super::Op;
use crate::{
    conv,
    rng::Rng,
    sexp::{Sexp, a, l, s, tagged},
};

type R<T> = Result<T, String>;

fn find(ops: Vec<Op>, name: &str) -> Op {
    ops.into_iter().find(|o| o.name == name).unwrap_or_else(|| panic!("op {name}"))
}
fn strong_op() -> Op {
    find(super::compose::ops(), "strong_decompose_full")
}
fn external_op() -> Op {
    find(super::compext::ops(), "external_decompose_full")
}
fn external_small_op() -> Op {
    find(super::compext::ops(), "external_decompose_small")
}

fn none() -> Sexp {
    tagged("none", vec![])
}
fn texts(problems: &[Sexp]) -> R<Sexp> {
    let mut out = vec![];
    for p in problems {
        let p = conv::parse_problem(p)?;
        out.push(l(vec![s(&p.name), s(&format!("{p}"))]));
    }
    Ok(tagged("texts", out))
}
/// the answer of strong_decompose_full / external_decompose_full -> the texts
fn texts_of(out: &Sexp) -> R<Sexp> {
    match out.tag() {
        Some(("problems", ps)) => texts(ps),
        Some(("ok", [_warnings, problems])) => match problems.tag() {
            Some(("problems", ps)) => texts(ps),
            _ => Err("task_emit: (problems ..) expected".into()),
        },
        Some(("panic", _)) => Ok(l(vec![a("panic")])),
        _ => Ok(none()),
    }
}

fn gen_strong(rng: &mut Rng) -> Sexp {
    (strong_op().generate)(rng)
}
fn run_strong(e: &Sexp) -> R<Sexp> {
    texts_of(&(strong_op().run)(e)?)
}
fn gen_external(rng: &mut Rng) -> Sexp {
    if rng.chance(70) { (external_op().generate)(rng) } else { (external_small_op().generate)(rng) }
}
fn run_external(e: &Sexp) -> R<Sexp> {
    texts_of(&(external_op().run)(e)?)
}

pub fn ops() -> Vec<Op> {
    vec![
        Op { name: "task_emit_strong", generate: gen_strong, run: run_strong },
        Op { name: "task_emit_external", generate: gen_external, run: run_external },
    ]
}
