//! `anthem verify` end to end (audit finding B6): the op `cli_verify` runs the REAL BINARY
//!     anthem verify --equivalence E [--decomposition D] [--direction R] [--formula-representation F]
//!                   [--bypass-tightness] [--no-simplify] [--no-eq-break] --no-proof-search
//!                   [--save-problems <dir>] <path>..
//! in a scratch directory that contains the given file trees, and reports what is on disk afterwards:
//!     input    (verify (equivalence strong|external) (decomposition none|independent|sequential)
//!                      (direction none|universal|forward|backward) (repr none|mu|tau-star)
//!                      (bypass b) (no-simplify b) (no-eq-break b) (no-proof-search b)
//!                      (save none|"dir") (files <node>..))
//!       <node> = (file "name" "text") | (special "name") | (dir "name" <node>..)
//!              | (link "name" (file "text")|special|dangling|loop) | (link "name" (dir <node>..))
//!       `none` = the option is not on the command line; the <node>s are the path arguments, in order.
//!       Symbolic links as in the op `files_sort` (ops/files.rs; followed since /repo 8bcb21d): the targets
//!       live outside the working directory; `(file "text")` -> a regular file with that text (directly
//!       or through a second link), `special` -> /dev/null, `dangling` -> a missing path or the link
//!       itself (ELOOP), `loop` -> "." (not realisable as an argument), `(dir ..)` -> a directory with
//!       these entries.  `(special "name")` is a socket (a link to /dev/null where the path is too long).
//!     result   (exit0 (warnings "Kind"..) (files ("dir/name.p" "bytes")..))     exit status 0
//!            | (error <status>) | (error <status> (files ..))   (the latter if something was written)
//!            | (panic) | (signal n) | (timeout)
//! The model side is the extracted `CliVerify.run_verify_tree` + `dir_state` (ocaml/driver/ops_cliverify.ml).
//! Nothing of procedures.rs / arguments.rs / files.rs is re-implemented here: this file knows the
//! argument vector, writes the input files and lists the output directory (sorted by name).
//! `warnings`: the kinds of the warnings on stdout, recognised by the first words of their message.
//!
//! Generation: the task generators of the framework (strong_decompose_full, external_decompose_full,
//! external_decompose_small, external_roles) give the programs / specification / user guide / proof
//! outline and the flag values; the trees are PRINTED (real Display) into files whose names, nesting
//! and argument order decide the roles (explicit files, one directory, directory + files, extra and
//! misleading files, missing files, shuffled); role files and directories are sometimes symbolic links
//! (the roles must not shift), a dangling link or a link to the containing directory makes the command fail.
//!
//! The binary is $ANTHEM_CLI_EXE, scratch space $ANTHEM_CLI_SCRATCH (as for `cli_run`).
use super::Op;
use crate::{
    conv,
    ext::{compext as x, tasks as t},
    rng::Rng,
    sexp::{a, l, s, tagged, Sexp},
};
use anthem::verif::arguments::{Decomposition, FormulaRepresentation};
use anthem::syntax_tree::fol::sigma_0 as fol;
use either::Either;
use std::{
    io::Read as _,
    path::{Path, PathBuf},
    process::{Command, Stdio},
    sync::atomic::{AtomicUsize, Ordering},
    time::{Duration, Instant},
};

type R<T> = Result<T, String>;

// ------------------------------------------------------------------ file trees
#[derive(Clone, Debug)]
enum Target {
    File(String),
    Special,
    Dangling,
    Loop,
}
#[derive(Clone, Debug)]
enum Node {
    File(String, String),
    Special(String),
    Dir(String, Vec<Node>),
    Link(String, Target),
    LinkDir(String, Vec<Node>),
}
/// where the targets of links live: a sibling of the working directory (never walked)
struct Store {
    dir: PathBuf,
    next: usize,
}
impl Store {
    fn fresh(&mut self) -> R<PathBuf> {
        std::fs::create_dir_all(&self.dir).map_err(|e| format!("mkdir {}: {e}", self.dir.display()))?;
        self.next += 1;
        Ok(self.dir.join(format!("t{}", self.next)))
    }
}
impl Node {
    fn name(&self) -> &str {
        match self {
            Node::File(n, _) | Node::Special(n) | Node::Dir(n, _) | Node::Link(n, _) | Node::LinkDir(n, _) => n,
        }
    }
    fn sexp(&self) -> Sexp {
        match self {
            Node::File(n, t) => tagged("file", vec![s(n), s(t)]),
            Node::Special(n) => tagged("special", vec![s(n)]),
            Node::Dir(n, cs) => {
                let mut v = vec![s(n)];
                v.extend(cs.iter().map(|c| c.sexp()));
                tagged("dir", v)
            }
            Node::Link(n, t) => tagged(
                "link",
                vec![
                    s(n),
                    match t {
                        Target::File(text) => tagged("file", vec![s(text)]),
                        Target::Special => a("special"),
                        Target::Dangling => a("dangling"),
                        Target::Loop => a("loop"),
                    },
                ],
            ),
            Node::LinkDir(n, cs) => tagged("link", vec![s(n), tagged("dir", cs.iter().map(|c| c.sexp()).collect())]),
        }
    }
    fn parse(e: &Sexp) -> R<Node> {
        match e.tag() {
            Some(("file", [n, t])) => Ok(Node::File(conv::string_of(n)?, conv::string_of(t)?)),
            Some(("special", [n])) => Ok(Node::Special(conv::string_of(n)?)),
            Some(("dir", rest)) if !rest.is_empty() => {
                Ok(Node::Dir(conv::string_of(&rest[0])?, rest[1..].iter().map(Node::parse).collect::<R<_>>()?))
            }
            Some(("link", [n, t])) => {
                let n = conv::string_of(n)?;
                match t {
                    Sexp::A(x) if x == "special" => Ok(Node::Link(n, Target::Special)),
                    Sexp::A(x) if x == "dangling" => Ok(Node::Link(n, Target::Dangling)),
                    Sexp::A(x) if x == "loop" => Ok(Node::Link(n, Target::Loop)),
                    _ => match t.tag() {
                        Some(("file", [text])) => Ok(Node::Link(n, Target::File(conv::string_of(text)?))),
                        Some(("dir", cs)) => Ok(Node::LinkDir(n, cs.iter().map(Node::parse).collect::<R<_>>()?)),
                        _ => Err(format!("link target: {}", t.to_text())),
                    },
                }
            }
            _ => Err(format!("node: {}", e.to_text())),
        }
    }
    /// create the node below `dir`; `top`: the node is a path argument
    fn create(&self, dir: &Path, store: &mut Store, top: bool) -> R<()> {
        use std::os::unix::fs::symlink;
        let bad = |n: &str| n.is_empty() || n == "." || n == ".." || n.contains('/') || n.contains('\0');
        if bad(self.name()) {
            return Err(format!("file name {:?}", self.name()));
        }
        let p = dir.join(self.name());
        let sym = |t: &Path, p: &Path| symlink(t, p).map_err(|e| format!("symlink {}: {e}", p.display()));
        match self {
            Node::File(_, text) => std::fs::write(&p, text.as_bytes()).map_err(|e| format!("write {}: {e}", p.display())),
            // a socket (std only); where the path is too long for sun_path, a link to a device
            Node::Special(_) => {
                if std::os::unix::net::UnixListener::bind(&p).is_err() {
                    sym(Path::new("/dev/null"), &p)?;
                }
                Ok(())
            }
            Node::Dir(_, cs) => {
                std::fs::create_dir(&p).map_err(|e| format!("mkdir {}: {e}", p.display()))?;
                for c in cs {
                    c.create(&p, store, false)?;
                }
                Ok(())
            }
            Node::Link(_, Target::File(text)) => {
                let t = store.fresh()?;
                std::fs::write(&t, text.as_bytes()).map_err(|e| format!("write {}: {e}", t.display()))?;
                if store.next % 2 == 0 {
                    // through a second link
                    let t2 = store.fresh()?;
                    sym(&t, &t2)?;
                    sym(&t2, &p)
                } else {
                    sym(&t, &p)
                }
            }
            Node::Link(_, Target::Special) => sym(Path::new("/dev/null"), &p),
            Node::Link(n, Target::Dangling) => {
                let t = store.fresh()?;
                if store.next % 2 == 0 {
                    sym(&t, &p) // missing target
                } else {
                    sym(Path::new(n), &p) // the link itself: ELOOP
                }
            }
            Node::Link(_, Target::Loop) => {
                if top {
                    return Err("a loop link as an argument is not realisable (walkdir's ancestor stack is empty)".into());
                }
                sym(Path::new("."), &p)
            }
            Node::LinkDir(_, cs) => {
                let t = store.fresh()?;
                std::fs::create_dir(&t).map_err(|e| format!("mkdir {}: {e}", t.display()))?;
                for c in cs {
                    c.create(&t, store, false)?;
                }
                sym(&t, &p)
            }
        }
    }
}

// ------------------------------------------------------------------ the case
struct Case {
    equivalence: String,
    decomposition: Option<String>,
    direction: Option<String>,
    repr: Option<String>,
    bypass: bool,
    no_simplify: bool,
    no_eq_break: bool,
    no_proof_search: bool,
    save: Option<String>,
    files: Vec<Node>,
}

fn opt_atom(x: &Option<String>) -> Sexp {
    match x {
        Some(v) => a(v),
        None => a("none"),
    }
}
fn parse_opt_atom(e: &Sexp, allowed: &[&str]) -> R<Option<String>> {
    let v = e.as_str()?;
    if v == "none" {
        Ok(None)
    } else if allowed.contains(&v) {
        Ok(Some(v.to_string()))
    } else {
        Err(format!("option value: {v}"))
    }
}

impl Case {
    fn sexp(&self) -> Sexp {
        let mut files = vec![];
        files.extend(self.files.iter().map(|n| n.sexp()));
        tagged(
            "verify",
            vec![
                tagged("equivalence", vec![a(&self.equivalence)]),
                tagged("decomposition", vec![opt_atom(&self.decomposition)]),
                tagged("direction", vec![opt_atom(&self.direction)]),
                tagged("repr", vec![opt_atom(&self.repr)]),
                tagged("bypass", vec![conv::boolean(self.bypass)]),
                tagged("no-simplify", vec![conv::boolean(self.no_simplify)]),
                tagged("no-eq-break", vec![conv::boolean(self.no_eq_break)]),
                tagged("no-proof-search", vec![conv::boolean(self.no_proof_search)]),
                tagged("save", vec![match &self.save { Some(d) => s(d), None => a("none") }]),
                tagged("files", files),
            ],
        )
    }
    fn parse(e: &Sexp) -> R<Case> {
        let bad = || format!("cli_verify: {}", e.to_text());
        let Some(("verify", [eq, dec, dir, repr, byp, ns, nb, nps, save, files])) = e.tag() else { return Err(bad()) };
        let one = |x: &Sexp, tag: &str| -> R<Sexp> {
            match x.tag() {
                Some((t, [v])) if t == tag => Ok(v.clone()),
                _ => Err(format!("cli_verify: ({tag} _) expected: {}", x.to_text())),
            }
        };
        let equivalence = one(eq, "equivalence")?.as_str()?.to_string();
        if equivalence != "strong" && equivalence != "external" {
            return Err(bad());
        }
        let files = match files.tag() {
            Some(("files", ns)) => ns.iter().map(Node::parse).collect::<R<Vec<_>>>()?,
            _ => return Err(bad()),
        };
        Ok(Case {
            equivalence,
            decomposition: parse_opt_atom(&one(dec, "decomposition")?, &["independent", "sequential"])?,
            direction: parse_opt_atom(&one(dir, "direction")?, &["universal", "forward", "backward"])?,
            repr: parse_opt_atom(&one(repr, "repr")?, &["mu", "tau-star"])?,
            bypass: conv::parse_bool(&one(byp, "bypass")?)?,
            no_simplify: conv::parse_bool(&one(ns, "no-simplify")?)?,
            no_eq_break: conv::parse_bool(&one(nb, "no-eq-break")?)?,
            no_proof_search: conv::parse_bool(&one(nps, "no-proof-search")?)?,
            save: match one(save, "save")? {
                Sexp::A(x) if x == "none" => None,
                Sexp::S(d) => Some(d),
                other => return Err(format!("cli_verify: save {}", other.to_text())),
            },
            files,
        })
    }
    /// the argument vector after `anthem` - the ONLY thing this file knows about the command line
    fn argv(&self) -> Vec<String> {
        let mut v: Vec<String> = vec!["verify".into(), "--equivalence".into(), self.equivalence.clone()];
        if let Some(d) = &self.decomposition {
            v.extend(["--decomposition".to_string(), d.clone()]);
        }
        if let Some(d) = &self.direction {
            v.extend(["--direction".to_string(), d.clone()]);
        }
        if let Some(r) = &self.repr {
            v.extend(["--formula-representation".to_string(), r.clone()]);
        }
        if self.bypass {
            v.push("--bypass-tightness".into());
        }
        if self.no_simplify {
            v.push("--no-simplify".into());
        }
        if self.no_eq_break {
            v.push("--no-eq-break".into());
        }
        if self.no_proof_search {
            v.push("--no-proof-search".into());
        }
        if let Some(d) = &self.save {
            v.extend(["--save-problems".to_string(), d.clone()]);
        }
        v.extend(self.files.iter().map(|n| n.name().to_string()));
        v
    }
}

// ------------------------------------------------------------------ run
static COUNTER: AtomicUsize = AtomicUsize::new(0);

fn read_all(path: &Path) -> Vec<u8> {
    let mut v = vec![];
    if let Ok(mut f) = std::fs::File::open(path) {
        let _ = f.read_to_end(&mut v);
    }
    v
}

const WARNING_PREFIXES: &[(&str, &str)] = &[
    ("the following program is not tight", "NonTightProgram"),
    ("the following assumption is ignored in the", "InconsistentDirectionAnnotation"),
    ("the following formula is ignored because user guides only permit assumptions", "InvalidRoleWithinUserGuide"),
    ("the universally quantified list of variables contains members which do not occur in the RHS of", "DefinitionWithWarning"),
];

/// everything below `dir` that is a regular file, paths relative to `base`, sorted byte-wise
fn list_files(base: &Path, dir: &Path, out: &mut Vec<(String, Vec<u8>)>) {
    let Ok(rd) = std::fs::read_dir(dir) else { return };
    for e in rd.flatten() {
        let p = e.path();
        match e.file_type() {
            Ok(ft) if ft.is_dir() => list_files(base, &p, out),
            Ok(ft) if ft.is_file() => {
                let rel = p.strip_prefix(base).unwrap_or(&p).to_string_lossy().to_string();
                out.push((rel, read_all(&p)));
            }
            _ => {}
        }
    }
}

fn run_cli_verify(e: &Sexp) -> R<Sexp> {
    let case = Case::parse(e)?;
    if !case.no_proof_search {
        return Err("cli_verify: cases are run with --no-proof-search only".into());
    }
    let exe = std::env::var("ANTHEM_CLI_EXE").map_err(|_| "ANTHEM_CLI_EXE is not set (props/CLIverify.py sets it)".to_string())?;
    let scratch = std::env::var("ANTHEM_CLI_SCRATCH").map(PathBuf::from).unwrap_or_else(|_| std::env::temp_dir());
    let top = scratch.join(format!("verify-{}-{}", std::process::id(), COUNTER.fetch_add(1, Ordering::SeqCst)));
    let _ = std::fs::remove_dir_all(&top);
    // <top>/in: working directory with the input trees; <top>/in/<save dir> is created empty;
    // stdout / stderr go to <top>
    let cwd = top.join("in");
    std::fs::create_dir_all(&cwd).map_err(|e| format!("scratch: {e}"))?;
    let result = (|| -> R<Sexp> {
        let mut store = Store { dir: top.join("store"), next: 0 };
        for n in &case.files {
            n.create(&cwd, &mut store, true)?;
        }
        // the output directory: relative to the working directory, never one of the inputs
        let out_dir = match &case.save {
            Some(d) => {
                if d.starts_with('/') || d.split('/').any(|c| c == "..") {
                    return Err(format!("cli_verify: save directory {d:?}"));
                }
                let p = cwd.join(d);
                if p.exists() {
                    return Err(format!("cli_verify: save directory {d:?} is one of the inputs"));
                }
                std::fs::create_dir_all(&p).map_err(|e| format!("mkdir {}: {e}", p.display()))?;
                Some(p)
            }
            None => None,
        };
        let out_path = top.join("stdout");
        let err_path = top.join("stderr");
        let out_f = std::fs::File::create(&out_path).map_err(|e| e.to_string())?;
        let err_f = std::fs::File::create(&err_path).map_err(|e| e.to_string())?;
        let mut child = Command::new(&exe)
            .args(case.argv())
            .current_dir(&cwd)
            .env("RUST_BACKTRACE", "0")
            .stdin(Stdio::null())
            .stdout(Stdio::from(out_f))
            .stderr(Stdio::from(err_f))
            .spawn()
            .map_err(|e| format!("spawn {exe}: {e}"))?;
        let limit = Duration::from_secs(std::env::var("ANTHEM_CLI_TIMEOUT").ok().and_then(|x| x.parse().ok()).unwrap_or(30));
        let t0 = Instant::now();
        let mut nap = Duration::from_micros(300);
        let status = loop {
            match child.try_wait().map_err(|e| e.to_string())? {
                Some(st) => break st,
                None => {
                    if t0.elapsed() > limit {
                        let _ = child.kill();
                        let _ = child.wait();
                        return Ok(l(vec![a("timeout")]));
                    }
                    std::thread::sleep(nap);
                    if nap < Duration::from_millis(20) {
                        nap *= 2;
                    }
                }
            }
        };
        let out = read_all(&out_path);
        let err = read_all(&err_path);
        let mut written = vec![];
        if let Some(d) = &out_dir {
            list_files(&cwd, d, &mut written);
        }
        written.sort_by(|x, y| x.0.as_bytes().cmp(y.0.as_bytes()));
        // the save directory is named as on the command line (`out/` and `./out` keep their spelling)
        let files = tagged(
            "files",
            written
                .iter()
                .map(|(p, b)| {
                    let shown = match (&case.save, &out_dir) {
                        (Some(d), Some(od)) => {
                            let inside = cwd.join(p);
                            let rel = inside.strip_prefix(od).map(|r| r.to_string_lossy().to_string()).unwrap_or_else(|_| p.clone());
                            if d.ends_with('/') { format!("{d}{rel}") } else { format!("{d}/{rel}") }
                        }
                        _ => p.clone(),
                    };
                    l(vec![s(&shown), s(&String::from_utf8_lossy(b))])
                })
                .collect(),
        );
        let panicked = status.code() == Some(101) || err.windows(11).any(|w| w == b"panicked at");
        Ok(if panicked {
            l(vec![a("panic")])
        } else {
            match status.code() {
                Some(0) => {
                    let text = String::from_utf8_lossy(&out);
                    let warnings: Vec<Sexp> = text
                        .lines()
                        .filter_map(|ln| WARNING_PREFIXES.iter().find(|(p, _)| ln.starts_with(p)).map(|(_, k)| s(k)))
                        .collect();
                    tagged("exit0", vec![tagged("warnings", warnings), files])
                }
                Some(c) if written.is_empty() => tagged("error", vec![a(&c.to_string())]),
                Some(c) => tagged("error", vec![a(&c.to_string()), files]),
                None => {
                    let sig = std::os::unix::process::ExitStatusExt::signal(&status).unwrap_or(0);
                    tagged("signal", vec![a(&sig.to_string())])
                }
            }
        })
    })();
    let _ = std::fs::remove_dir_all(&top);
    result
}

// ------------------------------------------------------------------ generation
/// the files of a task in role order: what the case is MEANT to be (the layout may change it)
struct Roles {
    external: bool,
    /// strong: left, right; external: the specification program (if any) first, then the program
    programs: Vec<String>,
    specification: Option<String>,
    user_guide: Option<String>,
    proof_outline: Option<String>,
}

fn dec_name(d: &Decomposition) -> &'static str {
    match d {
        Decomposition::Independent => "independent",
        Decomposition::Sequential => "sequential",
    }
}
fn dir_name(d: &fol::Direction) -> &'static str {
    match d {
        fol::Direction::Universal => "universal",
        fol::Direction::Forward => "forward",
        fol::Direction::Backward => "backward",
    }
}
fn repr_name(r: &FormulaRepresentation) -> &'static str {
    match r {
        FormulaRepresentation::Mu => "mu",
        FormulaRepresentation::TauStar => "tau-star",
    }
}

fn gen_of(ops: Vec<Op>, name: &str, rng: &mut Rng) -> Sexp {
    let op = ops.iter().find(|o| o.name == name).unwrap_or_else(|| panic!("cli_verify generator: no op {name}"));
    (op.generate)(rng)
}

/// name pairs (first < second byte-wise) for two programs inside one directory
const PAIRS: &[(&str, &str)] = &[
    ("a.lp", "b.lp"),
    ("1.lp", "2.lp"),
    ("left.lp", "right.lp"),
    ("A.lp", "a.lp"),
    ("p.1.lp", "p.lp"),
    ("orig.lp", "simplified.lp"),
    ("Z.lp", "a.lp"),
    ("prog.lp", "prog2.lp"),
    ("x-1.lp", "x.lp"),
];
const SPEC_NAMES: &[&str] = &["s.spec", "task.spec", "a.b.spec", "0.spec"];
const UG_NAMES: &[&str] = &["u.ug", "guide.ug", "task.ug", "z.ug"];
const PO_NAMES: &[&str] = &["o.po", "outline.po", "proof.po"];
/// files that must NOT be taken for inputs (bucket `other`), and one that is one (`x.y.lp`)
const OTHER_NAMES: &[&str] = &["README", "notes.txt", ".lp", ".hidden.txt", "b.LP", "c.lp.bak", "d.lp~", "e.", "spec", "f.ugx", "g.lpx", "lp"];

fn extra_text(rng: &mut Rng) -> String {
    match rng.below(4) {
        0 => String::new(),
        1 => "this is not a program (\n".to_string(),
        2 => "q :- not q.\n".to_string(),
        _ => "p(X) :- q(X), X > 1.\n".to_string(),
    }
}

fn layout(rng: &mut Rng, roles: &Roles) -> Vec<Node> {
    let (n1, n2) = *rng.pick(PAIRS);
    // role files in the order that gives the intended roles
    let mut named: Vec<Node> = vec![];
    let mut prog_names = vec![n1, n2].into_iter();
    for p in &roles.programs {
        let n = prog_names.next().unwrap_or("zz.lp");
        named.push(Node::File(n.to_string(), p.clone()));
    }
    if let Some(sp) = &roles.specification {
        named.push(Node::File(rng.pick(SPEC_NAMES).to_string(), sp.clone()));
    }
    if let Some(u) = &roles.user_guide {
        named.push(Node::File(rng.pick(UG_NAMES).to_string(), u.clone()));
    }
    if let Some(o) = &roles.proof_outline {
        named.push(Node::File(rng.pick(PO_NAMES).to_string(), o.clone()));
    }
    // extras: files of bucket `other`, a socket / a link to a device with a tempting name, a program that
    // sorts last, a dangling link / a link to the containing directory (the command fails)
    let mut extras: Vec<Node> = vec![];
    for _ in 0..rng.weighted(&[5, 3, 2]) {
        match rng.weighted(&[24, 4, 8, 4, 4, 2, 1]) {
            0 => extras.push(Node::File(rng.pick(OTHER_NAMES).to_string(), extra_text(rng))),
            1 => extras.push(if rng.chance(50) {
                Node::Special("0link.lp".to_string())
            } else {
                Node::Link("0link.lp".to_string(), Target::Special)
            }),
            5 => extras.push(Node::Link(rng.pick(&["gone.txt", "zzzz.lp", "0.spec"]).to_string(), Target::Dangling)),
            6 => extras.push(Node::Link(rng.pick(&["self", "0.lp"]).to_string(), Target::Loop)),
            // a further program / user guide / outline / specification AFTER the intended ones
            2 => extras.push(Node::File("zzz.lp".to_string(), extra_text(rng))),
            3 => extras.push(Node::File("zzz.ug".to_string(), "input: zzz/0.\n".to_string())),
            _ => extras.push(Node::File("zzz.po".to_string(), "lemma: #true.\n".to_string())),
        }
    }
    let dedup = |v: Vec<Node>| -> Vec<Node> {
        let mut seen = std::collections::HashSet::new();
        v.into_iter().filter(|n| seen.insert(n.name().to_string())).collect()
    };
    let dname = rng.pick(&["d", "task", "dir.lp", "in.d"]).to_string();
    let nodes = match rng.weighted(&[30, 30, 15, 10, 8, 7]) {
        // explicit files in role order, extras after them
        0 => {
            named.extend(extras);
            dedup(named)
        }
        // one directory (walked in name order), sometimes one level deeper
        1 => {
            named.extend(extras);
            let inner = Node::Dir(dname.clone(), dedup(named));
            if rng.chance(25) { vec![Node::Dir("top".to_string(), vec![inner])] } else { vec![inner] }
        }
        // a directory with the knowledge files (user guide, outline, extras), the programs / specification explicit
        2 => {
            let (explicit, rest): (Vec<Node>, Vec<Node>) =
                named.into_iter().partition(|n| n.name().ends_with(".lp") || n.name().ends_with(".spec"));
            let mut inside = rest;
            inside.extend(extras);
            let mut v = dedup(explicit);
            let d = Node::Dir(dname, dedup(inside));
            if rng.chance(50) { v.push(d) } else { v.insert(0, d) }
            v
        }
        // the two programs in different directories: the order of the ARGUMENTS decides
        3 => {
            let mut v = vec![];
            let mut k = 0;
            let mut rest = vec![];
            for n in named {
                if n.name().ends_with(".lp") {
                    // the second directory sorts BEFORE the first one by name
                    let d = if k == 0 { "m" } else { "c" };
                    // ... and inside, the second program has the smaller name
                    let renamed = match n {
                        Node::File(_, t) => Node::File(if k == 0 { "y.lp".into() } else { "b.lp".into() }, t),
                        other => other,
                    };
                    v.push(Node::Dir(d.to_string(), vec![renamed]));
                    k += 1;
                } else {
                    rest.push(n);
                }
            }
            rest.extend(extras);
            v.extend(dedup(rest));
            v
        }
        // shuffled arguments: the roles fall where they fall
        4 => {
            named.extend(extras);
            let mut v = dedup(named);
            for i in (1..v.len()).rev() {
                let j = rng.below(i + 1);
                v.swap(i, j);
            }
            v
        }
        // one role file missing
        _ => {
            if !named.is_empty() {
                let k = rng.below(named.len());
                named.remove(k);
            }
            named.extend(extras);
            let v = dedup(named);
            if rng.chance(50) && !v.is_empty() { vec![Node::Dir(dname, v)] } else { v }
        }
    };
    nodes.into_iter().map(|n| linkify(rng, n, true)).collect()
}

/// F23 (/repo 8bcb21d): a regular file becomes a link to a regular file with the same text (7%), a
/// directory a link to a directory with the same entries (10%): walkdir follows them, the roles stay.
/// A link to the containing directory cannot be an argument: there it becomes a dangling link.
fn linkify(rng: &mut Rng, n: Node, top: bool) -> Node {
    match n {
        Node::File(name, text) if rng.chance(7) => Node::Link(name, Target::File(text)),
        Node::Dir(name, cs) => {
            let cs = cs.into_iter().map(|c| linkify(rng, c, false)).collect();
            if rng.chance(10) { Node::LinkDir(name, cs) } else { Node::Dir(name, cs) }
        }
        Node::Link(name, Target::Loop) if top => Node::Link(name, Target::Dangling),
        other => other,
    }
}

fn gen_case(rng: &mut Rng, want_external: Option<bool>) -> Sexp {
    let external = want_external.unwrap_or_else(|| rng.chance(55));
    // --- the task: trees and flag values from the framework's generators
    let (roles, dec, dir, repr, bypass, simplify, brk) = 'task: {
        if external {
            for _ in 0..20 {
                let e = match rng.weighted(&[45, 25, 30]) {
                    0 => gen_of(super::compext::ops(), "external_decompose_full", rng),
                    1 => gen_of(super::compext::ops(), "external_decompose_small", rng),
                    _ => gen_of(super::headpred::ops(), "external_roles", rng),
                };
                let Ok(mut task) = x::parse_task(&e) else { continue };
                // 14%: a positive loop through an OUTPUT predicate (public recursion): the program is not tight
                // and nothing else is wrong with it, so --bypass-tightness decides between problems and an error
                let mut nontight = false;
                if rng.chance(14) {
                    let outs: Vec<&fol::Predicate> = task
                        .user_guide
                        .entries
                        .iter()
                        .filter_map(|e| match e {
                            fol::UserGuideEntry::OutputPredicate(p) if p.arity <= 3 => Some(p),
                            _ => None,
                        })
                        .collect();
                    if !outs.is_empty() {
                        let p = *rng.pick(&outs);
                        let args: Vec<String> = (1..=p.arity).map(|i| format!("X{i}")).collect();
                        let atom = if args.is_empty() { p.symbol.clone() } else { format!("{}({})", p.symbol, args.join(", ")) };
                        if let Ok(extra) = format!("{atom} :- {atom}.").parse::<anthem::syntax_tree::asp::mini_gringo::Program>() {
                            task.program.rules.extend(extra.rules);
                            nontight = true;
                        }
                    }
                }
                let (programs, specification) = match &task.specification {
                    Either::Left(p) => (vec![p.to_string(), task.program.to_string()], None),
                    Either::Right(sp) => (vec![task.program.to_string()], Some(sp.to_string())),
                };
                let roles = Roles {
                    external: true,
                    programs,
                    specification,
                    user_guide: Some(task.user_guide.to_string()),
                    proof_outline: if task.proof_outline.formulas.is_empty() && rng.chance(85) { None } else { Some(task.proof_outline.to_string()) },
                };
                // the generators rarely bypass; non-tight programs are frequent among the adversarial ones
                let bypass = task.bypass_tightness || rng.chance(if nontight { 50 } else { 20 });
                break 'task (roles, task.decomposition, task.direction, task.formula_representation, bypass, task.simplify, task.break_equivalences);
            }
        }
        let e = gen_of(super::compose::ops(), if rng.chance(80) { "strong_decompose_full" } else { "strong_decompose_verify" }, rng);
        let parsed = (|| -> R<_> {
            match e.as_list()? {
                [flags, left, right] => match flags.as_list()? {
                    [r, dir, dec, simplify, brk] => Ok((
                        t::parse_repr(r)?,
                        conv::parse_direction(dir)?,
                        t::parse_decomposition(dec)?,
                        conv::parse_bool(simplify)?,
                        conv::parse_bool(brk)?,
                        conv::parse_program(left)?,
                        conv::parse_program(right)?,
                    )),
                    _ => Err("flags".to_string()),
                },
                _ => Err("case".to_string()),
            }
        })();
        let (r, dir, dec, simplify, brk, left, right) = parsed.unwrap_or_else(|e| panic!("cli_verify generator: strong case: {e}"));
        let roles = Roles {
            external: false,
            programs: vec![left.to_string(), right.to_string()],
            specification: None,
            // knowledge files are ignored by strong equivalence
            user_guide: if rng.chance(10) { Some("input: p/1.\n".to_string()) } else { None },
            proof_outline: None,
        };
        (roles, dec, dir, r, rng.chance(5), simplify, brk)
    };
    // --- the command line: an option whose value is the default is left out half of the time;
    // 8%: left out whatever the task says (the default applies)
    let opt = |rng: &mut Rng, value: &str, default: &str| -> Option<String> {
        if rng.chance(8) || (value == default && rng.chance(50)) { None } else { Some(value.to_string()) }
    };
    let case = Case {
        // 4%: the other equivalence on the same files
        equivalence: if roles.external != rng.chance(4) { "external".into() } else { "strong".into() },
        decomposition: opt(rng, dec_name(&dec), "sequential"),
        direction: opt(rng, dir_name(&dir), "universal"),
        repr: opt(rng, repr_name(&repr), "tau-star"),
        bypass,
        no_simplify: !simplify,
        no_eq_break: !brk,
        no_proof_search: true,
        save: if rng.chance(94) { Some(rng.pick(&["out", "out", "out", "out", "out/", "o/p", "./out", "problems.d"]).to_string()) } else { None },
        files: layout(rng, &roles),
    };
    case.sexp()
}

fn gen_any(rng: &mut Rng) -> Sexp {
    gen_case(rng, None)
}
fn gen_strong(rng: &mut Rng) -> Sexp {
    gen_case(rng, Some(false))
}
fn gen_external(rng: &mut Rng) -> Sexp {
    gen_case(rng, Some(true))
}

pub fn ops() -> Vec<Op> {
    vec![
        Op { name: "cli_verify", generate: gen_any, run: run_cli_verify },
        // generation-only aliases (one equivalence each); `run` is the same function
        Op { name: "cli_verify_strong", generate: gen_strong, run: run_cli_verify },
        Op { name: "cli_verify_external", generate: gen_external, run: run_cli_verify },
    ]
}
