//! `gen_text_<kind>`: generation-only ops that print random TREES of the framework's generators as
//! anthem text, i.e. ACCEPTED inputs of the command line (no mutation).  The crash stream of C16
//! (props/C16.py) and the idempotence step of C18 (props/C18cls.py) feed them to the real binary;
//! `run` is the identity.  Each case is one string `"<text>"`.
//!
//!   gen_text_theory   theories for `simplify` 3x3, `translate --with gamma|completion`, `parse --as theory`:
//!                     redex shapes of every rule of the three portfolios (ext::simplint::redex_of for each of
//!                     the 13 intuitionistic rewrites, ext::simplcls::redex for each of the 5 classic ones, at
//!                     the root and nested), cascades, the many-pass families of ext::clsterm, mixed-sort
//!                     quantifier blocks (all nine pairs of sorts, variables and placeholders of every sort,
//!                     both orientations of the equations), the generic theory generator with adversarial
//!                     names, tau* theories of generated programs, completable definition theories
//!   gen_text_deep     only the many-pass families of ext::clsterm (13 and more passes of the fixpoint loop)
//!   gen_text_program  programs for `translate --with tau-star|mu|natural`, `analyze`, `verify`: printed trees of
//!                     every program generator, rules with long arithmetic bodies, `not not` / choice rules
//!   gen_text_spec     specifications (annotated formulas of every role and direction)
//!   gen_text_outline  proof outlines (definitions, lemmas, inductive lemmas; mostly acceptable)
//!   gen_text_ug       user guides (input / output declarations, placeholders of each sort, assumptions)
use super::Op;
use crate::{
    ext::{asprt, clsterm, completion as comp, folrt, natural as ngen, simplcls, simplint, tasks, taustar},
    generate as g,
    rng::Rng,
    sexp::{s, Sexp},
};
use anthem::{
    syntax_tree::{asp::mini_gringo as asp, fol::sigma_0 as fol},
    translating::formula_representation::tau_star::TauStar as _,
};
use fol::{Formula as F, GeneralTerm as G, IntegerTerm as I, Sort, SymbolicTerm as S};

fn var(name: &str, sort: Sort) -> fol::Variable {
    fol::Variable { name: name.to_string(), sort }
}
fn vt(v: &fol::Variable) -> G {
    simplcls::var_term(v)
}
fn cmp(l: G, r: fol::Relation, rh: G) -> F {
    F::AtomicFormula(fol::AtomicFormula::Comparison(fol::Comparison { term: l, guards: vec![fol::Guard { relation: r, term: rh }] }))
}
fn atom(p: &str, ts: Vec<G>) -> F {
    F::AtomicFormula(fol::AtomicFormula::Atom(fol::Atom { predicate_symbol: p.to_string(), terms: ts }))
}
fn bin(c: fol::BinaryConnective, l: F, r: F) -> F {
    F::BinaryFormula { connective: c, lhs: l.into(), rhs: r.into() }
}
fn quant(q: fol::Quantifier, vs: Vec<fol::Variable>, f: F) -> F {
    F::QuantifiedFormula { quantification: fol::Quantification { quantifier: q, variables: vs }, formula: f.into() }
}
fn any_sort(rng: &mut Rng) -> Sort {
    *rng.pick(&[Sort::General, Sort::Integer, Sort::Symbol])
}

/// a term several block variables are equated with: variables, placeholders and constants of every sort
fn shared_term(rng: &mut Rng, free: &[fol::Variable]) -> G {
    match rng.weighted(&[10, 3, 2, 2, 2, 2, 1, 1, 2]) {
        0 => vt(rng.pick(free)),
        1 => G::FunctionConstant(rng.pick(&["c", "n"]).to_string()),
        2 => G::IntegerTerm(I::FunctionConstant(rng.pick(&["n", "k"]).to_string())),
        3 => G::SymbolicTerm(S::FunctionConstant(rng.pick(&["c", "m"]).to_string())),
        4 => G::IntegerTerm(I::Numeral(rng.range(-1, 3) as isize)),
        5 => G::SymbolicTerm(S::Symbol(rng.pick(&["a", "b"]).to_string())),
        6 => G::Infimum,
        7 => G::Supremum,
        _ => {
            let v = rng.pick(free).clone();
            match v.sort {
                Sort::Integer => G::IntegerTerm(I::BinaryOperation {
                    op: fol::BinaryOperator::Add,
                    lhs: I::Variable(v.name).into(),
                    rhs: I::Numeral(1).into(),
                }),
                _ => vt(&v),
            }
        }
    }
}

/// A quantifier block over 2-4 variables whose sorts are drawn independently (all nine pairs of
/// sorts occur), each equated - in either orientation - with a term; most of the time two or more of
/// them with the SAME term (the redex of simplify_transitive_equality, decided by the subsort
/// relation; also of substitute_defined_variables / restrict_quantifier_domain).  The variables are
/// used again in atoms and comparisons of their own sort, at the root or below a connective / binder.
pub fn mixed_block(rng: &mut Rng) -> F {
    let names = ["N", "S", "X", "Y", "I", "A", "Z"];
    let n = 2 + rng.weighted(&[6, 3, 1]);
    let mut vs: Vec<fol::Variable> = vec![];
    while vs.len() < n {
        let v = var(*rng.pick(&names), any_sort(rng));
        if !vs.iter().any(|w| w.name == v.name) {
            vs.push(v);
        }
    }
    let free: Vec<fol::Variable> = vec![var("X", Sort::General), var("V", any_sort(rng)), var("M", Sort::Integer)]
        .into_iter()
        .filter(|v| !vs.iter().any(|w| w.name == v.name))
        .collect();
    let free = if free.is_empty() { vec![var("W", Sort::General)] } else { free };
    let same = rng.chance(75);
    let t0 = shared_term(rng, &free);
    let mut parts = vec![];
    for v in &vs {
        if rng.chance(88) {
            let t = if same || rng.chance(30) { t0.clone() } else { shared_term(rng, &free) };
            parts.push(if rng.chance(50) { cmp(vt(v), fol::Relation::Equal, t) } else { cmp(t, fol::Relation::Equal, vt(v)) });
        }
    }
    // further occurrences of the variables, at their own sort
    if rng.chance(85) {
        let mut ts: Vec<G> = vs.iter().map(vt).collect();
        ts.truncate(1 + rng.below(3));
        parts.push(atom(*rng.pick(&["p", "q", "r"]), ts));
    }
    for v in &vs {
        if rng.chance(35) {
            parts.push(match v.sort {
                Sort::Integer => cmp(vt(v), *rng.pick(&[fol::Relation::Greater, fol::Relation::LessEqual, fol::Relation::NotEqual]), G::IntegerTerm(I::Numeral(0))),
                _ => atom(*rng.pick(&["r", "s"]), vec![vt(v)]),
            });
        }
    }
    if parts.is_empty() {
        parts.push(atom("p", vs.iter().map(vt).collect()));
    }
    // random order, left-nested as the parser builds it or random nesting
    for i in (1..parts.len()).rev() {
        let j = rng.below(i + 1);
        parts.swap(i, j);
    }
    let body = parts.into_iter().reduce(|l, r| bin(fol::BinaryConnective::Conjunction, l, r)).unwrap();
    let block = quant(if rng.chance(88) { fol::Quantifier::Exists } else { fol::Quantifier::Forall }, vs, body);
    match rng.weighted(&[5, 3, 1, 1, 1]) {
        0 => block,
        1 => {
            // forall X (q(X) <-> block)
            let x = free[0].clone();
            let c = rng.pick(&[fol::BinaryConnective::Equivalence, fol::BinaryConnective::Implication, fol::BinaryConnective::ReverseImplication]).clone();
            quant(fol::Quantifier::Forall, vec![x.clone()], bin(c, atom("q", vec![vt(&x)]), block))
        }
        2 => bin(fol::BinaryConnective::Conjunction, block, atom("t", vec![])),
        3 => F::UnaryFormula { connective: fol::UnaryConnective::Negation, formula: block.into() },
        _ => quant(fol::Quantifier::Exists, vec![free[0].clone()], block),
    }
}

/// keep names that print as variables (the pool of ext::simplint contains `a`)
fn simplint_cfg(rng: &mut Rng) -> g::Cfg {
    let mut c = simplint::cfg(rng);
    c.var_names.retain(|n| n.starts_with(|ch: char| ch.is_ascii_uppercase()));
    c
}

/// one formula rich in redexes of the simplification rules
pub fn redex_formula(rng: &mut Rng) -> F {
    match rng.weighted(&[13, 4, 3, 10, 6, 8, 6, 3]) {
        0 => {
            // the redex shape of one of the 13 intuitionistic rewrites
            let c = simplint_cfg(rng);
            let k = rng.below(simplint::N_KINDS);
            let d = rng.below(3);
            simplint::redex_of(k, rng, &c, d)
        }
        1 => {
            let c = simplint_cfg(rng);
            let d = 1 + rng.below(2);
            simplint::cascade(rng, &c, d)
        }
        2 => {
            let c = simplint_cfg(rng);
            let d = 1 + rng.below(3);
            simplint::formula(rng, &c, d)
        }
        3 => {
            // the redex shape of one of the 5 classic rewrites
            let rule = *rng.pick(&[simplcls::Rule::Rdn, simplcls::Rule::Sdv, simplcls::Rule::Rqd, simplcls::Rule::Eqs, simplcls::Rule::Ste]);
            simplcls::formula_for(rng, rule)
        }
        4 => simplcls::formula_nested(rng),
        5 => mixed_block(rng),
        6 => clsterm::tame_case(rng),
        _ => folrt::formula(rng),
    }
}

fn tame_program(rng: &mut Rng) -> asp::Program {
    match rng.below(3) {
        0 => comp::planted_program(rng).0,
        1 => ngen::program(rng),
        _ => {
            let cfg = g::AspCfg { max_rules: 4, ..g::AspCfg::default() };
            g::program(rng, &cfg)
        }
    }
}

fn theory_text(rng: &mut Rng) -> String {
    match rng.weighted(&[70, 8, 8, 8, 6]) {
        0 => {
            let n = 1 + rng.weighted(&[6, 3, 1]);
            fol::Theory { formulas: (0..n).map(|_| redex_formula(rng)).collect() }.to_string()
        }
        1 => tame_program(rng).tau_star().to_string(),
        2 => folrt::theory(rng).to_string(),
        3 => comp::handmade_theory(rng).to_string(),
        _ => {
            // tau* of a rule with a long arithmetic body / of a program with double negations and choices
            let text = program_text(rng);
            match text.parse::<asp::Program>() {
                Ok(p) if !text.contains("V18446744073709551") => p.tau_star().to_string(),
                _ => fol::Theory { formulas: vec![mixed_block(rng)] }.to_string(),
            }
        }
    }
}

/// rules with double negations and choice heads over few predicates
fn nn_choice_program(rng: &mut Rng) -> String {
    let preds = ["p", "q", "r"];
    let n = 1 + rng.below(4);
    let mut out = String::new();
    for _ in 0..n {
        let unary = rng.chance(40);
        let at = |rng: &mut Rng| -> String {
            let p = *rng.pick(&preds);
            if unary { format!("{p}({})", rng.pick(&["X", "X", "1", "a", "X+1"])) } else { p.to_string() }
        };
        let k = rng.weighted(&[2, 4, 3, 1]);
        let body: Vec<String> = (0..k).map(|_| format!("{}{}", rng.pick(&["", "not ", "not not ", "not not "]), at(rng))).collect();
        let head = match rng.weighted(&[4, 4, 1]) {
            0 => at(rng),
            1 => format!("{{{}}}", at(rng)),
            _ => String::new(),
        };
        if body.is_empty() {
            if head.is_empty() { continue }
            out.push_str(&format!("{head}.\n"));
        } else {
            out.push_str(&format!("{head} :- {}.\n", body.join(", ")));
        }
    }
    out
}

fn program_text(rng: &mut Rng) -> String {
    match rng.weighted(&[15, 10, 15, 15, 15, 12, 8, 10]) {
        0 => {
            let cfg = if rng.chance(10) { asprt::cfg_with_keyword() } else { asprt::cfg() };
            asprt::program(rng, &cfg).to_string()
        }
        1 => {
            let cfg = taustar::TCfg::adversarial(rng);
            taustar::program(rng, &cfg).to_string()
        }
        2 => ngen::program(rng).to_string(),
        3 => comp::planted_program(rng).0.to_string(),
        4 => g::program(rng, &g::AspCfg::default()).to_string(),
        5 => {
            let simple = rng.chance(50);
            let p = tasks::strong_pair(rng, simple);
            if rng.chance(50) { p.0.to_string() } else { p.1.to_string() }
        }
        6 => {
            let big = rng.chance(40);
            let n = 1 + rng.below(if big { 16 } else { 5 });
            clsterm::long_body_rule(rng, n)
        }
        _ => nn_choice_program(rng),
    }
}

const KNOWN: &[(&str, usize)] = &[("p", 1), ("q", 1), ("r", 1), ("q", 2), ("s", 0)];

fn gen_theory(rng: &mut Rng) -> Sexp {
    s(&theory_text(rng))
}
fn gen_deep(rng: &mut Rng) -> Sexp {
    s(&deep_theory_text(rng))
}
/// a theory of one or two formulas of the many-pass families (mostly 13 and more passes)
pub fn deep_theory_text(rng: &mut Rng) -> String {
    let n = 1 + rng.weighted(&[8, 2]);
    let fs: Vec<F> = (0..n)
        .map(|_| match rng.below(4) {
            0 => {
                let n = 10 + rng.below(30);
                clsterm::fam_prefix(rng, n)
            }
            1 => {
                let n = 10 + rng.below(20);
                clsterm::fam_pulled(rng, n)
            }
            2 => {
                let n = 9 + rng.below(8);
                clsterm::fam_taustar(rng, n)
            }
            _ => clsterm::tame_case(rng),
        })
        .collect();
    fol::Theory { formulas: fs }.to_string()
}
fn gen_program(rng: &mut Rng) -> Sexp {
    s(&program_text(rng))
}
fn gen_spec(rng: &mut Rng) -> Sexp {
    if rng.chance(60) {
        s(&folrt::specification(rng).to_string())
    } else {
        // annotated redex-rich formulas
        let n = 1 + rng.below(3);
        let fs = (0..n)
            .map(|_| fol::AnnotatedFormula {
                role: if rng.chance(50) { fol::Role::Spec } else { fol::Role::Assumption },
                direction: folrt::direction(rng),
                name: if rng.chance(30) { "n1".to_string() } else { String::new() },
                formula: redex_formula(rng),
            })
            .collect();
        s(&fol::Specification { formulas: fs }.to_string())
    }
}
fn gen_outline(rng: &mut Rng) -> Sexp {
    s(&tasks::outline(rng, KNOWN, 4).to_string())
}
fn gen_ug(rng: &mut Rng) -> Sexp {
    s(&folrt::user_guide(rng).to_string())
}
fn run_identity(e: &Sexp) -> Result<Sexp, String> {
    Ok(e.clone())
}
/// `text_theory_roundtrip "text"`: does the text parse as a theory whose rendering is the text itself?
/// (ok <formulas>) | (differs) | (err).  Used by the idempotence step of C18 to tell a second CLI run
/// that started from another tree (printer / parser classes of C15) from a real non-fixpoint.
fn run_theory_roundtrip(e: &Sexp) -> Result<Sexp, String> {
    let text = crate::conv::string_of(e)?;
    Ok(match text.parse::<fol::Theory>() {
        Err(_) => crate::sexp::l(vec![crate::sexp::a("err")]),
        Ok(t) => {
            if t.to_string() == text {
                crate::sexp::tagged("ok", vec![crate::conv::unum(t.formulas.len())])
            } else {
                crate::sexp::l(vec![crate::sexp::a("differs")])
            }
        }
    })
}
fn gen_roundtrip(rng: &mut Rng) -> Sexp {
    gen_theory(rng)
}

pub fn ops() -> Vec<Op> {
    vec![
        Op { name: "gen_text_theory", generate: gen_theory, run: run_identity },
        Op { name: "gen_text_deep", generate: gen_deep, run: run_identity },
        Op { name: "gen_text_program", generate: gen_program, run: run_identity },
        Op { name: "gen_text_spec", generate: gen_spec, run: run_identity },
        Op { name: "gen_text_outline", generate: gen_outline, run: run_identity },
        Op { name: "gen_text_ug", generate: gen_ug, run: run_identity },
        Op { name: "text_theory_roundtrip", generate: gen_roundtrip, run: run_theory_roundtrip },
    ]
}
