//! Audit findings A15 / A19 / A20 (docs/AUDIT.md): round trips that the checks of C14 / C15 did not run.
//!
//!   fol_output_reparses   (<command> "input text") -> (skip) | (out (theory G) "printed" <verdict>)
//!        <command> = (simplify intuitionistic|ht|classic shallow|recursive|fixpoint)
//!                  | (translate tau-star|mu|natural|gamma|completion)
//!        The input text is parsed (program or theory, as the command requires), the REAL translation /
//!        simplification portfolio is run exactly as command_line/procedures.rs composes it, the result G
//!        is printed with Display and the printed text is parsed again:
//!        <verdict> = (ok) | (rejected) | (changed (theory G')) | (not-idempotent "printed again").
//!        (skip): the input is refused (parse error, not regular, not completable).
//!        Model side: Model/CliOut.output_theory + the model printer / parser (ocaml/driver/ops_afd.ml).
//!        C15: "this holds in particular for everything the translate and simplify commands print".
//!
//!   asp_node_roundtrip    (<kind> "text") -> (skip err|panic) | (rt <tree> "printed" <verdict>)
//!        <kind> = term | atom | literal | comparison | atomic_formula | head | body | rule | program
//!        str::parse::<asp::Kind>() of the text, Display, str::parse again:
//!        <verdict> = (ok) | (rejected) | (panic) | (changed <tree'>) | (not-idempotent "printed again").
//!        Trees in the wire format of conv.rs (literal / comparison / atomic_formula as body formulas,
//!        body as `(body f..)`).  Model side: Model/AspNodes.parse_<kind>_text.
//!        C14: "program (or rule, term, atom ...)": the stand-alone entry points.
//!
//!   asp_leaf_roundtrip    (<kind> "text") -> (skip err|panic) | (rt "printed" <verdict>)
//!        <kind> = precomputed_term | variable | unary_operator | binary_operator | predicate | sign | relation
//!        implementation only (no model counterpart; judged by props/C14nodes.py).
use super::Op;
use crate::{conv, ext::afd as x, rng::Rng, sexp::{a, l, s, tagged, Sexp}};
use anthem::{
    convenience::{apply::Apply as _, compose::Compose as _},
    syntax_tree::{asp::mini_gringo as asp, fol::sigma_0 as fol},
    translating::{
        classical_reduction::{completion::Completion as _, gamma::Gamma as _},
        formula_representation::{mu::Mu as _, natural::Natural as _, tau_star::TauStar as _},
    },
    verif::simplifying_fol::sigma_0::{classic::CLASSIC, ht::HT, intuitionistic::INTUITIONISTIC},
};

fn skip() -> Sexp { l(vec![a("skip")]) }

// ------------------------------------------------------------------ fol_output_reparses
const PORTFOLIOS: &[&str] = &["classic", "ht", "intuitionistic"];
const STRATEGIES: &[&str] = &["shallow", "recursive", "fixpoint"];

fn gen_output_case(rng: &mut Rng) -> Sexp {
    match rng.weighted(&[55, 12, 8, 10, 5, 5, 5]) {
        0 => {
            // the classic portfolio is where fresh variables are invented (F18)
            let pf = if rng.chance(70) { "classic" } else { *rng.pick(PORTFOLIOS) };
            l(vec![tagged("simplify", vec![a(pf), a(*rng.pick(STRATEGIES))]), s(&x::theory_text(rng))])
        }
        1 => l(vec![tagged("translate", vec![a("gamma")]), s(&x::theory_text(rng))]),
        2 => {
            // half of the cases: the tau* / natural theory of a program (always completable when the heads agree)
            let t = if rng.chance(50) {
                match x::program_text(rng).parse::<asp::Program>() {
                    Ok(p) => {
                        if rng.chance(50) {
                            p.tau_star().to_string()
                        } else {
                            p.clone().natural().unwrap_or_else(|| p.tau_star()).to_string()
                        }
                    }
                    Err(_) => x::theory_text(rng),
                }
            } else {
                x::theory_text(rng)
            };
            l(vec![tagged("translate", vec![a("completion")]), s(&t)])
        }
        3 => l(vec![tagged("translate", vec![a("tau-star")]), s(&x::program_text(rng))]),
        4 => l(vec![tagged("translate", vec![a("natural")]), s(&x::program_text(rng))]),
        5 => l(vec![tagged("translate", vec![a("mu")]), s(&x::program_text(rng))]),
        _ => {
            // tau* followed by a second command, as a user pipes them
            match x::program_text(rng).parse::<asp::Program>() {
                Ok(p) => {
                    let t = p.tau_star().to_string();
                    if rng.chance(50) {
                        l(vec![tagged("translate", vec![a("gamma")]), s(&t)])
                    } else {
                        l(vec![tagged("simplify", vec![a(*rng.pick(PORTFOLIOS)), a(*rng.pick(STRATEGIES))]), s(&t)])
                    }
                }
                Err(_) => l(vec![tagged("translate", vec![a("tau-star")]), s("p.")]),
            }
        }
    }
}

fn simplify(theory: fol::Theory, portfolio: &str, strategy: &str) -> Result<fol::Theory, String> {
    let fs: Vec<fn(fol::Formula) -> fol::Formula> = match portfolio {
        "classic" => [INTUITIONISTIC, HT, CLASSIC].concat(),
        "ht" => [INTUITIONISTIC, HT].concat(),
        "intuitionistic" => [INTUITIONISTIC].concat(),
        p => return Err(format!("portfolio {p}")),
    };
    let mut simplification = fs.into_iter().compose();
    Ok(theory
        .into_iter()
        .map(|formula| match strategy {
            "shallow" => simplification(formula),
            "recursive" => formula.apply(&mut simplification),
            _ => formula.apply_fixpoint(&mut simplification),
        })
        .collect())
}

/// the theory the command prints; None = the command refuses the input
fn output_theory(cmd: &Sexp, text: &str) -> Result<Option<fol::Theory>, String> {
    let bad = || format!("fol_output_reparses: command {}", cmd.to_text());
    let (tag, args) = cmd.tag().ok_or_else(bad)?;
    let words: Vec<&str> = args.iter().map(|w| w.as_str()).collect::<Result<_, _>>().map_err(|_| bad())?;
    Ok(match (tag, words.as_slice()) {
        ("simplify", [pf, st]) => match text.parse::<fol::Theory>() {
            Ok(t) => Some(simplify(t, pf, st)?),
            Err(_) => None,
        },
        ("translate", ["gamma"]) => text.parse::<fol::Theory>().ok().map(|t| t.gamma()),
        ("translate", ["completion"]) => match text.parse::<fol::Theory>() {
            Ok(t) => t.completion(Default::default()),
            Err(_) => None,
        },
        ("translate", ["tau-star"]) => text.parse::<asp::Program>().ok().map(|p| p.tau_star()),
        ("translate", ["mu"]) => text.parse::<asp::Program>().ok().map(|p| p.mu()),
        ("translate", ["natural"]) => match text.parse::<asp::Program>() {
            Ok(p) => p.natural(),
            Err(_) => None,
        },
        _ => return Err(bad()),
    })
}

fn run_output_reparses(e: &Sexp) -> Result<Sexp, String> {
    let (cmd, text) = match e.as_list()? {
        [c, Sexp::S(t)] => (c, t),
        _ => return Err(format!("fol_output_reparses: (command \"text\") expected: {}", e.to_text())),
    };
    let g = match output_theory(cmd, text)? {
        None => return Ok(skip()),
        Some(g) => g,
    };
    let printed = g.to_string();
    let verdict = match printed.parse::<fol::Theory>() {
        Err(_) => l(vec![a("rejected")]),
        Ok(g2) => {
            if g2 != g {
                tagged("changed", vec![conv::theory(&g2)])
            } else if g2.to_string() != printed {
                tagged("not-idempotent", vec![s(&g2.to_string())])
            } else {
                l(vec![a("ok")])
            }
        }
    };
    Ok(tagged("out", vec![conv::theory(&g), s(&printed), verdict]))
}

// ------------------------------------------------------------------ asp nodes
fn body_sexp(b: &asp::Body) -> Sexp {
    tagged("body", b.formulas.iter().map(conv::bformula).collect())
}

fn node_rt<T>(text: &str, conv_t: &dyn Fn(&T) -> Sexp) -> Sexp
where
    T: std::fmt::Display + std::str::FromStr + PartialEq + std::panic::UnwindSafe + std::panic::RefUnwindSafe,
{
    let t = match std::panic::catch_unwind(|| text.parse::<T>()) {
        Err(_) => return l(vec![a("skip"), a("panic")]),
        Ok(Err(_)) => return l(vec![a("skip"), a("err")]),
        Ok(Ok(t)) => t,
    };
    let printed = t.to_string();
    let verdict = match std::panic::catch_unwind(|| printed.parse::<T>()) {
        Err(_) => l(vec![a("panic")]),
        Ok(Err(_)) => l(vec![a("rejected")]),
        Ok(Ok(t2)) => {
            if t2 != t {
                tagged("changed", vec![conv_t(&t2)])
            } else if t2.to_string() != printed {
                tagged("not-idempotent", vec![s(&t2.to_string())])
            } else {
                l(vec![a("ok")])
            }
        }
    };
    tagged("rt", vec![conv_t(&t), s(&printed), verdict])
}

fn kind_text(e: &Sexp) -> Result<(&str, &str), String> {
    match e.as_list()? {
        [Sexp::A(k), Sexp::S(t)] => Ok((k.as_str(), t.as_str())),
        _ => Err(format!("(kind \"text\") expected: {}", e.to_text())),
    }
}

fn gen_node(rng: &mut Rng) -> Sexp {
    let kind = *rng.pick(x::NODE_KINDS);
    l(vec![a(kind), s(&x::node_text(rng, kind))])
}

fn run_node(e: &Sexp) -> Result<Sexp, String> {
    let (kind, text) = kind_text(e)?;
    Ok(match kind {
        "term" => node_rt::<asp::Term>(text, &conv::term),
        "atom" => node_rt::<asp::Atom>(text, &conv::atom),
        "literal" => node_rt::<asp::Literal>(text, &|x| conv::bformula(&asp::AtomicFormula::Literal(x.clone()))),
        "comparison" => node_rt::<asp::Comparison>(text, &|x| conv::bformula(&asp::AtomicFormula::Comparison(x.clone()))),
        "atomic_formula" => node_rt::<asp::AtomicFormula>(text, &conv::bformula),
        "head" => node_rt::<asp::Head>(text, &conv::head),
        "body" => node_rt::<asp::Body>(text, &body_sexp),
        "rule" => node_rt::<asp::Rule>(text, &conv::rule),
        "program" => node_rt::<asp::Program>(text, &conv::program),
        k => return Err(format!("asp_node_roundtrip: kind {k}")),
    })
}

fn no_tree<T>(_: &T) -> Sexp { l(vec![]) }

fn gen_leaf(rng: &mut Rng) -> Sexp {
    let kind = *rng.pick(x::LEAF_KINDS);
    l(vec![a(kind), s(&x::leaf_text(rng, kind))])
}

fn run_leaf(e: &Sexp) -> Result<Sexp, String> {
    let (kind, text) = kind_text(e)?;
    let r = match kind {
        "precomputed_term" => node_rt::<asp::PrecomputedTerm>(text, &no_tree),
        "variable" => node_rt::<asp::Variable>(text, &no_tree),
        "unary_operator" => node_rt::<asp::UnaryOperator>(text, &no_tree),
        "binary_operator" => node_rt::<asp::BinaryOperator>(text, &no_tree),
        "predicate" => node_rt::<asp::Predicate>(text, &no_tree),
        "sign" => node_rt::<asp::Sign>(text, &no_tree),
        "relation" => node_rt::<asp::Relation>(text, &no_tree),
        k => return Err(format!("asp_leaf_roundtrip: kind {k}")),
    };
    // drop the (empty) tree slot
    Ok(match r {
        Sexp::L(v) if v.first() == Some(&a("rt")) => l(vec![v[0].clone(), v[2].clone(), v[3].clone()]),
        r => r,
    })
}

pub fn ops() -> Vec<Op> {
    vec![
        Op { name: "fol_output_reparses", generate: gen_output_case, run: run_output_reparses },
        Op { name: "asp_node_roundtrip", generate: gen_node, run: run_node },
        Op { name: "asp_leaf_roundtrip", generate: gen_leaf, run: run_leaf },
    ]
}
