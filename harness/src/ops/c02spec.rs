//! Cluster `c02spec` (C02 for SPECIFICATION-vs-program tasks).
//!   external_decompose_spec  (external (spec-spec ..) program ug outline dec dir repr bypass simplify break)
//!       -> (ok (warnings ..) (problems ..)) | (err "Variant" ..) | (panic) | (nonterminating)
//!       the real `ExternalEquivalenceTask{..}.decompose()` - the same run function as
//!       `external_decompose_full` (ops/compext.rs), on the stream of ext/c02spec.rs; the model side
//!       is Model/ExternalFull.external_decompose_full (no component tables).
use super::Op;
use crate::{ext::c02spec as x, rng::Rng, sexp::Sexp};

fn gen_external_spec(rng: &mut Rng) -> Sexp {
    x::spec_case(rng)
}

fn run_external_spec(e: &Sexp) -> Result<Sexp, String> {
    let ops = super::compext::ops();
    let op = ops.iter().find(|o| o.name == "external_decompose_full").expect("op external_decompose_full");
    (op.run)(e)
}

pub fn ops() -> Vec<Op> {
    vec![Op { name: "external_decompose_spec", generate: gen_external_spec, run: run_external_spec }]
}
