//! Cluster `c02spec` (C02 for SPECIFICATION-vs-program tasks).
//!   external_decompose_spec  (external (spec-spec ..) program ug outline dec dir repr bypass simplify break)
//!       -> (ok (warnings ..) (problems ..)) | (err "Variant" ..) | (panic) | (nonterminating)
//!       the real `ExternalEquivalenceTask{..}.decompose()` - the same run function as
//!       `external_decompose_full` (ops/compext.rs), on the stream of ext/c02spec.rs; the model side
//!       is Model/ExternalFull.external_decompose_full (no component tables).
//!   mk_spec_task  ("specification text" "program text" "user guide text" dec dir bypass simplify break)
//!       -> the wire form of the task (texts parsed by anthem's own parsers); a tool for corpus lines,
//!          known-finding inputs and docs - no generator, no model side
use super::Op;
use crate::{
    conv,
    ext::{c02spec as x, compext as cx, tasks as t},
    rng::Rng,
    sexp::{Sexp, l},
};
use anthem::{
    syntax_tree::fol::sigma_0 as fol,
    verif::{arguments::FormulaRepresentation, task::external_equivalence::ExternalEquivalenceTask},
};
use either::Either;

fn gen_external_spec(rng: &mut Rng) -> Sexp {
    x::spec_case(rng)
}

fn run_external_spec(e: &Sexp) -> Result<Sexp, String> {
    let ops = super::compext::ops();
    let op = ops.iter().find(|o| o.name == "external_decompose_full").expect("op external_decompose_full");
    (op.run)(e)
}

fn gen_nothing(_rng: &mut Rng) -> Sexp {
    l(vec![])
}
fn run_mk_spec_task(e: &Sexp) -> Result<Sexp, String> {
    match e.as_list()? {
        [sp, p, ug, dec, dir, bypass, simplify, brk] => {
            let task = ExternalEquivalenceTask {
                specification: Either::Right(sp.as_str()?.parse::<fol::Specification>().map_err(|e| format!("specification: {e}"))?),
                program: p.as_str()?.parse().map_err(|e| format!("program: {e}"))?,
                user_guide: ug.as_str()?.parse::<fol::UserGuide>().map_err(|e| format!("user guide: {e}"))?,
                proof_outline: fol::Specification { formulas: vec![] },
                decomposition: t::parse_decomposition(dec)?,
                direction: conv::parse_direction(dir)?,
                formula_representation: FormulaRepresentation::TauStar,
                bypass_tightness: conv::parse_bool(bypass)?,
                simplify: conv::parse_bool(simplify)?,
                break_equivalences: conv::parse_bool(brk)?,
            };
            Ok(cx::task_sexp(&task))
        }
        _ => Err("mk_spec_task: (spec program ug dec dir bypass simplify break) expected".into()),
    }
}

pub fn ops() -> Vec<Op> {
    vec![
        Op { name: "external_decompose_spec", generate: gen_external_spec, run: run_external_spec },
        Op { name: "mk_spec_task", generate: gen_nothing, run: run_mk_spec_task },
    ]
}
