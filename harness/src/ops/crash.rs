//! C16: in-process crash probes.
//!   parse_any      ("Kind" "text")  -> ok | err            (a panic is printed as (panic) by main.rs)
//!                  Kind = asp.<Node> | fol.<Node> for every node type with a FromStr instance
//!   numeral_token  "tok"            -> (value N) | (nottoken)        [isize, both grammars must agree]
//!   arity_token    "tok"            -> (value N) | (nottoken)        [usize]
//!   tptp_numeral   N                -> (value "text")
//!   fresh_global   (m i)            -> (value "V<m+i>")   via tau_star of `p(X1,..,Xi) :- q(Vm).`
//! The last four are compared with Model/Limits.v (Panic = `(panic)`).
use super::Op;
use crate::{
    rng::Rng,
    sexp::{Sexp, a, l, s, tagged},
};
use anthem::{
    formatting::fol::sigma_0::tptp,
    syntax_tree::{asp::mini_gringo as asp, fol::sigma_0 as fol},
    translating::formula_representation::tau_star::TauStar as _,
};

macro_rules! kinds {
    ($( $name:literal => $ty:ty ),* $(,)?) => {
        pub const KINDS: &[&str] = &[$($name),*];
        fn parse_kind(kind: &str, text: &str) -> Result<bool, String> {
            match kind {
                $( $name => Ok(text.parse::<$ty>().is_ok()), )*
                k => Err(format!("unknown kind {k}")),
            }
        }
    };
}

kinds! {
    "asp.PrecomputedTerm" => asp::PrecomputedTerm, "asp.Variable" => asp::Variable, "asp.UnaryOperator" => asp::UnaryOperator,
    "asp.BinaryOperator" => asp::BinaryOperator, "asp.Term" => asp::Term, "asp.Predicate" => asp::Predicate, "asp.Atom" => asp::Atom,
    "asp.Sign" => asp::Sign, "asp.Literal" => asp::Literal, "asp.Relation" => asp::Relation, "asp.Comparison" => asp::Comparison,
    "asp.AtomicFormula" => asp::AtomicFormula, "asp.Head" => asp::Head, "asp.Body" => asp::Body, "asp.Rule" => asp::Rule,
    "asp.Program" => asp::Program,
    "fol.UnaryOperator" => fol::UnaryOperator, "fol.BinaryOperator" => fol::BinaryOperator, "fol.IntegerTerm" => fol::IntegerTerm,
    "fol.SymbolicTerm" => fol::SymbolicTerm, "fol.GeneralTerm" => fol::GeneralTerm, "fol.Predicate" => fol::Predicate,
    "fol.Atom" => fol::Atom, "fol.Relation" => fol::Relation, "fol.Guard" => fol::Guard, "fol.Comparison" => fol::Comparison,
    "fol.AtomicFormula" => fol::AtomicFormula, "fol.UnaryConnective" => fol::UnaryConnective, "fol.Quantifier" => fol::Quantifier,
    "fol.Quantification" => fol::Quantification, "fol.Sort" => fol::Sort, "fol.FunctionConstant" => fol::FunctionConstant,
    "fol.Variable" => fol::Variable, "fol.BinaryConnective" => fol::BinaryConnective, "fol.Formula" => fol::Formula,
    "fol.Theory" => fol::Theory, "fol.Role" => fol::Role, "fol.Direction" => fol::Direction,
    "fol.AnnotatedFormula" => fol::AnnotatedFormula, "fol.Specification" => fol::Specification,
    "fol.PlaceholderDeclaration" => fol::PlaceholderDeclaration, "fol.UserGuideEntry" => fol::UserGuideEntry,
    "fol.UserGuide" => fol::UserGuide,
}

fn run_parse_any(e: &Sexp) -> Result<Sexp, String> {
    match e.as_list()? {
        [k, t] => Ok(a(if parse_kind(k.as_str()?, t.as_str()?)? { "ok" } else { "err" })),
        _ => Err("parse_any: (kind text) expected".into()),
    }
}

const SNIPPETS: &[&str] = &[
    "p(X) :- q(X), not r(X+1).", "{p(1..3)}.", ":- p, not not q.", "forall X (p(X) -> exists Y$i (Y$i > X))", "X", "1+2*3", "#inf",
    "p/2", "input: p/1.", "output: q/0.", "assumption(forward): forall X p(X).", "spec: p <-> q.", "n -> integer", "not", "<->", "forall X Y",
    "9223372036854775807", "-9223372036854775808", "a", "X$i", "p(a,b,1)", "1 < X <= 3", "",
];

fn gen_parse_any(rng: &mut Rng) -> Sexp {
    // (the malformed stream proper is produced by props/C16.py; this generator only keeps the op self-contained)
    let mut t = String::new();
    for _ in 0..1 + rng.below(2) {
        t.push_str(*rng.pick(SNIPPETS));
    }
    l(vec![s(*rng.pick(KINDS)), s(&t)])
}

const BOUNDARY: &[&str] = &[
    "0", "1", "7", "42", "9223372036854775806", "9223372036854775807", "9223372036854775808", "9223372036854775809", "18446744073709551614",
    "18446744073709551615", "18446744073709551616", "18446744073709551617", "99999999999999999999", "100000000000000000000",
    "340282366920938463463374607431768211456", "4611686018427387904", "1000000000000000000", "007", "00", "1_0", "",
];

fn gen_numeral(rng: &mut Rng) -> Sexp {
    let mut t = String::new();
    if rng.chance(45) {
        t.push('-');
    }
    if rng.chance(75) {
        t.push_str(*rng.pick(BOUNDARY));
    } else {
        let n = 1 + rng.below(24);
        t.push((b'1' + rng.below(9) as u8) as char);
        for _ in 1..n {
            t.push((b'0' + rng.below(10) as u8) as char);
        }
    }
    s(&t)
}

fn run_numeral(e: &Sexp) -> Result<Sexp, String> {
    let t = e.as_str()?;
    // the asp `integer` token and the fol `numeral` token; a panic in either propagates
    let asp_v = match t.parse::<asp::PrecomputedTerm>() {
        Ok(asp::PrecomputedTerm::Numeral(n)) => Some(n),
        _ => None,
    };
    let fol_v = match t.parse::<fol::IntegerTerm>() {
        Ok(fol::IntegerTerm::Numeral(n)) => Some(n),
        _ => None,
    };
    match (asp_v, fol_v) {
        (Some(x), Some(y)) if x == y => Ok(tagged("value", vec![a(&x.to_string())])),
        (None, None) => Ok(l(vec![a("nottoken")])),
        (x, y) => Ok(tagged("grammars-disagree", vec![s(&format!("{x:?} {y:?}"))])),
    }
}

fn gen_arity(rng: &mut Rng) -> Sexp {
    if rng.chance(80) {
        s(*rng.pick(BOUNDARY))
    } else {
        s(&rng.below(100000).to_string())
    }
}

fn run_arity(e: &Sexp) -> Result<Sexp, String> {
    let t = e.as_str()?;
    let x = format!("p/{t}").parse::<asp::Predicate>().ok().map(|p| p.arity);
    let y = format!("p/{t}").parse::<fol::Predicate>().ok().map(|p| p.arity);
    match (x, y) {
        (Some(x), Some(y)) if x == y => Ok(tagged("value", vec![a(&x.to_string())])),
        (None, None) => Ok(l(vec![a("nottoken")])),
        (x, y) => Ok(tagged("grammars-disagree", vec![s(&format!("{x:?} {y:?}"))])),
    }
}

fn gen_isize(rng: &mut Rng) -> Sexp {
    let v: i64 = match rng.below(8) {
        0 => i64::MIN,
        1 => i64::MIN + 1,
        2 => i64::MAX,
        3 => -1,
        4 => 0,
        5 => rng.range(-1000, 1000),
        6 => i64::MIN + rng.range(0, 3),
        _ => rng.next() as i64,
    };
    a(&v.to_string())
}

fn run_tptp_numeral(e: &Sexp) -> Result<Sexp, String> {
    let n: isize = e.as_str()?.parse().map_err(|_| "isize expected")?;
    let t = fol::IntegerTerm::Numeral(n);
    Ok(tagged("value", vec![s(&format!("{}", tptp::Format(&t)))]))
}

fn gen_fresh_global(rng: &mut Rng) -> Sexp {
    let m: u64 = match rng.below(6) {
        0 => u64::MAX,
        1 => u64::MAX - 1,
        2 => u64::MAX - rng.below(5) as u64,
        3 => rng.below(50) as u64,
        4 => 0,
        _ => rng.next(),
    };
    l(vec![a(&m.to_string()), a(&(1 + rng.below(4)).to_string())])
}

fn run_fresh_global(e: &Sexp) -> Result<Sexp, String> {
    match e.as_list()? {
        [m, i] => {
            let m: u64 = m.as_str()?.parse().map_err(|_| "m")?;
            let i: usize = i.as_str()?.parse().map_err(|_| "i")?;
            let head_args: Vec<String> = (1..=i).map(|k| format!("X{k}")).collect();
            let text = format!("p({}) :- q(V{m}).", head_args.join(","));
            let program: asp::Program = text.parse().map_err(|_| format!("cannot parse {text}"))?;
            let theory = program.tau_star();
            let mut best: Option<u128> = None;
            for f in &theory.formulas {
                for v in f.variables() {
                    if let Some(num) = v.name.strip_prefix('V') {
                        if let Ok(k) = num.parse::<u128>() {
                            if k != m as u128 && best.is_none_or(|b| k > b) {
                                best = Some(k);
                            }
                        }
                    }
                }
            }
            match best {
                Some(k) => Ok(tagged("value", vec![s(&format!("V{k}"))])),
                None => Err("no global variable found".into()),
            }
        }
        _ => Err("fresh_global: (m i) expected".into()),
    }
}

pub fn ops() -> Vec<Op> {
    vec![
        Op { name: "parse_any", generate: gen_parse_any, run: run_parse_any },
        Op { name: "numeral_token", generate: gen_numeral, run: run_numeral },
        Op { name: "arity_token", generate: gen_arity, run: run_arity },
        Op { name: "tptp_numeral", generate: gen_isize, run: run_tptp_numeral },
        Op { name: "fresh_global", generate: gen_fresh_global, run: run_fresh_global },
    ]
}
