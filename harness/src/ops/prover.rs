//! C10: status extraction from prover output.
//!   status_from_str  "text"                      -> (ok Word) | (err "Missing") | (err "Unknown" "w")
//!   prover_output    (xHEX xHEX code)            -> (reported <as above>) | (failed "ConvertOutput")
//! The second op feeds raw bytes (hex, so that invalid UTF-8 survives the wire) through
//! `VampireOutput::try_from(std::process::Output)` and then `str::parse::<Status>()`, which is
//! what `VampireReport::status` does.
use super::Op;
use crate::{
    rng::Rng,
    sexp::{Sexp, a, l, s, tagged},
};
use anthem::verif::prover::{Status, StatusExtractionError, vampire::VampireOutput};
use std::os::unix::process::ExitStatusExt as _;

const WORDS: &[&str] = &[
    "Theorem",
    "CounterSatisfiable",
    "ContradictoryAxioms",
    "Timeout",
    "MemoryOut",
    "GaveUp",
    "Error",
];
const UNKNOWN: &[&str] = &[
    "Satisfiable",
    "Unsatisfiable",
    "Theorems",
    "theorem",
    "THEOREM",
    "Theorem_1",
    "TimeOut",
    "Unknown",
    "0",
    "_",
    "Th\u{e9}or\u{e8}me",
    "Theorem\u{301}",
    "\u{422}\u{435}\u{43e}\u{440}\u{435}\u{43c}\u{430}",
    "Theo-rem",
    "",
];
const NOISE: &[&str] = &[
    "% ",
    "\n",
    "% Refutation found. Thanks to Tanya!\n",
    "SZS",
    "SZS status",
    "SZS output start Proof for ",
    "status Theorem for x",
    " for ",
    "for",
    "szs status Theorem for p\n",
    "% (1234)Success in time 0.01 s\n",
    "\u{2713} donn\u{e9}es \u{1f9db}\n",
    "\t",
    " ",
    "x",
    "Termination reason: Refutation\n",
    "SZS status Theorem",
    "SZS status Theorem for",
    "SZS  status Theorem for p",
    "SZS status: Theorem for p",
    "SZS status\tTheorem for p",
    "SZS status Theorem\nfor p",
    "SZS status Theorem  for p",
    "S",
];

fn status_line(rng: &mut Rng) -> String {
    let w = if rng.chance(65) { *rng.pick(WORDS) } else { *rng.pick(UNKNOWN) };
    let problem = *rng.pick(&["problem_0", "forward_0", "", "x-y", "a b", "\u{e9}", "backward_outline_12"]);
    let mut out = String::new();
    if rng.chance(50) {
        out.push_str("% ");
    }
    out.push_str("SZS status ");
    out.push_str(w);
    out.push_str(" for ");
    out.push_str(problem);
    if rng.chance(70) {
        out.push('\n');
    }
    out
}

pub fn prover_text(rng: &mut Rng) -> String {
    let mut out = String::new();
    let pieces = rng.below(7);
    for _ in 0..pieces {
        if rng.chance(40) {
            out.push_str(&status_line(rng));
        } else {
            out.push_str(*rng.pick(NOISE));
        }
    }
    out
}

fn gen_text(rng: &mut Rng) -> Sexp {
    s(&prover_text(rng))
}

fn status_sexp(r: Result<Status, StatusExtractionError>) -> Sexp {
    match r {
        Ok(st) => tagged("ok", vec![a(&st.to_string())]),
        Err(StatusExtractionError::Missing) => tagged("err", vec![s("Missing")]),
        Err(StatusExtractionError::Unknown(w)) => tagged("err", vec![s("Unknown"), s(&w)]),
    }
}

fn run_status(e: &Sexp) -> Result<Sexp, String> {
    let text = e.as_str()?;
    Ok(status_sexp(text.parse::<Status>()))
}

fn hex(bytes: &[u8]) -> Sexp {
    let mut out = String::from("x");
    for b in bytes {
        out.push_str(&format!("{b:02x}"));
    }
    a(&out)
}
fn unhex(e: &Sexp) -> Result<Vec<u8>, String> {
    let t = e.as_str()?;
    let t = t.strip_prefix('x').ok_or("hex atom expected")?;
    (0..t.len() / 2).map(|i| u8::from_str_radix(&t[2 * i..2 * i + 2], 16).map_err(|e| e.to_string())).collect()
}

fn mangle(rng: &mut Rng, text: String) -> Vec<u8> {
    let mut b = text.into_bytes();
    if rng.chance(55) {
        let bad: &[&[u8]] = &[
            &[0xff],
            &[0xc0, 0x80],
            &[0xc3],
            &[0xe2, 0x9c],
            &[0xed, 0xa0, 0x80],
            &[0xf4, 0x90, 0x80, 0x80],
            &[0xe0, 0x9f, 0xbf],
            &[0xf0, 0x8f, 0xbf, 0xbf],
            &[0x80],
            &[0xf5, 0x80, 0x80, 0x80],
            // valid ones
            &[0xed, 0x9f, 0xbf],
            &[0xf4, 0x8f, 0xbf, 0xbf],
            &[0xe0, 0xa0, 0x80],
            &[0xf0, 0x90, 0x80, 0x80],
            &[0xc2, 0x80],
            &[0x00],
        ];
        let ins = *rng.pick(bad);
        let pos = if b.is_empty() { 0 } else { rng.below(b.len() + 1) };
        // keep insert positions on char boundaries half of the time only
        let tail = b.split_off(pos);
        b.extend_from_slice(ins);
        b.extend_from_slice(&tail);
    }
    b
}

fn gen_output(rng: &mut Rng) -> Sexp {
    let out = {
        let t = prover_text(rng);
        if rng.chance(35) { mangle(rng, t) } else { t.into_bytes() }
    };
    let err = {
        let t = if rng.chance(70) { String::new() } else { prover_text(rng) };
        if rng.chance(25) { mangle(rng, t) } else { t.into_bytes() }
    };
    let code = *rng.pick(&[0usize, 0, 0, 1, 2, 3, 101, 134, 255]);
    l(vec![hex(&out), hex(&err), a(&code.to_string())])
}

fn run_output(e: &Sexp) -> Result<Sexp, String> {
    match e.as_list()? {
        [out, err, code] => {
            let code: i32 = code.as_str()?.parse().map_err(|_| "code")?;
            let output = std::process::Output {
                status: std::process::ExitStatus::from_raw(code << 8),
                stdout: unhex(out)?,
                stderr: unhex(err)?,
            };
            match VampireOutput::try_from(output) {
                Ok(o) => Ok(tagged("reported", vec![status_sexp(o.stdout.parse::<Status>())])),
                Err(e) => {
                    let name = format!("{e:?}");
                    let name = name.split(|c: char| !c.is_alphanumeric()).next().unwrap_or("").to_string();
                    Ok(tagged("failed", vec![s(&name)]))
                }
            }
        }
        _ => Err("prover_output: (xHEX xHEX code) expected".into()),
    }
}

pub fn ops() -> Vec<Op> {
    vec![
        Op { name: "status_from_str", generate: gen_text, run: run_status },
        Op { name: "prover_output", generate: gen_output, run: run_output },
    ]
}
