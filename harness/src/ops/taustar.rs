use super::Op;
use crate::{conv, ext::taustar as t, rng::Rng, sexp::Sexp};
use anthem::translating::formula_representation::tau_star::TauStar as _;

fn gen_program(rng: &mut Rng) -> Sexp {
    let cfg = t::TCfg::adversarial(rng);
    conv::program(&t::program(rng, &cfg))
}
fn gen_small(rng: &mut Rng) -> Sexp {
    let cfg = t::TCfg::small(rng);
    conv::program(&t::program(rng, &cfg))
}
/// a single rule whose only content is one literal / one comparison: exercises `val` in isolation
fn gen_single(rng: &mut Rng) -> Sexp {
    use anthem::syntax_tree::asp::mini_gringo as asp;
    let mut cfg = t::TCfg::adversarial(rng);
    cfg.depth = 1 + rng.below(4);
    cfg.max_arity = 1 + rng.below(2);
    let r = match rng.below(3) {
        0 => asp::Rule { head: asp::Head::Basic(t::atom(rng, &cfg)), body: asp::Body { formulas: vec![] } },
        1 => asp::Rule { head: asp::Head::Choice(t::atom(rng, &cfg)), body: asp::Body { formulas: vec![] } },
        _ => asp::Rule { head: asp::Head::Falsity, body: asp::Body { formulas: vec![t::body_formula(rng, &cfg)] } },
    };
    conv::program(&asp::Program { rules: vec![r] })
}
fn run_tau_star(e: &Sexp) -> Result<Sexp, String> {
    Ok(conv::theory(&conv::parse_program(e)?.tau_star()))
}

pub fn ops() -> Vec<Op> {
    vec![
        Op { name: "tau_star", generate: gen_program, run: run_tau_star },
        Op { name: "tau_star_small", generate: gen_small, run: run_tau_star },
        Op { name: "tau_star_val", generate: gen_single, run: run_tau_star },
    ]
}
