use super::Op;
use crate::{conv, generate as g, rng::Rng, sexp::Sexp};
use anthem::translating::classical_reduction::gamma::Gamma as _;

fn gen_formula(rng: &mut Rng) -> Sexp {
    let cfg = g::Cfg::default();
    let depth = 1 + rng.below(4);
    conv::formula(&g::formula(rng, &cfg, depth))
}
fn run_gamma(e: &Sexp) -> Result<Sexp, String> {
    Ok(conv::formula(&conv::parse_formula(e)?.gamma()))
}
fn gen_theory(rng: &mut Rng) -> Sexp {
    let cfg = g::Cfg::default();
    conv::theory(&g::theory(rng, &cfg, 3))
}
fn run_gamma_theory(e: &Sexp) -> Result<Sexp, String> {
    Ok(conv::theory(&conv::parse_theory(e)?.gamma()))
}

pub fn ops() -> Vec<Op> {
    vec![
        Op { name: "gamma", generate: gen_formula, run: run_gamma },
        Op { name: "gamma_theory", generate: gen_theory, run: run_gamma_theory },
    ]
}
