//! C07 (classic half): each rewrite of CLASSIC alone, CLASSIC under the three strategies, and
//! the full `simplify --portfolio classic` portfolio (implementation only; semantic check).
use super::Op;
use crate::{
    conv,
    ext::simplcls as x,
    rng::Rng,
    sexp::{Sexp, a, l},
};
use anthem::{
    syntax_tree::fol::sigma_0 as fol,
    verif::simplifying_fol::sigma_0::{classic::CLASSIC, ht::HT, intuitionistic::INTUITIONISTIC},
};

// CLASSIC = [remove_double_negation, substitute_defined_variables, unstable::restrict_quantifier_domain,
//            unstable::extend_quantifier_scope, unstable::simplify_transitive_equality]
// (`mod unstable` is private: the three rules are reachable only through the list)
fn rule(i: usize, e: &Sexp) -> Result<Sexp, String> {
    assert!(CLASSIC.len() == 5, "CLASSIC no longer has five rules");
    Ok(conv::formula(&CLASSIC[i](conv::parse_formula(e)?)))
}
fn run_rdn(e: &Sexp) -> Result<Sexp, String> {
    rule(0, e)
}
fn run_sdv(e: &Sexp) -> Result<Sexp, String> {
    rule(1, e)
}
fn run_rqd(e: &Sexp) -> Result<Sexp, String> {
    rule(2, e)
}
fn run_eqs(e: &Sexp) -> Result<Sexp, String> {
    rule(3, e)
}
fn run_ste(e: &Sexp) -> Result<Sexp, String> {
    rule(4, e)
}
fn gen_rdn(rng: &mut Rng) -> Sexp {
    conv::formula(&x::formula_for(rng, x::Rule::Rdn))
}
fn gen_sdv(rng: &mut Rng) -> Sexp {
    conv::formula(&x::formula_for(rng, x::Rule::Sdv))
}
fn gen_rqd(rng: &mut Rng) -> Sexp {
    conv::formula(&x::formula_for(rng, x::Rule::Rqd))
}
fn gen_eqs(rng: &mut Rng) -> Sexp {
    conv::formula(&x::formula_for(rng, x::Rule::Eqs))
}
fn gen_ste(rng: &mut Rng) -> Sexp {
    conv::formula(&x::formula_for(rng, x::Rule::Ste))
}

fn parse_case(e: &Sexp) -> Result<(x::Strategy, fol::Formula), String> {
    match e.as_list()? {
        [Sexp::A(s), f] => Ok((x::parse_strategy(s).ok_or("strategy expected")?, conv::parse_formula(f)?)),
        _ => Err("(strategy formula) expected".into()),
    }
}
/// `(strategy G)`, so that "output differs from input" means "some rule fired"
fn outcome(s: x::Strategy, o: x::Outcome) -> Sexp {
    match o {
        x::Outcome::Done(f) => l(vec![a(x::strategy_name(s)), conv::formula(&f)]),
        x::Outcome::Nonterminating => l(vec![a("nonterminating")]),
        x::Outcome::FixpointDiffers(f) => l(vec![a("apply-fixpoint-differs"), conv::formula(&f)]),
    }
}
fn gen_strategy_case(rng: &mut Rng) -> Sexp {
    if rng.chance(4) {
        // formulas on which the fixpoint loop needs many passes (families of ext::clsterm: quantifier
        // prefixes, conjunctions of quantified formulas, tau* of long bodies): up to FIXPOINT_FUEL + 1
        // passes are replayed and then compared with the real `apply_fixpoint`; formulas whose
        // intermediate results explode (chains of definitions: size 2^n) are left to `classic_passes`, which caps the size
        let f = crate::ext::clsterm::tame_case(rng);
        return l(vec![a("fixpoint"), conv::formula(&f)]);
    }
    let s = x::strategy(rng);
    let f = x::formula_nested(rng);
    l(vec![a(x::strategy_name(s)), conv::formula(&f)])
}
/// CLASSIC alone under a strategy
fn run_simplify_cls(e: &Sexp) -> Result<Sexp, String> {
    let (s, f) = parse_case(e)?;
    Ok(outcome(s, x::run_strategy(CLASSIC.to_vec(), s, f)))
}
/// the CLI's classic portfolio: INTUITIONISTIC ++ HT ++ CLASSIC
fn run_simplify_full_classic(e: &Sexp) -> Result<Sexp, String> {
    let (s, f) = parse_case(e)?;
    Ok(outcome(s, x::run_strategy([INTUITIONISTIC, HT, CLASSIC].concat(), s, f)))
}
/// cases of the tree-level ops on the CLI's classic portfolio under ONE strategy
/// (`simplify_full_classic_shallow` / `_recursive`; audit 2, B16 / T9: the composed portfolio was compared
/// with the model under fixpoint only).  Redexes of both halves: classic redexes nested under connectives
/// and binders, redexes / cascades of the 13 intuitionistic rewrites, and combinations in which a rewrite
/// of INTUITIONISTIC ++ HT creates or destroys the redex of a classic rule within the same composed call.
fn full_formula(rng: &mut Rng) -> fol::Formula {
    use crate::ext::simplint as si;
    let int_cfg = |rng: &mut Rng| {
        let mut c = si::cfg(rng);
        c.var_names.retain(|n| n.starts_with(|ch: char| ch.is_ascii_uppercase()));
        c
    };
    match rng.weighted(&[40, 15, 10, 35]) {
        0 => x::formula_nested(rng),
        1 => {
            let c = int_cfg(rng);
            let d = 1 + rng.below(3);
            si::formula(rng, &c, d)
        }
        2 => {
            let c = int_cfg(rng);
            let d = 1 + rng.below(2);
            si::cascade(rng, &c, d)
        }
        _ => {
            // an intuitionistic redex around / next to a classic one
            let c = int_cfg(rng);
            let cls = if rng.chance(50) {
                x::formula_nested(rng)
            } else {
                let rule = *rng.pick(&[x::Rule::Sdv, x::Rule::Rqd, x::Rule::Eqs, x::Rule::Ste]);
                x::formula_for(rng, rule)
            };
            let other = {
                let k = rng.below(si::N_KINDS);
                let d = rng.below(2);
                si::redex_of(k, rng, &c, d)
            };
            let truth = fol::Formula::AtomicFormula(fol::AtomicFormula::Truth);
            let falsity = fol::Formula::AtomicFormula(fol::AtomicFormula::Falsity);
            let bin = |c: fol::BinaryConnective, l: fol::Formula, r: fol::Formula| fol::Formula::BinaryFormula { connective: c, lhs: l.into(), rhs: r.into() };
            use fol::BinaryConnective as B;
            match rng.below(8) {
                0 => bin(B::Conjunction, cls, truth),
                1 => bin(B::Disjunction, falsity, cls),
                2 => bin(B::Implication, truth, cls),
                3 => fol::Formula::UnaryFormula { connective: fol::UnaryConnective::Negation, formula: bin(B::Implication, cls, falsity).into() },
                4 => bin(B::Conjunction, cls.clone(), cls),
                5 => bin(crate::generate::connective(rng), other, cls),
                6 => bin(crate::generate::connective(rng), cls, other),
                _ => bin(B::ReverseImplication, cls, other),
            }
        }
    }
}
fn gen_full_shallow(rng: &mut Rng) -> Sexp {
    l(vec![a("shallow"), conv::formula(&full_formula(rng))])
}
fn gen_full_recursive(rng: &mut Rng) -> Sexp {
    l(vec![a("recursive"), conv::formula(&full_formula(rng))])
}
/// generator of the semantic op on the full portfolio: the case together with the
/// implementation's output, `((strategy F) G)`
fn gen_sem_full(rng: &mut Rng) -> Sexp {
    // `gen` mode does not silence the panic hook; a panic of the implementation is an output here
    std::panic::set_hook(Box::new(|_| {}));
    let case = gen_strategy_case(rng);
    let c2 = case.clone();
    let out = std::panic::catch_unwind(move || run_simplify_full_classic(&c2));
    let out = match out {
        Ok(Ok(r)) => r,
        _ => l(vec![a("panic")]),
    };
    l(vec![case, out])
}
/// hand-built trees outside the parser's image (empty guard list, empty variable name), kept apart
/// from the ops on real formulas: `(which F)`, which = rdn|sdv|rqd|eqs|ste (one rule of CLASSIC) or a
/// strategy name (CLASSIC under that strategy); result as for the corresponding op
const WHICH: [&str; 5] = ["rdn", "sdv", "rqd", "eqs", "ste"];
fn gen_outside_parser(rng: &mut Rng) -> Sexp {
    let k = rng.below(8);
    if k < 5 {
        let rule = [x::Rule::Rdn, x::Rule::Sdv, x::Rule::Rqd, x::Rule::Eqs, x::Rule::Ste][k];
        // the damaged redex of the rule itself, or of any rule
        let own = rng.chance(70);
        let f = x::formula_outside_parser(rng, if own { Some(rule) } else { None });
        l(vec![a(WHICH[k]), conv::formula(&f)])
    } else {
        let s = [x::Strategy::Shallow, x::Strategy::Recursive, x::Strategy::Fixpoint][k - 5];
        let f = x::formula_outside_parser(rng, None);
        l(vec![a(x::strategy_name(s)), conv::formula(&f)])
    }
}
fn run_outside_parser(e: &Sexp) -> Result<Sexp, String> {
    match e.as_list()? {
        [Sexp::A(w), f] => match WHICH.iter().position(|n| n == w) {
            Some(i) => rule(i, f),
            None => run_simplify_cls(e),
        },
        _ => Err("(which formula) expected".into()),
    }
}
/// tool op (corpus construction, mutant trials): parse anthem's concrete syntax into the wire format
fn run_parse(e: &Sexp) -> Result<Sexp, String> {
    let text = conv::string_of(e)?;
    match text.parse::<fol::Formula>() {
        Ok(f) => Ok(conv::formula(&f)),
        Err(_) => Ok(l(vec![a("err"), crate::sexp::s("ParseError")])),
    }
}
fn gen_parse(_rng: &mut Rng) -> Sexp {
    crate::sexp::s("exists X$i (X$i = 1 and p(X$i))")
}
fn run_identity(e: &Sexp) -> Result<Sexp, String> {
    Ok(e.clone())
}

pub fn ops() -> Vec<Op> {
    vec![
        Op { name: "sc_remove_double_negation", generate: gen_rdn, run: run_rdn },
        Op { name: "sc_substitute_defined_variables", generate: gen_sdv, run: run_sdv },
        Op { name: "sc_restrict_quantifier_domain", generate: gen_rqd, run: run_rqd },
        Op { name: "sc_extend_quantifier_scope", generate: gen_eqs, run: run_eqs },
        Op { name: "sc_simplify_transitive_equality", generate: gen_ste, run: run_ste },
        Op { name: "simplify_cls", generate: gen_strategy_case, run: run_simplify_cls },
        Op { name: "sc_outside_parser", generate: gen_outside_parser, run: run_outside_parser },
        Op { name: "simplify_full_classic", generate: gen_strategy_case, run: run_simplify_full_classic },
        Op { name: "simplify_full_classic_shallow", generate: gen_full_shallow, run: run_simplify_full_classic },
        Op { name: "simplify_full_classic_recursive", generate: gen_full_recursive, run: run_simplify_full_classic },
        Op { name: "sem_simplify_full_classic", generate: gen_sem_full, run: run_identity },
        Op { name: "sc_parse", generate: gen_parse, run: run_parse },
    ]
}
