//! CLI glue: the op `cli_run` runs the REAL BINARY (`anthem <sub-command> <options> <file>`) on a
//! file that contains the given text and reports what a user of the command line sees:
//!     input    (<command> "input text")
//!       <command> = (analyze regularity|tightness)
//!                 | (parse program|theory|specification|user-guide)        [--output default]
//!                 | (simplify intuitionistic|ht|classic shallow|recursive|fixpoint)
//!                 | (translate tau-star|mu|natural|gamma|completion)
//!     result   (stdout "<bytes>")            exit status 0
//!            | (error <status>)              any other status (anyhow error of `main`: 1; clap: 2)
//!            | (panic)                       status 101 or "panicked at" on stderr
//!            | (signal <n>) | (timeout)
//! The model side is the extracted `Cli.run_cli` (ocaml/driver/ops_cliglue.ml).  Nothing of
//! procedures.rs / arguments.rs is re-implemented here: the argument vector is the only thing
//! this file knows about the command line.
//!
//! The binary is named by the environment variable ANTHEM_CLI_EXE (props/CLI.py builds it from
//! $ANTHEM_REPO into <framework>/work, as props/clilib.py does); scratch files go to
//! ANTHEM_CLI_SCRATCH (default: the system temp dir) and are removed after every run.
//!
//! `cli_gen_<family>` are generation-only aliases (one sub-command family each) so that a part
//! configuration can spend its whole budget on one family; their `run` is the same function.
use super::Op;
use crate::{
    ext::{asprt, completion as comp, folrt, natural as ngen, simplcls, simplint, taustar},
    generate as g,
    rng::Rng,
    sexp::{a, l, s, tagged, Sexp},
};
use anthem::{
    syntax_tree::{asp::mini_gringo as asp, fol::sigma_0 as fol},
    translating::formula_representation::tau_star::TauStar as _,
};
use std::{
    io::Read as _,
    process::{Command, Stdio},
    sync::atomic::{AtomicUsize, Ordering},
    time::{Duration, Instant},
};

// ------------------------------------------------------------------ command <-> argv
pub fn argv_of(cmd: &Sexp) -> Result<Vec<String>, String> {
    let bad = || format!("command: {}", cmd.to_text());
    let (tag, args) = cmd.tag().ok_or_else(bad)?;
    let words: Vec<&str> = args.iter().map(|x| x.as_str()).collect::<Result<_, _>>().map_err(|_| bad())?;
    let v: Vec<&str> = match (tag, words.as_slice()) {
        ("analyze", [p]) => vec!["analyze", "--property", p],
        ("parse", [k]) => vec!["parse", "--as", k, "--output", "default"],
        ("simplify", [pf, st]) => vec!["simplify", "--portfolio", pf, "--strategy", st],
        ("translate", [w]) => vec!["translate", "--with", w],
        _ => return Err(bad()),
    };
    Ok(v.into_iter().map(String::from).collect())
}

static COUNTER: AtomicUsize = AtomicUsize::new(0);

fn read_all(path: &std::path::Path) -> Vec<u8> {
    let mut v = vec![];
    if let Ok(mut f) = std::fs::File::open(path) {
        let _ = f.read_to_end(&mut v);
    }
    v
}

fn run_cli(e: &Sexp) -> Result<Sexp, String> {
    let (cmd, text) = match e.as_list()? {
        [c, Sexp::S(t)] => (c, t),
        _ => return Err(format!("cli_run: (command \"text\") expected: {}", e.to_text())),
    };
    let argv = argv_of(cmd)?;
    let exe = std::env::var("ANTHEM_CLI_EXE").map_err(|_| "ANTHEM_CLI_EXE is not set (props/CLI.py sets it)".to_string())?;
    let dir = std::env::var("ANTHEM_CLI_SCRATCH").map(std::path::PathBuf::from).unwrap_or_else(|_| std::env::temp_dir());
    let stem = format!("cli-{}-{}", std::process::id(), COUNTER.fetch_add(1, Ordering::SeqCst));
    let input = dir.join(format!("{stem}.in"));
    let out_path = dir.join(format!("{stem}.out"));
    let err_path = dir.join(format!("{stem}.err"));
    let cleanup = || {
        for p in [&input, &out_path, &err_path] {
            let _ = std::fs::remove_file(p);
        }
    };
    std::fs::write(&input, text.as_bytes()).map_err(|e| format!("scratch file: {e}"))?;
    let result = (|| -> Result<Sexp, String> {
        let out_f = std::fs::File::create(&out_path).map_err(|e| e.to_string())?;
        let err_f = std::fs::File::create(&err_path).map_err(|e| e.to_string())?;
        let mut child = Command::new(&exe)
            .args(&argv)
            .arg(&input)
            .env("RUST_BACKTRACE", "0")
            .stdin(Stdio::null())
            .stdout(Stdio::from(out_f))
            .stderr(Stdio::from(err_f))
            .spawn()
            .map_err(|e| format!("spawn {exe}: {e}"))?;
        let limit = Duration::from_secs(std::env::var("ANTHEM_CLI_TIMEOUT").ok().and_then(|x| x.parse().ok()).unwrap_or(30));
        let t0 = Instant::now();
        let mut nap = Duration::from_micros(300);
        let status = loop {
            match child.try_wait().map_err(|e| e.to_string())? {
                Some(st) => break st,
                None => {
                    if t0.elapsed() > limit {
                        let _ = child.kill();
                        let _ = child.wait();
                        return Ok(l(vec![a("timeout")]));
                    }
                    std::thread::sleep(nap);
                    if nap < Duration::from_millis(20) {
                        nap *= 2;
                    }
                }
            }
        };
        let out = read_all(&out_path);
        let err = read_all(&err_path);
        let panicked = status.code() == Some(101) || err.windows(11).any(|w| w == b"panicked at");
        Ok(if panicked {
            l(vec![a("panic")])
        } else {
            match status.code() {
                Some(0) => tagged("stdout", vec![s(&String::from_utf8_lossy(&out))]),
                Some(c) if out.is_empty() => tagged("error", vec![a(&c.to_string())]),
                // an error exit after something was printed: show both
                Some(c) => tagged("error", vec![a(&c.to_string()), tagged("stdout", vec![s(&String::from_utf8_lossy(&out))])]),
                None => {
                    #[cfg(unix)]
                    let sig = std::os::unix::process::ExitStatusExt::signal(&status).unwrap_or(0);
                    #[cfg(not(unix))]
                    let sig = 0;
                    tagged("signal", vec![a(&sig.to_string())])
                }
            }
        })
    })();
    cleanup();
    result
}

// ------------------------------------------------------------------ input texts
/// keep user-guide arities below 10^5 or at/above 2^64 (the model's tree type has unary arities)
fn cap_digit_runs(t: &str) -> String {
    let b = t.as_bytes();
    let mut out = String::new();
    let mut i = 0;
    while i < b.len() {
        if b[i].is_ascii_digit() {
            let mut j = i;
            while j < b.len() && b[j].is_ascii_digit() {
                j += 1;
            }
            let run = &t[i..j];
            if run.len() > 5 && run.len() < 21 { out.push_str(&run[..5]) } else { out.push_str(run) }
            i = j;
        } else {
            // generated texts are ASCII; keep anything else untouched
            let ch = t[i..].chars().next().unwrap();
            out.push(ch);
            i += ch.len_utf8();
        }
    }
    out
}

/// a program whose tau* the generator itself can compute (no overflowing `V<n>` names)
fn tame_program(rng: &mut Rng) -> asp::Program {
    match rng.below(3) {
        0 => comp::planted_program(rng).0,
        1 => ngen::program(rng),
        _ => {
            let cfg = g::AspCfg { max_rules: 4, ..g::AspCfg::default() };
            g::program(rng, &cfg)
        }
    }
}

/// program texts: printed random trees of every program generator of the framework, the
/// text-level grammar fuzzer (spacing, comments, `- 5`, `--5`, 2^63, ...), 12% mutated
fn program_text(rng: &mut Rng, mutate_pct: usize) -> String {
    let t = match rng.weighted(&[15, 20, 20, 15, 15, 15]) {
        0 => {
            let cfg = if rng.chance(10) { asprt::cfg_with_keyword() } else { asprt::cfg() };
            asprt::program(rng, &cfg).to_string()
        }
        1 => asprt::text_program(rng),
        2 => {
            let cfg = taustar::TCfg::adversarial(rng);
            taustar::program(rng, &cfg).to_string()
        }
        3 => ngen::program(rng).to_string(),
        4 => comp::planted_program(rng).0.to_string(),
        _ => {
            let mut cfg = g::AspCfg::default();
            if rng.chance(15) {
                cfg.extreme_numerals = 10;
            }
            g::program(rng, &cfg).to_string()
        }
    };
    if rng.chance(mutate_pct) { asprt::mutate(rng, &t) } else { t }
}

/// the pool of ext/simplint.rs contains the name `a` (a tree the parser never produces, printed it
/// is a symbol): keep the names that print as variables, so that most texts are accepted
fn simplint_cfg(rng: &mut Rng) -> g::Cfg {
    let mut c = simplint::cfg(rng);
    c.var_names.retain(|n| n.starts_with(|ch: char| ch.is_ascii_uppercase()));
    c
}

/// The parser MODEL (Model/FolParse.v, fuel-driven) needs time exponential in the depth of a chain of
/// unparenthesised prefix operators (`forall X exists Y not not forall Z ..`: 0.04 s at depth 14, 2 s at
/// depth 20, a minute at 25); the real parser does not.  Texts for the CLI correspondence stay below it.
const MODEL_DEPTH: usize = 14;
fn unary_depth(f: &fol::Formula) -> usize {
    use fol::Formula as F;
    match f {
        F::AtomicFormula(_) => 0,
        F::UnaryFormula { formula, .. } => 1 + unary_depth(formula),
        F::QuantifiedFormula { formula, .. } => 1 + unary_depth(formula),
        F::BinaryFormula { lhs, rhs, .. } => unary_depth(lhs).max(unary_depth(rhs)),
    }
}
/// ... and the printer MODEL needs time exponential in the depth of parenthesised right operands
/// (`a and (b and (c and ..))`; a minute at depth 20)
const MODEL_RHS_DEPTH: usize = 8;
fn rhs_depth(f: &fol::Formula) -> usize {
    use fol::Formula as F;
    match f {
        F::AtomicFormula(_) => 0,
        F::UnaryFormula { formula, .. } => rhs_depth(formula),
        F::QuantifiedFormula { formula, .. } => rhs_depth(formula),
        F::BinaryFormula { lhs, rhs, .. } => {
            let r = if matches!(**rhs, F::BinaryFormula { .. }) { 1 + rhs_depth(rhs) } else { rhs_depth(rhs) };
            rhs_depth(lhs).max(r)
        }
    }
}
fn model_friendly(f: &fol::Formula) -> bool {
    unary_depth(f) <= MODEL_DEPTH && rhs_depth(f) <= MODEL_RHS_DEPTH
}
/// one or two formulas on which the fixpoint loop needs a dozen passes and more, within MODEL_DEPTH
fn deep_text(rng: &mut Rng) -> String {
    use crate::ext::clsterm;
    let n = 1 + rng.weighted(&[8, 2]);
    let fs: Vec<fol::Formula> = (0..n)
        .map(|_| {
            for _ in 0..20 {
                let f = match rng.below(3) {
                    0 => {
                        let n = 11 + rng.below(3);
                        clsterm::fam_prefix(rng, n)
                    }
                    1 => {
                        let n = 12 + rng.below(18);
                        clsterm::fam_pulled(rng, n)
                    }
                    _ => {
                        let n = 11 + rng.below(6);
                        clsterm::fam_taustar(rng, n)
                    }
                };
                if model_friendly(&f) && clsterm::tame(&f) {
                    return f;
                }
            }
            clsterm::fam_pulled(rng, 14)
        })
        .collect();
    fol::Theory { formulas: fs }.to_string()
}

fn redex_rich(rng: &mut Rng) -> fol::Formula {
    match rng.weighted(&[3, 3, 3, 2, 1, 3, 2, 2]) {
        // the redex shape of each classic rule (all pairs of sorts in the transitive-equality redex),
        // mixed-sort quantifier blocks, and the families on which the fixpoint loop needs many passes
        // (kept when the loop stays small: the model gives the classic loop 64 passes)
        5 => {
            let rule = *rng.pick(&[simplcls::Rule::Rdn, simplcls::Rule::Sdv, simplcls::Rule::Rqd, simplcls::Rule::Eqs, simplcls::Rule::Ste]);
            simplcls::formula_for(rng, rule)
        }
        6 => super::gentext::mixed_block(rng),
        7 => {
            for _ in 0..20 {
                let f = crate::ext::clsterm::tame_case(rng);
                if model_friendly(&f) {
                    return f;
                }
            }
            crate::ext::clsterm::fam_pulled(rng, 3)
        }
        0 => {
            let c = simplint_cfg(rng);
            let d = 1 + rng.below(3);
            simplint::formula(rng, &c, d)
        }
        1 => {
            let c = simplint_cfg(rng);
            let d = 1 + rng.below(2);
            simplint::cascade(rng, &c, d)
        }
        2 => simplcls::formula_nested(rng),
        3 => {
            let c = simplcls::cfg(rng);
            let d = rng.below(2);
            simplcls::redex(rng, &c, d, None)
        }
        _ => folrt::formula(rng),
    }
}

/// formulas on which ONE recursive pass of the intuitionistic/ht portfolio is not yet the fixpoint
/// (rare among random formulas): a later rewrite of the composed pipeline creates a redex of an
/// earlier one at the same node (`#false <- F` becomes `F -> #false`, which only the next pass
/// turns into `not F`), or a chain with a decidable first guard becomes `#false and ...`,
/// a left-nested conjunction whose annihilation needs another pass
fn two_pass(rng: &mut Rng) -> fol::Formula {
    use fol::{AtomicFormula as A, BinaryConnective as B, Formula as F};
    let c = simplint_cfg(rng);
    let falsity = F::AtomicFormula(A::Falsity);
    let core = match rng.below(3) {
        0 => F::BinaryFormula { connective: B::ReverseImplication, lhs: falsity.into(), rhs: redex_rich(rng).into() },
        1 => {
            let f = F::BinaryFormula { connective: B::ReverseImplication, lhs: falsity.into(), rhs: g::formula(rng, &c, 1).into() };
            F::BinaryFormula { connective: B::Implication, lhs: g::formula(rng, &c, 1).into(), rhs: f.into() }
        }
        _ => {
            let t = g::gterm(rng, &c, 1);
            let mut guards = vec![fol::Guard { relation: g::relation(rng), term: t.clone() }];
            for _ in 0..1 + rng.below(2) {
                guards.push(fol::Guard { relation: g::relation(rng), term: g::gterm(rng, &c, 1) });
            }
            F::AtomicFormula(A::Comparison(fol::Comparison { term: t, guards }))
        }
    };
    match rng.below(4) {
        0 => F::BinaryFormula { connective: g::connective(rng), lhs: core.into(), rhs: g::formula(rng, &c, 1).into() },
        1 => F::QuantifiedFormula {
            quantification: fol::Quantification { quantifier: fol::Quantifier::Forall, variables: g::binders(rng, &c) },
            formula: core.into(),
        },
        _ => core,
    }
}

/// theory texts for `simplify`: formulas rich in redexes of the three portfolios at the root and
/// below it (so that portfolio AND strategy matter), tau* theories, the generic theory generator
/// and the text fuzzer
fn simplify_text(rng: &mut Rng, mutate_pct: usize) -> String {
    let t = match rng.weighted(&[60, 15, 15, 10]) {
        0 => {
            let n = 1 + rng.weighted(&[5, 3, 2]);
            fol::Theory { formulas: (0..n).map(|_| if rng.chance(25) { two_pass(rng) } else { redex_rich(rng) }).collect() }.to_string()
        }
        1 => tame_program(rng).tau_star().to_string(),
        2 => folrt::theory(rng).to_string(),
        _ => folrt::fuzz_theory(rng),
    };
    if rng.chance(mutate_pct) { folrt::mutate(rng, &t) } else { t }
}

/// theory texts for `translate --with gamma|completion`: tau* theories of generated programs and
/// hand-made definition theories (completable about half of the time), generic theories, fuzzer
fn theory_text(rng: &mut Rng, mutate_pct: usize) -> String {
    let t = match rng.weighted(&[40, 30, 20, 10]) {
        0 => tame_program(rng).tau_star().to_string(),
        1 => comp::handmade_theory(rng).to_string(),
        2 => folrt::theory(rng).to_string(),
        _ => folrt::fuzz_theory(rng),
    };
    if rng.chance(mutate_pct) { folrt::mutate(rng, &t) } else { t }
}

fn mix(rng: &mut Rng, printed: String, fuzz: fn(&mut Rng) -> String) -> String {
    match rng.weighted(&[40, 35, 12, 13]) {
        0 => printed,
        1 => fuzz(rng),
        2 => folrt::mutate(rng, &printed),
        _ => {
            let f = fuzz(rng);
            folrt::mutate(rng, &f)
        }
    }
}

fn case(cmd: Sexp, text: String) -> Sexp {
    l(vec![cmd, s(&text)])
}
fn cmd(tag: &str, words: &[&str]) -> Sexp {
    tagged(tag, words.iter().map(|w| a(w)).collect())
}

fn gen_parse(rng: &mut Rng) -> Sexp {
    match rng.weighted(&[4, 3, 2, 2]) {
        0 => case(cmd("parse", &["program"]), program_text(rng, 15)),
        1 => {
            let p = folrt::theory(rng).to_string();
            case(cmd("parse", &["theory"]), mix(rng, p, folrt::fuzz_theory))
        }
        2 => {
            // one text in eight is a user guide: `parse --as specification` must refuse its declarations
            let t = if rng.chance(12) {
                cap_digit_runs(&folrt::user_guide(rng).to_string())
            } else {
                let p = folrt::specification(rng).to_string();
                mix(rng, p, folrt::fuzz_spec)
            };
            case(cmd("parse", &["specification"]), t)
        }
        _ => {
            let p = folrt::user_guide(rng).to_string();
            let t = mix(rng, p, folrt::fuzz_ug);
            case(cmd("parse", &["user-guide"]), cap_digit_runs(&t))
        }
    }
}

fn gen_translate(rng: &mut Rng) -> Sexp {
    match rng.weighted(&[3, 2, 2, 2, 3]) {
        0 => case(cmd("translate", &["tau-star"]), program_text(rng, 10)),
        1 => case(cmd("translate", &["mu"]), program_text(rng, 10)),
        2 => {
            // mostly regular programs, so that `natural` prints something
            let t = if rng.chance(70) { ngen::program(rng).to_string() } else { program_text(rng, 10) };
            case(cmd("translate", &["natural"]), t)
        }
        3 => case(cmd("translate", &["gamma"]), theory_text(rng, 10)),
        _ => case(cmd("translate", &["completion"]), theory_text(rng, 8)),
    }
}

const PORTFOLIOS: &[&str] = &["intuitionistic", "ht", "classic"];
const STRATEGIES: &[&str] = &["shallow", "recursive", "fixpoint"];

fn gen_simplify(rng: &mut Rng) -> Sexp {
    if rng.chance(4) {
        // the fixpoint strategy on formulas that need a dozen passes and more (at most 64 in the model)
        let pf = *rng.pick(&["classic", "classic", "ht"]);
        return case(cmd("simplify", &[pf, "fixpoint"]), deep_text(rng));
    }
    let pf = *rng.pick(PORTFOLIOS);
    let st = *rng.pick(STRATEGIES);
    case(cmd("simplify", &[pf, st]), simplify_text(rng, 6))
}

fn gen_analyze(rng: &mut Rng) -> Sexp {
    if rng.chance(50) {
        // positive cycles planted / broken by sign or arity: tight and non-tight in comparable numbers
        let t = if rng.chance(70) { comp::planted_program(rng).0.to_string() } else { program_text(rng, 10) };
        case(cmd("analyze", &["tightness"]), t)
    } else {
        let t = if rng.chance(70) { ngen::program(rng).to_string() } else { program_text(rng, 10) };
        case(cmd("analyze", &["regularity"]), t)
    }
}

fn gen_any(rng: &mut Rng) -> Sexp {
    match rng.weighted(&[30, 30, 28, 12]) {
        0 => gen_parse(rng),
        1 => gen_translate(rng),
        2 => gen_simplify(rng),
        _ => gen_analyze(rng),
    }
}

pub fn ops() -> Vec<Op> {
    vec![
        Op { name: "cli_run", generate: gen_any, run: run_cli },
        Op { name: "cli_gen_parse", generate: gen_parse, run: run_cli },
        Op { name: "cli_gen_translate", generate: gen_translate, run: run_cli },
        Op { name: "cli_gen_simplify", generate: gen_simplify, run: run_cli },
        Op { name: "cli_gen_analyze", generate: gen_analyze, run: run_cli },
    ]
}
