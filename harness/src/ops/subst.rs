use super::Op;
use crate::{conv, generate as g, rng::Rng, sexp::{Sexp, l, tagged}};
use anthem::syntax_tree::fol::sigma_0 as fol;

/// (formula var term): binder pools designed to exhaust fresh-name candidates
fn gen_case(rng: &mut Rng) -> Sexp {
    if rng.chance(40) {
        return capture_case(rng);
    }
    let cfg = if rng.chance(60) {
        g::Cfg { var_names: vec!["X", "Y", "X1", "Y1", "X2", "Y2", "X11"], use_fconsts: rng.chance(30), ..g::Cfg::tight() }
    } else {
        g::Cfg::default()
    };
    let depth = 1 + rng.below(4);
    let f = g::formula(rng, &cfg, depth);
    let x = g::variable(rng, &cfg);
    // mostly sort-compatible terms; a small malformed stream exercises the panics
    let t = if rng.chance(93) {
        match x.sort {
            fol::Sort::General => g::gterm(rng, &cfg, 2),
            fol::Sort::Integer => fol::GeneralTerm::IntegerTerm(g::iterm(rng, &cfg, 2)),
            fol::Sort::Symbol => fol::GeneralTerm::SymbolicTerm(g::sterm(rng, &cfg)),
        }
    } else {
        g::gterm(rng, &cfg, 2)
    };
    l(vec![conv::formula(&f), conv::var(&x), conv::gterm(&t)])
}

fn var_term(v: &fol::Variable) -> fol::GeneralTerm {
    match v.sort {
        fol::Sort::General => fol::GeneralTerm::Variable(v.name.clone()),
        fol::Sort::Integer => fol::GeneralTerm::IntegerTerm(fol::IntegerTerm::Variable(v.name.clone())),
        fol::Sort::Symbol => fol::GeneralTerm::SymbolicTerm(fol::SymbolicTerm::Variable(v.name.clone())),
    }
}

/// a term of the sort of `vs` mentioning exactly these variables (integer: a sum; otherwise the first one)
fn term_over(rng: &mut Rng, vs: &[fol::Variable]) -> fol::GeneralTerm {
    if vs[0].sort != fol::Sort::Integer {
        return var_term(&vs[0]);
    }
    let mut t = fol::IntegerTerm::Variable(vs[0].name.clone());
    for v in &vs[1..] {
        let op = if rng.chance(80) { fol::BinaryOperator::Add } else { fol::BinaryOperator::Subtract };
        t = fol::IntegerTerm::BinaryOperation { op, lhs: t.into(), rhs: fol::IntegerTerm::Variable(v.name.clone()).into() };
    }
    if rng.chance(20) {
        t = fol::IntegerTerm::BinaryOperation {
            op: fol::BinaryOperator::Add,
            lhs: t.into(),
            rhs: fol::IntegerTerm::Numeral(rng.range(-1, 2) as isize).into(),
        };
    }
    fol::GeneralTerm::IntegerTerm(t)
}

/// Targeted capture scenarios.  One family of names B, B1, B2, ... at one sort: the block binds family
/// members (possibly repeated), every literal of the body talks about family members (so bound variables
/// really occur), the term mentions bound variables (forcing renaming), the substituted variable is
/// usually a family member itself (hence a fresh-name candidate), and in "exhaust" mode the names
/// B1..B10 are all taken by the term and the body, so that the candidates of B and of B1 meet at B11.
/// Bodies prefer comparisons: their truth does not depend on the sampled predicate interpretation, so a
/// captured variable changes the truth value on most assignments.
fn capture_case(rng: &mut Rng) -> Sexp {
    use fol::Sort as S;
    let bs = *rng.pick(&[S::Integer, S::Integer, S::Integer, S::General, S::Symbol]);
    let base = *rng.pick(&["X", "Y"]);
    let fam = |k: usize| fol::Variable { name: if k == 0 { base.to_string() } else { format!("{base}{k}") }, sort: bs };
    let exhaust = bs == S::Integer && rng.chance(30);

    // the block
    let mut block: Vec<fol::Variable> = vec![];
    if exhaust {
        block.push(fam(0));
        block.push(fam(1));
        if rng.chance(50) {
            block.swap(0, 1);
        }
        if rng.chance(25) {
            block.push(fam(rng.below(4)));
        }
    } else {
        for _ in 0..(1 + rng.weighted(&[5, 4, 2])) {
            block.push(fam(rng.below(4)));
        }
    }

    // the substituted variable: a family member / a candidate of one, at the block's sort or general
    let xs = if bs == S::General || rng.chance(70) { bs } else { S::General };
    let xname = match rng.weighted(&[4, 3, 2, 2, 2, 1]) {
        0 => fam(1).name,
        1 => fam(2).name,
        2 => fam(3).name,
        3 => fam(11).name,
        4 => fam(12).name,
        _ => "Z".to_string(),
    };
    let x = fol::Variable { name: xname, sort: xs };
    if rng.chance(85) {
        block.retain(|v| *v != x);
        if block.is_empty() {
            block.push(fam(0));
        }
    }
    let x_term = var_term(&x);

    // the term: mentions bound variables, plus B1..B10 in exhaust mode (some of them go to the body instead)
    let mut tvs: Vec<fol::Variable> = vec![];
    let mut body_extra: Vec<fol::Variable> = vec![];
    if exhaust {
        tvs.push(fam(0));
        tvs.push(fam(1));
        for k in 2..=10 {
            if rng.chance(75) { tvs.push(fam(k)) } else { body_extra.push(fam(k)) }
        }
    } else {
        tvs.push(rng.pick(&block).clone());
        if rng.chance(50) {
            tvs.push(rng.pick(&block).clone());
        }
        if rng.chance(50) {
            tvs.push(fam(rng.below(4)));
        }
        if rng.chance(15) {
            tvs.push(fam(11 + rng.below(2)));
        }
        tvs.dedup();
    }
    let t = term_over(rng, &tvs);

    // the body: 1-3 literals over block variables, x and other family members
    let mut pool: Vec<fol::GeneralTerm> = block.iter().map(var_term).collect();
    pool.push(x_term.clone());
    pool.push(var_term(&fam(rng.below(4))));
    for v in &body_extra {
        pool.push(var_term(v));
    }
    let literal = |rng: &mut Rng, must: Option<fol::GeneralTerm>| -> fol::Formula {
        let a = must.unwrap_or_else(|| rng.pick(&pool).clone());
        let b = rng.pick(&pool).clone();
        let atomic = if rng.chance(65) {
            fol::AtomicFormula::Comparison(fol::Comparison { term: a, guards: vec![fol::Guard { relation: g::relation(rng), term: b }] })
        } else {
            let mut terms = vec![a];
            if rng.chance(50) {
                terms.push(b);
            }
            fol::AtomicFormula::Atom(fol::Atom { predicate_symbol: rng.pick(&["p", "q"]).to_string(), terms })
        };
        let f = fol::Formula::AtomicFormula(atomic);
        if rng.chance(15) {
            fol::Formula::UnaryFormula { connective: fol::UnaryConnective::Negation, formula: f.into() }
        } else {
            f
        }
    };
    let mut musts: Vec<fol::GeneralTerm> = vec![];
    for v in &block {
        if rng.chance(85) {
            musts.push(var_term(v));
        }
    }
    if rng.chance(60) {
        musts.push(x_term.clone());
    }
    for v in &body_extra {
        musts.push(var_term(v));
    }
    if musts.is_empty() {
        musts.push(var_term(&block[0]));
    }
    let mut body: Option<fol::Formula> = None;
    for m in musts {
        let lit = literal(rng, Some(m));
        body = Some(match body {
            None => lit,
            Some(b) => fol::Formula::BinaryFormula { connective: g::connective(rng), lhs: b.into(), rhs: lit.into() },
        });
    }
    let mut body = body.unwrap();
    // sometimes an inner block over a family member (recursion through renamed bodies)
    if rng.chance(25) {
        let inner = fol::Formula::QuantifiedFormula {
            quantification: fol::Quantification {
                quantifier: if rng.chance(50) { fol::Quantifier::Forall } else { fol::Quantifier::Exists },
                variables: vec![fam(rng.below(4))],
            },
            formula: literal(rng, None).into(),
        };
        body = fol::Formula::BinaryFormula { connective: g::connective(rng), lhs: body.into(), rhs: inner.into() };
    }
    let mut f = fol::Formula::QuantifiedFormula {
        quantification: fol::Quantification {
            quantifier: if rng.chance(50) { fol::Quantifier::Forall } else { fol::Quantifier::Exists },
            variables: block,
        },
        formula: body.into(),
    };
    // sometimes x also occurs free outside the block
    if rng.chance(25) {
        let outside = fol::Formula::AtomicFormula(fol::AtomicFormula::Atom(fol::Atom { predicate_symbol: "q".to_string(), terms: vec![x_term] }));
        f = fol::Formula::BinaryFormula { connective: g::connective(rng), lhs: outside.into(), rhs: f.into() };
    }
    l(vec![conv::formula(&f), conv::var(&x), conv::gterm(&t)])
}

fn run(e: &Sexp) -> Result<Sexp, String> {
    match e.as_list()? {
        [f, x, t] => {
            let f = conv::parse_formula(f)?;
            let x = conv::parse_var(x)?;
            let t = conv::parse_gterm(t)?;
            Ok(tagged("some", vec![conv::formula(&f.substitute(x, t))]))
        }
        _ => Err("substitute: (formula var term) expected".into()),
    }
}

pub fn ops() -> Vec<Op> {
    vec![Op { name: "substitute", generate: gen_case, run }]
}
