use super::Op;
use crate::{conv, generate as g, rng::Rng, sexp::{Sexp, l, tagged}};
use anthem::syntax_tree::fol::sigma_0 as fol;

/// (formula var term): binder pools designed to exhaust fresh-name candidates
fn gen_case(rng: &mut Rng) -> Sexp {
    let cfg = if rng.chance(60) {
        g::Cfg { var_names: vec!["X", "Y", "X1", "Y1", "X2", "Y2", "X11"], use_fconsts: rng.chance(30), ..g::Cfg::tight() }
    } else {
        g::Cfg::default()
    };
    let depth = 1 + rng.below(4);
    let f = g::formula(rng, &cfg, depth);
    let x = g::variable(rng, &cfg);
    // mostly sort-compatible terms; a small malformed stream exercises the panics
    let t = if rng.chance(93) {
        match x.sort {
            fol::Sort::General => g::gterm(rng, &cfg, 2),
            fol::Sort::Integer => fol::GeneralTerm::IntegerTerm(g::iterm(rng, &cfg, 2)),
            fol::Sort::Symbol => fol::GeneralTerm::SymbolicTerm(g::sterm(rng, &cfg)),
        }
    } else {
        g::gterm(rng, &cfg, 2)
    };
    l(vec![conv::formula(&f), conv::var(&x), conv::gterm(&t)])
}

fn run(e: &Sexp) -> Result<Sexp, String> {
    match e.as_list()? {
        [f, x, t] => {
            let f = conv::parse_formula(f)?;
            let x = conv::parse_var(x)?;
            let t = conv::parse_gterm(t)?;
            Ok(tagged("some", vec![conv::formula(&f.substitute(x, t))]))
        }
        _ => Err("substitute: (formula var term) expected".into()),
    }
}

pub fn ops() -> Vec<Op> {
    vec![Op { name: "substitute", generate: gen_case, run }]
}
