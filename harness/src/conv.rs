//! Conversions between anthem's syntax trees and the wire format.
use crate::sexp::{Sexp, a, l, s, tagged};
use anthem::syntax_tree::{asp::mini_gringo as asp, fol::sigma_0 as fol};

type R<T> = Result<T, String>;

fn bad<T>(what: &str, e: &Sexp) -> R<T> {
    Err(format!("{what}: {}", e.to_text()))
}

pub fn num(n: isize) -> Sexp {
    a(&n.to_string())
}
pub fn unum(n: usize) -> Sexp {
    a(&n.to_string())
}
pub fn boolean(b: bool) -> Sexp {
    a(if b { "true" } else { "false" })
}
pub fn parse_isize(e: &Sexp) -> R<isize> {
    match e {
        Sexp::A(x) => x.parse::<isize>().map_err(|err| format!("{err}: {x}")),
        e => bad("integer", e),
    }
}
pub fn parse_usize(e: &Sexp) -> R<usize> {
    match e {
        Sexp::A(x) => x.parse::<usize>().map_err(|err| format!("{err}: {x}")),
        e => bad("natural", e),
    }
}
pub fn parse_bool(e: &Sexp) -> R<bool> {
    match e {
        Sexp::A(x) if x == "true" => Ok(true),
        Sexp::A(x) if x == "false" => Ok(false),
        e => bad("bool", e),
    }
}
pub fn string_of(e: &Sexp) -> R<String> {
    e.as_str().map(|x| x.to_string())
}

// ---------------------------------------------------------------- fol

pub fn sort(x: &fol::Sort) -> Sexp {
    a(match x {
        fol::Sort::General => "g",
        fol::Sort::Integer => "i",
        fol::Sort::Symbol => "s",
    })
}
pub fn parse_sort(e: &Sexp) -> R<fol::Sort> {
    match e {
        Sexp::A(x) if x == "g" => Ok(fol::Sort::General),
        Sexp::A(x) if x == "i" => Ok(fol::Sort::Integer),
        Sexp::A(x) if x == "s" => Ok(fol::Sort::Symbol),
        e => bad("sort", e),
    }
}

pub fn iterm(t: &fol::IntegerTerm) -> Sexp {
    use fol::IntegerTerm as I;
    match t {
        I::Numeral(n) => tagged("n", vec![num(*n)]),
        I::FunctionConstant(c) => tagged("if", vec![s(c)]),
        I::Variable(x) => tagged("iv", vec![s(x)]),
        I::UnaryOperation { op: fol::UnaryOperator::Negative, arg } => tagged("neg", vec![iterm(arg)]),
        I::BinaryOperation { op, lhs, rhs } => tagged(
            match op {
                fol::BinaryOperator::Add => "add",
                fol::BinaryOperator::Subtract => "sub",
                fol::BinaryOperator::Multiply => "mul",
            },
            vec![iterm(lhs), iterm(rhs)],
        ),
    }
}
pub fn parse_iterm(e: &Sexp) -> R<fol::IntegerTerm> {
    use fol::IntegerTerm as I;
    match e.tag() {
        Some(("n", [z])) => Ok(I::Numeral(parse_isize(z)?)),
        Some(("if", [c])) => Ok(I::FunctionConstant(string_of(c)?)),
        Some(("iv", [x])) => Ok(I::Variable(string_of(x)?)),
        Some(("neg", [t])) => Ok(I::UnaryOperation {
            op: fol::UnaryOperator::Negative,
            arg: parse_iterm(t)?.into(),
        }),
        Some((o @ ("add" | "sub" | "mul"), [x, y])) => Ok(I::BinaryOperation {
            op: match o {
                "add" => fol::BinaryOperator::Add,
                "sub" => fol::BinaryOperator::Subtract,
                _ => fol::BinaryOperator::Multiply,
            },
            lhs: parse_iterm(x)?.into(),
            rhs: parse_iterm(y)?.into(),
        }),
        _ => bad("iterm", e),
    }
}

pub fn gterm(t: &fol::GeneralTerm) -> Sexp {
    use fol::{GeneralTerm as G, SymbolicTerm as Sy};
    match t {
        G::Infimum => a("inf"),
        G::Supremum => a("sup"),
        G::FunctionConstant(c) => tagged("gf", vec![s(c)]),
        G::Variable(x) => tagged("gv", vec![s(x)]),
        G::IntegerTerm(t) => iterm(t),
        G::SymbolicTerm(Sy::Symbol(x)) => tagged("sy", vec![s(x)]),
        G::SymbolicTerm(Sy::FunctionConstant(x)) => tagged("sf", vec![s(x)]),
        G::SymbolicTerm(Sy::Variable(x)) => tagged("sv", vec![s(x)]),
    }
}
pub fn parse_gterm(e: &Sexp) -> R<fol::GeneralTerm> {
    use fol::{GeneralTerm as G, SymbolicTerm as Sy};
    match e {
        Sexp::A(x) if x == "inf" => return Ok(G::Infimum),
        Sexp::A(x) if x == "sup" => return Ok(G::Supremum),
        _ => {}
    }
    match e.tag() {
        Some(("gf", [c])) => Ok(G::FunctionConstant(string_of(c)?)),
        Some(("gv", [c])) => Ok(G::Variable(string_of(c)?)),
        Some(("sy", [c])) => Ok(G::SymbolicTerm(Sy::Symbol(string_of(c)?))),
        Some(("sf", [c])) => Ok(G::SymbolicTerm(Sy::FunctionConstant(string_of(c)?))),
        Some(("sv", [c])) => Ok(G::SymbolicTerm(Sy::Variable(string_of(c)?))),
        _ => Ok(G::IntegerTerm(parse_iterm(e)?)),
    }
}

pub fn rel(r: &fol::Relation) -> Sexp {
    use fol::Relation as Rl;
    a(match r {
        Rl::Equal => "eq",
        Rl::NotEqual => "ne",
        Rl::Greater => "gt",
        Rl::Less => "lt",
        Rl::GreaterEqual => "ge",
        Rl::LessEqual => "le",
    })
}
pub fn parse_rel(e: &Sexp) -> R<fol::Relation> {
    use fol::Relation as Rl;
    match e.as_str()? {
        "eq" => Ok(Rl::Equal),
        "ne" => Ok(Rl::NotEqual),
        "gt" => Ok(Rl::Greater),
        "lt" => Ok(Rl::Less),
        "ge" => Ok(Rl::GreaterEqual),
        "le" => Ok(Rl::LessEqual),
        _ => bad("rel", e),
    }
}

pub fn var(v: &fol::Variable) -> Sexp {
    l(vec![s(&v.name), sort(&v.sort)])
}
pub fn parse_var(e: &Sexp) -> R<fol::Variable> {
    match e.as_list()? {
        [x, st] => Ok(fol::Variable { name: string_of(x)?, sort: parse_sort(st)? }),
        _ => bad("var", e),
    }
}
pub fn pred(p: &fol::Predicate) -> Sexp {
    l(vec![s(&p.symbol), unum(p.arity)])
}
pub fn parse_pred(e: &Sexp) -> R<fol::Predicate> {
    match e.as_list()? {
        [x, n] => Ok(fol::Predicate { symbol: string_of(x)?, arity: parse_usize(n)? }),
        _ => bad("pred", e),
    }
}
pub fn fconst(c: &fol::FunctionConstant) -> Sexp {
    l(vec![s(&c.name), sort(&c.sort)])
}
pub fn parse_fconst(e: &Sexp) -> R<fol::FunctionConstant> {
    match e.as_list()? {
        [x, st] => Ok(fol::FunctionConstant { name: string_of(x)?, sort: parse_sort(st)? }),
        _ => bad("fconst", e),
    }
}

pub fn atomic(x: &fol::AtomicFormula) -> Sexp {
    use fol::AtomicFormula as AF;
    match x {
        AF::Truth => l(vec![a("T")]),
        AF::Falsity => l(vec![a("F")]),
        AF::Atom(at) => {
            let mut v = vec![a("P"), s(&at.predicate_symbol)];
            v.extend(at.terms.iter().map(gterm));
            l(v)
        }
        AF::Comparison(c) => {
            let mut v = vec![a("C"), gterm(&c.term)];
            v.extend(c.guards.iter().map(|g| l(vec![rel(&g.relation), gterm(&g.term)])));
            l(v)
        }
    }
}
pub fn parse_atomic(e: &Sexp) -> R<Option<fol::AtomicFormula>> {
    use fol::AtomicFormula as AF;
    match e.tag() {
        Some(("T", [])) => Ok(Some(AF::Truth)),
        Some(("F", [])) => Ok(Some(AF::Falsity)),
        Some(("P", [p, ts @ ..])) => Ok(Some(AF::Atom(fol::Atom {
            predicate_symbol: string_of(p)?,
            terms: ts.iter().map(parse_gterm).collect::<R<Vec<_>>>()?,
        }))),
        Some(("C", [t, gs @ ..])) => {
            let mut guards = vec![];
            for g in gs {
                match g.as_list()? {
                    [r, t] => guards.push(fol::Guard { relation: parse_rel(r)?, term: parse_gterm(t)? }),
                    _ => return bad("guard", g),
                }
            }
            Ok(Some(AF::Comparison(fol::Comparison { term: parse_gterm(t)?, guards })))
        }
        _ => Ok(None),
    }
}

pub fn formula(f: &fol::Formula) -> Sexp {
    use fol::Formula as F;
    match f {
        F::AtomicFormula(x) => atomic(x),
        F::UnaryFormula { connective: fol::UnaryConnective::Negation, formula: g } => {
            tagged("not", vec![formula(g)])
        }
        F::BinaryFormula { connective, lhs, rhs } => tagged(
            match connective {
                fol::BinaryConnective::Conjunction => "and",
                fol::BinaryConnective::Disjunction => "or",
                fol::BinaryConnective::Implication => "imp",
                fol::BinaryConnective::ReverseImplication => "rimp",
                fol::BinaryConnective::Equivalence => "iff",
            },
            vec![formula(lhs), formula(rhs)],
        ),
        F::QuantifiedFormula { quantification, formula: g } => tagged(
            match quantification.quantifier {
                fol::Quantifier::Forall => "forall",
                fol::Quantifier::Exists => "exists",
            },
            vec![l(quantification.variables.iter().map(var).collect()), formula(g)],
        ),
    }
}
pub fn parse_formula(e: &Sexp) -> R<fol::Formula> {
    use fol::Formula as F;
    if let Some(x) = parse_atomic(e)? {
        return Ok(F::AtomicFormula(x));
    }
    match e.tag() {
        Some(("not", [g])) => Ok(F::UnaryFormula {
            connective: fol::UnaryConnective::Negation,
            formula: parse_formula(g)?.into(),
        }),
        Some((q @ ("forall" | "exists"), [vs, g])) => Ok(F::QuantifiedFormula {
            quantification: fol::Quantification {
                quantifier: if q == "forall" { fol::Quantifier::Forall } else { fol::Quantifier::Exists },
                variables: vs.as_list()?.iter().map(parse_var).collect::<R<Vec<_>>>()?,
            },
            formula: parse_formula(g)?.into(),
        }),
        Some((c @ ("and" | "or" | "imp" | "rimp" | "iff"), [x, y])) => Ok(F::BinaryFormula {
            connective: match c {
                "and" => fol::BinaryConnective::Conjunction,
                "or" => fol::BinaryConnective::Disjunction,
                "imp" => fol::BinaryConnective::Implication,
                "rimp" => fol::BinaryConnective::ReverseImplication,
                _ => fol::BinaryConnective::Equivalence,
            },
            lhs: parse_formula(x)?.into(),
            rhs: parse_formula(y)?.into(),
        }),
        _ => bad("formula", e),
    }
}

pub fn theory(t: &fol::Theory) -> Sexp {
    tagged("theory", t.formulas.iter().map(formula).collect())
}
pub fn parse_theory(e: &Sexp) -> R<fol::Theory> {
    match e.tag() {
        Some(("theory", fs)) => Ok(fol::Theory { formulas: fs.iter().map(parse_formula).collect::<R<Vec<_>>>()? }),
        _ => bad("theory", e),
    }
}

pub fn role(r: &fol::Role) -> Sexp {
    a(match r {
        fol::Role::Assumption => "assumption",
        fol::Role::Spec => "spec",
        fol::Role::Lemma => "lemma",
        fol::Role::Definition => "definition",
        fol::Role::InductiveLemma => "inductive-lemma",
    })
}
pub fn parse_role(e: &Sexp) -> R<fol::Role> {
    match e.as_str()? {
        "assumption" => Ok(fol::Role::Assumption),
        "spec" => Ok(fol::Role::Spec),
        "lemma" => Ok(fol::Role::Lemma),
        "definition" => Ok(fol::Role::Definition),
        "inductive-lemma" => Ok(fol::Role::InductiveLemma),
        _ => bad("role", e),
    }
}
pub fn direction(d: &fol::Direction) -> Sexp {
    a(match d {
        fol::Direction::Universal => "universal",
        fol::Direction::Forward => "forward",
        fol::Direction::Backward => "backward",
    })
}
pub fn parse_direction(e: &Sexp) -> R<fol::Direction> {
    match e.as_str()? {
        "universal" => Ok(fol::Direction::Universal),
        "forward" => Ok(fol::Direction::Forward),
        "backward" => Ok(fol::Direction::Backward),
        _ => bad("direction", e),
    }
}
pub fn annot(x: &fol::AnnotatedFormula) -> Sexp {
    tagged("af", vec![role(&x.role), direction(&x.direction), s(&x.name), formula(&x.formula)])
}
pub fn parse_annot(e: &Sexp) -> R<fol::AnnotatedFormula> {
    match e.tag() {
        Some(("af", [r, d, n, f])) => Ok(fol::AnnotatedFormula {
            role: parse_role(r)?,
            direction: parse_direction(d)?,
            name: string_of(n)?,
            formula: parse_formula(f)?,
        }),
        _ => bad("annotated formula", e),
    }
}
pub fn specification(x: &fol::Specification) -> Sexp {
    tagged("spec", x.formulas.iter().map(annot).collect())
}
pub fn parse_specification(e: &Sexp) -> R<fol::Specification> {
    match e.tag() {
        Some(("spec", fs)) => Ok(fol::Specification { formulas: fs.iter().map(parse_annot).collect::<R<Vec<_>>>()? }),
        _ => bad("specification", e),
    }
}
pub fn ug_entry(x: &fol::UserGuideEntry) -> Sexp {
    use fol::UserGuideEntry as U;
    match x {
        U::InputPredicate(p) => tagged("input", vec![pred(p)]),
        U::OutputPredicate(p) => tagged("output", vec![pred(p)]),
        U::PlaceholderDeclaration(d) => tagged("placeholder", vec![s(&d.name), sort(&d.sort)]),
        U::AnnotatedFormula(f) => annot(f),
    }
}
pub fn parse_ug_entry(e: &Sexp) -> R<fol::UserGuideEntry> {
    use fol::UserGuideEntry as U;
    match e.tag() {
        Some(("input", [p])) => Ok(U::InputPredicate(parse_pred(p)?)),
        Some(("output", [p])) => Ok(U::OutputPredicate(parse_pred(p)?)),
        Some(("placeholder", [n, st])) => Ok(U::PlaceholderDeclaration(fol::PlaceholderDeclaration {
            name: string_of(n)?,
            sort: parse_sort(st)?,
        })),
        _ => Ok(U::AnnotatedFormula(parse_annot(e)?)),
    }
}
pub fn user_guide(x: &fol::UserGuide) -> Sexp {
    tagged("ug", x.entries.iter().map(ug_entry).collect())
}
pub fn parse_user_guide(e: &Sexp) -> R<fol::UserGuide> {
    match e.tag() {
        Some(("ug", es)) => Ok(fol::UserGuide { entries: es.iter().map(parse_ug_entry).collect::<R<Vec<_>>>()? }),
        _ => bad("user guide", e),
    }
}

// ---------------------------------------------------------------- asp

pub fn term(t: &asp::Term) -> Sexp {
    use asp::{PrecomputedTerm as P, Term as T};
    match t {
        T::PrecomputedTerm(P::Infimum) => a("inf"),
        T::PrecomputedTerm(P::Supremum) => a("sup"),
        T::PrecomputedTerm(P::Numeral(n)) => tagged("n", vec![num(*n)]),
        T::PrecomputedTerm(P::Symbol(x)) => tagged("sy", vec![s(x)]),
        T::Variable(v) => tagged("v", vec![s(&v.0)]),
        T::UnaryOperation { op: asp::UnaryOperator::Negative, arg } => tagged("neg", vec![term(arg)]),
        T::BinaryOperation { op, lhs, rhs } => tagged(
            match op {
                asp::BinaryOperator::Add => "add",
                asp::BinaryOperator::Subtract => "sub",
                asp::BinaryOperator::Multiply => "mul",
                asp::BinaryOperator::Divide => "div",
                asp::BinaryOperator::Modulo => "mod",
                asp::BinaryOperator::Interval => "int",
            },
            vec![term(lhs), term(rhs)],
        ),
    }
}
pub fn parse_term(e: &Sexp) -> R<asp::Term> {
    use asp::{PrecomputedTerm as P, Term as T};
    match e {
        Sexp::A(x) if x == "inf" => return Ok(T::PrecomputedTerm(P::Infimum)),
        Sexp::A(x) if x == "sup" => return Ok(T::PrecomputedTerm(P::Supremum)),
        _ => {}
    }
    match e.tag() {
        Some(("n", [z])) => Ok(T::PrecomputedTerm(P::Numeral(parse_isize(z)?))),
        Some(("sy", [x])) => Ok(T::PrecomputedTerm(P::Symbol(string_of(x)?))),
        Some(("v", [x])) => Ok(T::Variable(asp::Variable(string_of(x)?))),
        Some(("neg", [t])) => Ok(T::UnaryOperation { op: asp::UnaryOperator::Negative, arg: parse_term(t)?.into() }),
        Some((o @ ("add" | "sub" | "mul" | "div" | "mod" | "int"), [x, y])) => Ok(T::BinaryOperation {
            op: match o {
                "add" => asp::BinaryOperator::Add,
                "sub" => asp::BinaryOperator::Subtract,
                "mul" => asp::BinaryOperator::Multiply,
                "div" => asp::BinaryOperator::Divide,
                "mod" => asp::BinaryOperator::Modulo,
                _ => asp::BinaryOperator::Interval,
            },
            lhs: parse_term(x)?.into(),
            rhs: parse_term(y)?.into(),
        }),
        _ => bad("term", e),
    }
}
pub fn atom(x: &asp::Atom) -> Sexp {
    let mut v = vec![s(&x.predicate_symbol)];
    v.extend(x.terms.iter().map(term));
    l(v)
}
pub fn parse_atom(e: &Sexp) -> R<asp::Atom> {
    match e.as_list()? {
        [p, ts @ ..] => Ok(asp::Atom {
            predicate_symbol: string_of(p)?,
            terms: ts.iter().map(parse_term).collect::<R<Vec<_>>>()?,
        }),
        _ => bad("atom", e),
    }
}
pub fn arel(r: &asp::Relation) -> Sexp {
    use asp::Relation as Rl;
    a(match r {
        Rl::Equal => "eq",
        Rl::NotEqual => "ne",
        Rl::Greater => "gt",
        Rl::Less => "lt",
        Rl::GreaterEqual => "ge",
        Rl::LessEqual => "le",
    })
}
pub fn parse_arel(e: &Sexp) -> R<asp::Relation> {
    use asp::Relation as Rl;
    match e.as_str()? {
        "eq" => Ok(Rl::Equal),
        "ne" => Ok(Rl::NotEqual),
        "gt" => Ok(Rl::Greater),
        "lt" => Ok(Rl::Less),
        "ge" => Ok(Rl::GreaterEqual),
        "le" => Ok(Rl::LessEqual),
        _ => bad("arel", e),
    }
}
pub fn bformula(x: &asp::AtomicFormula) -> Sexp {
    match x {
        asp::AtomicFormula::Literal(lit) => tagged(
            match lit.sign {
                asp::Sign::NoSign => "pos",
                asp::Sign::Negation => "neg",
                asp::Sign::DoubleNegation => "nneg",
            },
            vec![atom(&lit.atom)],
        ),
        asp::AtomicFormula::Comparison(c) => tagged("cmp", vec![arel(&c.relation), term(&c.lhs), term(&c.rhs)]),
    }
}
pub fn parse_bformula(e: &Sexp) -> R<asp::AtomicFormula> {
    match e.tag() {
        Some((sg @ ("pos" | "neg" | "nneg"), [x])) => Ok(asp::AtomicFormula::Literal(asp::Literal {
            sign: match sg {
                "pos" => asp::Sign::NoSign,
                "neg" => asp::Sign::Negation,
                _ => asp::Sign::DoubleNegation,
            },
            atom: parse_atom(x)?,
        })),
        Some(("cmp", [r, x, y])) => Ok(asp::AtomicFormula::Comparison(asp::Comparison {
            relation: parse_arel(r)?,
            lhs: parse_term(x)?,
            rhs: parse_term(y)?,
        })),
        _ => bad("body formula", e),
    }
}
pub fn head(h: &asp::Head) -> Sexp {
    match h {
        asp::Head::Basic(x) => tagged("basic", vec![atom(x)]),
        asp::Head::Choice(x) => tagged("choice", vec![atom(x)]),
        asp::Head::Falsity => tagged("falsity", vec![]),
    }
}
pub fn parse_head(e: &Sexp) -> R<asp::Head> {
    match e.tag() {
        Some(("basic", [x])) => Ok(asp::Head::Basic(parse_atom(x)?)),
        Some(("choice", [x])) => Ok(asp::Head::Choice(parse_atom(x)?)),
        Some(("falsity", [])) => Ok(asp::Head::Falsity),
        _ => bad("head", e),
    }
}
pub fn rule(r: &asp::Rule) -> Sexp {
    tagged("rule", vec![head(&r.head), l(r.body.formulas.iter().map(bformula).collect())])
}
pub fn parse_rule(e: &Sexp) -> R<asp::Rule> {
    match e.tag() {
        Some(("rule", [h, b])) => Ok(asp::Rule {
            head: parse_head(h)?,
            body: asp::Body { formulas: b.as_list()?.iter().map(parse_bformula).collect::<R<Vec<_>>>()? },
        }),
        _ => bad("rule", e),
    }
}
pub fn program(p: &asp::Program) -> Sexp {
    tagged("program", p.rules.iter().map(rule).collect())
}
pub fn parse_program(e: &Sexp) -> R<asp::Program> {
    match e.tag() {
        Some(("program", rs)) => Ok(asp::Program { rules: rs.iter().map(parse_rule).collect::<R<Vec<_>>>()? }),
        _ => bad("program", e),
    }
}

// ---------------------------------------------------------------- problems
use anthem::verif::problem as pb;

pub fn prole(r: &pb::Role) -> Sexp {
    a(match r {
        pb::Role::Axiom => "axiom",
        pb::Role::Conjecture => "conjecture",
    })
}
pub fn parse_prole(e: &Sexp) -> R<pb::Role> {
    match e.as_str()? {
        "axiom" => Ok(pb::Role::Axiom),
        "conjecture" => Ok(pb::Role::Conjecture),
        _ => bad("problem role", e),
    }
}
pub fn pformula(x: &pb::AnnotatedFormula) -> Sexp {
    tagged("pf", vec![s(&x.name), prole(&x.role), formula(&x.formula)])
}
pub fn parse_pformula(e: &Sexp) -> R<pb::AnnotatedFormula> {
    match e.tag() {
        Some(("pf", [n, r, f])) => Ok(pb::AnnotatedFormula {
            name: string_of(n)?,
            role: parse_prole(r)?,
            formula: parse_formula(f)?,
        }),
        _ => bad("problem formula", e),
    }
}
pub fn problem(p: &pb::Problem) -> Sexp {
    let mut v = vec![s(&p.name)];
    v.extend(p.formulas.iter().map(pformula));
    tagged("problem", v)
}
pub fn parse_problem(e: &Sexp) -> R<pb::Problem> {
    match e.tag() {
        Some(("problem", [n, fs @ ..])) => Ok(pb::Problem {
            name: string_of(n)?,
            interpretation: pb::Interpretation::Standard,
            formulas: fs.iter().map(parse_pformula).collect::<R<Vec<_>>>()?,
        }),
        _ => bad("problem", e),
    }
}
