//! anthem-verif harness.
//!   harness gen <op> <seed> <count>     print `<op>\t<input>` lines (cases)
//!   harness run                         read case lines on stdin, run the real anthem code,
//!                                       print one result line per case
//!   harness ops                         list operations
//!   harness features                    read `<op>\t<input>\t<output>` lines, print the features of each case
//!                                       (src/features.rs) space-separated, one line per case
#[allow(dead_code)]
mod conv;
#[allow(dead_code, unused_imports)]
mod ext {
    include!(concat!(env!("OUT_DIR"), "/ext_gen.rs"));
}
#[allow(dead_code)]
mod features;
#[allow(dead_code)]
mod generate;
mod ops;
#[allow(dead_code)]
mod rng;
#[allow(dead_code)]
mod sexp;

use std::io::{BufRead, Write};

fn run_case(table: &std::collections::HashMap<&'static str, &ops::Op>, line: &str) -> String {
    let Some((op, arg)) = line.split_once('\t') else {
        return "(harness-error \"no tab\")".into();
    };
    let Some(op) = table.get(op) else {
        return format!("(harness-error \"unknown op {op}\")");
    };
    let arg = match sexp::parse(arg) {
        Ok(x) => x,
        Err(e) => return sexp::tagged("harness-error", vec![sexp::s(&format!("parse: {e}"))]).to_text(),
    };
    let run = op.run;
    match std::panic::catch_unwind(move || run(&arg)) {
        Ok(Ok(r)) => r.to_text(),
        Ok(Err(e)) => sexp::tagged("harness-error", vec![sexp::s(&e)]).to_text(),
        Err(p) => {
            let msg = if let Some(m) = p.downcast_ref::<String>() {
                m.clone()
            } else if let Some(m) = p.downcast_ref::<&str>() {
                m.to_string()
            } else {
                "?".to_string()
            };
            // the message is kept out of the compared result: (panic) only
            eprintln!("panic: {msg}");
            "(panic)".into()
        }
    }
}

fn main() {
    let args: Vec<String> = std::env::args().collect();
    let all = ops::all();
    match args.get(1).map(|x| x.as_str()) {
        Some("ops") => {
            for op in &all {
                println!("{}", op.name);
            }
        }
        Some("gen") => {
            let name = &args[2];
            let seed: u64 = args[3].parse().expect("seed");
            let count: usize = args[4].parse().expect("count");
            let op = all.iter().find(|o| o.name == name).unwrap_or_else(|| panic!("unknown op {name}"));
            let mut rng = rng::Rng::new(seed ^ fxhash(name));
            let out = std::io::stdout();
            let mut out = std::io::BufWriter::new(out.lock());
            for _ in 0..count {
                let mut case_rng = rng.fork();
                let input = (op.generate)(&mut case_rng);
                writeln!(out, "{}\t{}", op.name, input.to_text()).unwrap();
            }
        }
        Some("run") => {
            std::panic::set_hook(Box::new(|_| {}));
            let table: std::collections::HashMap<&'static str, &ops::Op> = all.iter().map(|o| (o.name, o)).collect();
            let stdin = std::io::stdin();
            let out = std::io::stdout();
            let mut out = std::io::BufWriter::new(out.lock());
            for line in stdin.lock().lines() {
                let line = line.expect("read");
                writeln!(out, "{}", run_case(&table, &line)).unwrap();
                // one answer per case, delivered at once: the watchdog of bin/vlib.py blames the first case
                // without an answer when the process stops answering
                out.flush().unwrap();
            }
        }
        Some("features") => {
            std::panic::set_hook(Box::new(|_| {}));
            let stdin = std::io::stdin();
            let out = std::io::stdout();
            let mut out = std::io::BufWriter::new(out.lock());
            for line in stdin.lock().lines() {
                let line = line.expect("read");
                let mut it = line.splitn(3, '\t');
                let (op, i, o) = (it.next().unwrap_or(""), it.next().unwrap_or(""), it.next().unwrap_or(""));
                let fs = match (sexp::parse(i), sexp::parse(o)) {
                    (Ok(i), Ok(o)) => {
                        let op = op.to_string();
                        std::panic::catch_unwind(move || features::features(&op, &i, &o)).unwrap_or_else(|_| vec!["feature-panic"])
                    }
                    _ => vec!["feature-unparsed"],
                };
                writeln!(out, "{}", fs.join(" ")).unwrap();
            }
        }
        _ => {
            eprintln!("usage: harness gen <op> <seed> <count> | run | ops | features");
            std::process::exit(2);
        }
    }
}

fn fxhash(s: &str) -> u64 {
    let mut h: u64 = 0xcbf29ce484222325;
    for b in s.bytes() {
        h ^= b as u64;
        h = h.wrapping_mul(0x100000001b3);
    }
    h
}
