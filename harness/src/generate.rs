//! Weighted random generators for target-language formulas and mini-gringo programs.
//! Pools are adversarial by construction: names that collide with the fresh names the
//! translators and simplifiers pick, same names at several sorts / arities, etc.
use crate::rng::Rng;
use anthem::syntax_tree::{asp::mini_gringo as asp, fol::sigma_0 as fol};

pub const VAR_NAMES: &[&str] = &[
    "X", "Y", "Z", "I", "J", "K", "I1", "J1", "K1", "Z1", "Z2", "V", "V1", "V2", "V3", "Q", "R", "Q1", "R1", "N",
    "N0", "N1", "N0_0", "X1", "X2", "Y1", "Y2", "Y3",
];
pub const SYMBOLS: &[&str] = &["a", "b", "c", "n", "hp", "tp", "hp__s", "n_i", "p", "q", "aB"];
pub const PREDS: &[&str] = &["p", "q", "r", "s", "hp", "tq", "q_p"];
pub const FCONSTS: &[&str] = &["n", "m", "c", "k"];

#[derive(Clone)]
pub struct Cfg {
    pub var_names: Vec<&'static str>,
    pub symbols: Vec<&'static str>,
    pub preds: Vec<&'static str>,
    pub fconsts: Vec<&'static str>,
    pub max_arity: usize,
    pub num_lo: i64,
    pub num_hi: i64,
    /// percent chance of an extreme numeral (isize::MIN / isize::MAX)
    pub extreme_numerals: usize,
    /// allow function constants (placeholders) in formulas
    pub use_fconsts: bool,
    /// sorts allowed for variables
    pub sorts: Vec<fol::Sort>,
    /// max number of guards of a comparison
    pub max_guards: usize,
    /// allow quantifier blocks with repeated variables
    pub repeated_binders: bool,
}

impl Default for Cfg {
    fn default() -> Self {
        Cfg {
            var_names: VAR_NAMES[..12].to_vec(),
            symbols: SYMBOLS[..6].to_vec(),
            preds: PREDS[..5].to_vec(),
            fconsts: FCONSTS[..2].to_vec(),
            max_arity: 3,
            num_lo: -3,
            num_hi: 3,
            extreme_numerals: 0,
            use_fconsts: true,
            sorts: vec![fol::Sort::General, fol::Sort::Integer, fol::Sort::Symbol],
            max_guards: 3,
            repeated_binders: true,
        }
    }
}

impl Cfg {
    /// few names: maximises collisions (shadowing, capture, duplicates)
    pub fn tight() -> Self {
        Cfg {
            var_names: vec!["X", "Y", "X1", "Y1", "I", "J"],
            symbols: vec!["a", "b"],
            preds: vec!["p", "q"],
            fconsts: vec!["n"],
            max_arity: 2,
            num_lo: -1,
            num_hi: 2,
            ..Cfg::default()
        }
    }
}

pub fn numeral(rng: &mut Rng, cfg: &Cfg) -> isize {
    if cfg.extreme_numerals > 0 && rng.chance(cfg.extreme_numerals) {
        *rng.pick(&[isize::MIN, isize::MAX, isize::MIN + 1, isize::MAX - 1])
    } else {
        rng.range(cfg.num_lo, cfg.num_hi) as isize
    }
}

pub fn sort(rng: &mut Rng, cfg: &Cfg) -> fol::Sort {
    *rng.pick(&cfg.sorts)
}

pub fn variable(rng: &mut Rng, cfg: &Cfg) -> fol::Variable {
    fol::Variable { name: rng.pick(&cfg.var_names).to_string(), sort: sort(rng, cfg) }
}

pub fn iterm(rng: &mut Rng, cfg: &Cfg, depth: usize) -> fol::IntegerTerm {
    use fol::IntegerTerm as I;
    let leaf = depth == 0 || rng.chance(55);
    if leaf {
        match rng.weighted(&[4, 5, if cfg.use_fconsts { 1 } else { 0 }]) {
            0 => I::Numeral(numeral(rng, cfg)),
            1 => I::Variable(rng.pick(&cfg.var_names).to_string()),
            _ => I::FunctionConstant(rng.pick(&cfg.fconsts).to_string()),
        }
    } else if rng.chance(20) {
        I::UnaryOperation { op: fol::UnaryOperator::Negative, arg: iterm(rng, cfg, depth - 1).into() }
    } else {
        I::BinaryOperation {
            op: match rng.below(3) {
                0 => fol::BinaryOperator::Add,
                1 => fol::BinaryOperator::Subtract,
                _ => fol::BinaryOperator::Multiply,
            },
            lhs: iterm(rng, cfg, depth - 1).into(),
            rhs: iterm(rng, cfg, depth - 1).into(),
        }
    }
}

pub fn sterm(rng: &mut Rng, cfg: &Cfg) -> fol::SymbolicTerm {
    use fol::SymbolicTerm as S;
    match rng.weighted(&[5, 4, if cfg.use_fconsts { 1 } else { 0 }]) {
        0 => S::Symbol(rng.pick(&cfg.symbols).to_string()),
        1 => S::Variable(rng.pick(&cfg.var_names).to_string()),
        _ => S::FunctionConstant(rng.pick(&cfg.fconsts).to_string()),
    }
}

pub fn gterm(rng: &mut Rng, cfg: &Cfg, depth: usize) -> fol::GeneralTerm {
    use fol::GeneralTerm as G;
    let has_int = cfg.sorts.contains(&fol::Sort::Integer);
    let has_sym = cfg.sorts.contains(&fol::Sort::Symbol);
    match rng.weighted(&[1, 1, if cfg.use_fconsts { 1 } else { 0 }, 8, if has_int { 8 } else { 3 }, if has_sym { 4 } else { 2 }]) {
        0 => G::Infimum,
        1 => G::Supremum,
        2 => G::FunctionConstant(rng.pick(&cfg.fconsts).to_string()),
        3 => G::Variable(rng.pick(&cfg.var_names).to_string()),
        4 => {
            if has_int {
                G::IntegerTerm(iterm(rng, cfg, depth))
            } else {
                G::IntegerTerm(fol::IntegerTerm::Numeral(numeral(rng, cfg)))
            }
        }
        _ => {
            if has_sym {
                G::SymbolicTerm(sterm(rng, cfg))
            } else {
                G::SymbolicTerm(fol::SymbolicTerm::Symbol(rng.pick(&cfg.symbols).to_string()))
            }
        }
    }
}

pub fn relation(rng: &mut Rng) -> fol::Relation {
    use fol::Relation as R;
    *rng.pick(&[R::Equal, R::Equal, R::NotEqual, R::Less, R::LessEqual, R::Greater, R::GreaterEqual])
}

pub fn atom(rng: &mut Rng, cfg: &Cfg) -> fol::Atom {
    let arity = rng.below(cfg.max_arity + 1);
    fol::Atom {
        predicate_symbol: rng.pick(&cfg.preds).to_string(),
        terms: (0..arity).map(|_| gterm(rng, cfg, 2)).collect(),
    }
}

pub fn comparison(rng: &mut Rng, cfg: &Cfg) -> fol::Comparison {
    let n = 1 + if rng.chance(25) { rng.below(cfg.max_guards) } else { 0 };
    fol::Comparison {
        term: gterm(rng, cfg, 2),
        guards: (0..n).map(|_| fol::Guard { relation: relation(rng), term: gterm(rng, cfg, 2) }).collect(),
    }
}

pub fn atomic(rng: &mut Rng, cfg: &Cfg) -> fol::AtomicFormula {
    use fol::AtomicFormula as A;
    match rng.weighted(&[1, 1, 8, 6]) {
        0 => A::Truth,
        1 => A::Falsity,
        2 => A::Atom(atom(rng, cfg)),
        _ => A::Comparison(comparison(rng, cfg)),
    }
}

pub fn connective(rng: &mut Rng) -> fol::BinaryConnective {
    use fol::BinaryConnective as B;
    match rng.weighted(&[5, 4, 4, 2, 2]) {
        0 => B::Conjunction,
        1 => B::Disjunction,
        2 => B::Implication,
        3 => B::ReverseImplication,
        _ => B::Equivalence,
    }
}

pub fn binders(rng: &mut Rng, cfg: &Cfg) -> Vec<fol::Variable> {
    let n = 1 + rng.weighted(&[6, 3, 1]);
    let mut vs: Vec<fol::Variable> = vec![];
    for _ in 0..n {
        let v = variable(rng, cfg);
        if !cfg.repeated_binders && vs.contains(&v) {
            continue;
        }
        vs.push(v);
    }
    vs
}

pub fn formula(rng: &mut Rng, cfg: &Cfg, depth: usize) -> fol::Formula {
    use fol::Formula as F;
    if depth == 0 || rng.chance(25) {
        return F::AtomicFormula(atomic(rng, cfg));
    }
    match rng.weighted(&[2, 6, 4]) {
        0 => F::UnaryFormula {
            connective: fol::UnaryConnective::Negation,
            formula: formula(rng, cfg, depth - 1).into(),
        },
        1 => F::BinaryFormula {
            connective: connective(rng),
            lhs: formula(rng, cfg, depth - 1).into(),
            rhs: formula(rng, cfg, depth - 1).into(),
        },
        _ => F::QuantifiedFormula {
            quantification: fol::Quantification {
                quantifier: if rng.chance(50) { fol::Quantifier::Forall } else { fol::Quantifier::Exists },
                variables: binders(rng, cfg),
            },
            formula: formula(rng, cfg, depth - 1).into(),
        },
    }
}

/// number of items of a list-like input: 1..=max, and 0 (the ONE empty input `(theory)`, `""`,
/// `(program)`, ..) for 1 % of the cases only (it used to be 1/(max+1) = 18-29 %: audit 2, B16)
pub fn count(rng: &mut Rng, max: usize) -> usize {
    if rng.below(100) < 1 { 0 } else { 1 + rng.below(max) }
}

pub fn theory(rng: &mut Rng, cfg: &Cfg, depth: usize) -> fol::Theory {
    let n = count(rng, 3);
    fol::Theory { formulas: (0..n).map(|_| formula(rng, cfg, depth)).collect() }
}

// ---------------------------------------------------------------- asp

#[derive(Clone)]
pub struct AspCfg {
    pub var_names: Vec<&'static str>,
    pub symbols: Vec<&'static str>,
    pub preds: Vec<&'static str>,
    pub max_arity: usize,
    pub num_lo: i64,
    pub num_hi: i64,
    pub extreme_numerals: usize,
    /// allow / \ ..
    pub partial_ops: bool,
    pub max_rules: usize,
    pub max_body: usize,
}

impl Default for AspCfg {
    fn default() -> Self {
        AspCfg {
            var_names: vec!["X", "Y", "Z", "I", "J", "K", "I1", "Z1", "V", "V1", "V2", "Q", "R", "N", "N0", "N1"],
            symbols: vec!["a", "b", "n", "hp"],
            preds: vec!["p", "q", "r", "hp", "q_p"],
            max_arity: 3,
            num_lo: -3,
            num_hi: 4,
            extreme_numerals: 0,
            partial_ops: true,
            max_rules: 5,
            max_body: 3,
        }
    }
}

pub fn asp_numeral(rng: &mut Rng, cfg: &AspCfg) -> isize {
    if cfg.extreme_numerals > 0 && rng.chance(cfg.extreme_numerals) {
        *rng.pick(&[isize::MIN, isize::MAX, isize::MIN + 1, isize::MAX - 1])
    } else {
        rng.range(cfg.num_lo, cfg.num_hi) as isize
    }
}

pub fn term(rng: &mut Rng, cfg: &AspCfg, depth: usize) -> asp::Term {
    use asp::{PrecomputedTerm as P, Term as T};
    if depth == 0 || rng.chance(55) {
        return match rng.weighted(&[6, 8, 3, 1, 1]) {
            0 => T::PrecomputedTerm(P::Numeral(asp_numeral(rng, cfg))),
            1 => T::Variable(asp::Variable(rng.pick(&cfg.var_names).to_string())),
            2 => T::PrecomputedTerm(P::Symbol(rng.pick(&cfg.symbols).to_string())),
            3 => T::PrecomputedTerm(P::Infimum),
            _ => T::PrecomputedTerm(P::Supremum),
        };
    }
    if rng.chance(15) {
        return T::UnaryOperation { op: asp::UnaryOperator::Negative, arg: term(rng, cfg, depth - 1).into() };
    }
    use asp::BinaryOperator as B;
    let op = if cfg.partial_ops {
        *rng.pick(&[B::Add, B::Subtract, B::Multiply, B::Divide, B::Modulo, B::Interval, B::Add, B::Interval])
    } else {
        *rng.pick(&[B::Add, B::Subtract, B::Multiply])
    };
    T::BinaryOperation { op, lhs: term(rng, cfg, depth - 1).into(), rhs: term(rng, cfg, depth - 1).into() }
}

pub fn asp_atom(rng: &mut Rng, cfg: &AspCfg) -> asp::Atom {
    let arity = rng.below(cfg.max_arity + 1);
    asp::Atom {
        predicate_symbol: rng.pick(&cfg.preds).to_string(),
        terms: (0..arity).map(|_| term(rng, cfg, 2)).collect(),
    }
}

pub fn asp_relation(rng: &mut Rng) -> asp::Relation {
    use asp::Relation as R;
    *rng.pick(&[R::Equal, R::Equal, R::NotEqual, R::Less, R::LessEqual, R::Greater, R::GreaterEqual])
}

pub fn body_formula(rng: &mut Rng, cfg: &AspCfg) -> asp::AtomicFormula {
    if rng.chance(65) {
        asp::AtomicFormula::Literal(asp::Literal {
            sign: match rng.weighted(&[6, 3, 2]) {
                0 => asp::Sign::NoSign,
                1 => asp::Sign::Negation,
                _ => asp::Sign::DoubleNegation,
            },
            atom: asp_atom(rng, cfg),
        })
    } else {
        asp::AtomicFormula::Comparison(asp::Comparison {
            relation: asp_relation(rng),
            lhs: term(rng, cfg, 2),
            rhs: term(rng, cfg, 2),
        })
    }
}

pub fn rule(rng: &mut Rng, cfg: &AspCfg) -> asp::Rule {
    let head = match rng.weighted(&[6, 3, 2]) {
        0 => asp::Head::Basic(asp_atom(rng, cfg)),
        1 => asp::Head::Choice(asp_atom(rng, cfg)),
        _ => asp::Head::Falsity,
    };
    let n = rng.below(cfg.max_body + 1);
    asp::Rule { head, body: asp::Body { formulas: (0..n).map(|_| body_formula(rng, cfg)).collect() } }
}

pub fn program(rng: &mut Rng, cfg: &AspCfg) -> asp::Program {
    let n = 1 + rng.below(cfg.max_rules);
    asp::Program { rules: (0..n).map(|_| rule(rng, cfg)).collect() }
}
