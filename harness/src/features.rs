//! `harness features`: facts about a case (wire-format input and implementation output) that the
//! evidence of a check counts (`@name` tags of props/*.json, see bin/check construct_counts and
//! docs/GENERATORS.md).  They are computed from the case itself, not from what the generator
//! intended, so a dead generator branch reads 0 and a `must_hit` entry turns it into an internal
//! error of the check.  Everything here is syntactic and independent of the code under test.
use crate::sexp::Sexp;

/// every node of an S-expression, parents first
fn walk<'a>(e: &'a Sexp, f: &mut dyn FnMut(&'a Sexp)) {
    f(e);
    if let Sexp::L(v) = e {
        for x in v {
            walk(x, f);
        }
    }
}
fn any(e: &Sexp, p: &dyn Fn(&Sexp) -> bool) -> bool {
    let mut hit = false;
    walk(e, &mut |x| {
        if !hit && p(x) {
            hit = true;
        }
    });
    hit
}
fn head(e: &Sexp) -> Option<&str> {
    e.tag().map(|(t, _)| t)
}
fn strings<'a>(e: &'a Sexp, out: &mut Vec<&'a str>) {
    walk(e, &mut |x| {
        if let Sexp::S(s) = x {
            out.push(s.as_str());
        }
    });
}

/// `("p" 1)` -> (p, 1)
fn pred(e: &Sexp) -> Option<(String, usize)> {
    match e {
        Sexp::L(v) => match v.as_slice() {
            [Sexp::S(p), Sexp::A(n)] => n.parse().ok().map(|n| (p.clone(), n)),
            _ => None,
        },
        _ => None,
    }
}
/// the predicates `(P "p" t..)` of a formula
fn formula_preds(e: &Sexp, out: &mut Vec<(String, usize)>) {
    walk(e, &mut |x| {
        if let Some(("P", rest)) = x.tag() {
            if let Some(Sexp::S(p)) = rest.first() {
                out.push((p.clone(), rest.len() - 1));
            }
        }
    });
}
/// the predicates of a program: heads `(basic|choice ("p" t..))`, literals `(pos|neg|nneg ("p" t..))`
fn program_preds(e: &Sexp, out: &mut Vec<(String, usize)>) {
    walk(e, &mut |x| {
        if let Some((t, [Sexp::L(atom)])) = x.tag() {
            if matches!(t, "basic" | "choice" | "pos" | "neg" | "nneg") {
                if let Some(Sexp::S(p)) = atom.first() {
                    out.push((p.clone(), atom.len() - 1));
                }
            }
        }
    });
}
/// `(af role dir "name" f)`
fn af(e: &Sexp) -> Option<(&str, &Sexp)> {
    match e.tag() {
        Some(("af", [Sexp::A(role), _, _, f])) => Some((role.as_str(), f)),
        _ => None,
    }
}
/// a definition `forall (binders) ..` one of whose binders is integer / symbol sorted
fn definition_with_sorted_binder(spec: &Sexp) -> bool {
    any(spec, &|x| match af(x) {
        Some(("definition", f)) => match f.tag() {
            Some(("forall", [Sexp::L(bs), _])) => bs.iter().any(|b| matches!(b, Sexp::L(v) if matches!(v.get(1), Some(Sexp::A(s)) if s == "i" || s == "s"))),
            _ => false,
        },
        _ => false,
    })
}

/// number of guards of the antecedent chain of an inductive lemma `[forall ..] ((C t (ge (n k)) g2 ..) -> F)` whose
/// first guard is `>= numeral` (0 = no such entry); the maximum over the outline
fn inductive_chain_guards(spec: &Sexp) -> usize {
    fn guards(f: &Sexp) -> usize {
        match f.tag() {
            Some(("forall", [_, g])) => guards(g),
            Some(("imp", [lhs, _])) => match lhs.tag() {
                Some(("C", [_, first, rest @ ..])) => match first.tag() {
                    Some(("ge", [n])) if matches!(n.tag(), Some(("n", _))) => 1 + rest.len(),
                    _ => 0,
                },
                _ => 0,
            },
            _ => 0,
        }
    }
    let mut best = 0;
    walk(spec, &mut |x| {
        if let Some(("inductive-lemma", f)) = af(x) {
            best = best.max(guards(f));
        }
    });
    best
}

fn external_task(input: &Sexp) -> Option<&[Sexp]> {
    // the task alone or (task components)
    match input.tag() {
        Some(("external", rest)) => Some(rest),
        _ => match input {
            Sexp::L(v) => v.first().and_then(|t| match t.tag() {
                Some(("external", rest)) => Some(rest),
                _ => None,
            }),
            _ => None,
        },
    }
}

fn external_features(input: &Sexp, output: &Sexp, fs: &mut Vec<&'static str>) {
    let Some(task) = external_task(input) else { return };
    let [sp, prog, ug, po, ..] = task else { return };
    let mut inputs = vec![];
    let mut outputs = vec![];
    let mut ug_assumptions = vec![];
    if let Some(("ug", entries)) = ug.tag() {
        for e in entries {
            match e.tag() {
                Some(("input", [p])) => inputs.extend(pred(p)),
                Some(("output", [p])) => outputs.extend(pred(p)),
                _ => {
                    if let Some(("assumption", f)) = af(e) {
                        ug_assumptions.push(f);
                    }
                }
            }
        }
    }
    let public = |p: &(String, usize)| inputs.contains(p) || outputs.contains(p);
    let mut prog_preds = vec![];
    program_preds(prog, &mut prog_preds);
    let prog_private: Vec<_> = prog_preds.iter().filter(|p| !public(p)).cloned().collect();
    for f in &ug_assumptions {
        let mut ps = vec![];
        formula_preds(f, &mut ps);
        if ps.iter().any(|p| !public(p)) {
            fs.push("ug-assumption-private-pred");
        }
        if ps.iter().any(|p| prog_private.contains(p)) {
            fs.push("ug-assumption-program-private-pred");
        }
    }
    if let Some(("spec-spec", [spec])) = sp.tag() {
        if any(spec, &|x| match af(x) {
            Some(("assumption", f)) => {
                let mut ps = vec![];
                formula_preds(f, &mut ps);
                ps.iter().any(|p| prog_private.contains(p))
            }
            _ => false,
        }) {
            fs.push("spec-assumption-program-private-pred");
        }
    }
    let accepted = matches!(head(output), Some("ok") | Some("families"));
    if accepted {
        fs.push("accepted");
        if definition_with_sorted_binder(po) {
            fs.push("accepted-definition-sorted-binder");
        }
    }
    // errors and warnings that carry a payload: `(err "Variant" payload..)`, `("Variant" payload..)`
    if let Some(("err", rest)) = output.tag() {
        if rest.len() >= 2 {
            fs.push("error-with-payload");
        }
        // a predicate-list payload with at least two elements (their order is part of the tie)
        if let Some(Sexp::L(items)) = rest.get(1) {
            if items.len() >= 2 && items.iter().all(|x| pred(x).is_some()) {
                fs.push("error-payload-list-ge-2");
            }
        }
    }
    if any(output, &|x| matches!(x.tag(), Some(("warnings", ws)) if ws.iter().any(|w| matches!(w, Sexp::L(v) if v.len() >= 2)))) {
        fs.push("warning-with-payload");
    }
}

/// symbolic constants `(sy "c")` (formulas and programs)
fn symbols(e: &Sexp, out: &mut Vec<String>) {
    walk(e, &mut |x| {
        if let Some(("sy", [Sexp::S(c)])) = x.tag() {
            out.push(c.clone());
        }
    });
}
/// `task_emit_external` (C09tasks): the clash shapes of `Problem::rename_conflicting_symbols` inside a proof
/// outline - an outline entry that mentions a symbolic constant named like a 0-ary predicate of the task - counted
/// when the implementation emitted outline problems of the direction in question.
fn outline_clash_features(input: &Sexp, output: &Sexp, fs: &mut Vec<&'static str>) {
    let Some(task) = external_task(input) else { return };
    let [sp, prog, ug, po, ..] = task else { return };
    let Some(("texts", texts)) = output.tag() else { return };
    let emitted = |prefix: &str| texts.iter().any(|t| matches!(t, Sexp::L(v) if matches!(v.first(), Some(Sexp::S(n)) if n.starts_with(prefix))));
    // 0-ary predicates: of the programs, the specification, the user guide (declarations and formulas), the outline
    let mut outside = vec![];
    program_preds(sp, &mut outside);
    program_preds(prog, &mut outside);
    formula_preds(sp, &mut outside);
    formula_preds(ug, &mut outside);
    walk(ug, &mut |x| {
        if let Some(("input" | "output", [p])) = x.tag() {
            outside.extend(pred(p));
        }
    });
    let mut inside = vec![];
    formula_preds(po, &mut inside);
    let zero = |ps: &[(String, usize)]| -> Vec<String> { ps.iter().filter(|(_, n)| *n == 0).map(|(p, _)| p.clone()).collect() };
    let (zero_outside, zero_inside) = (zero(&outside), zero(&inside));
    let mut syms_outside = vec![];
    for part in [sp, prog, ug] {
        symbols(part, &mut syms_outside);
    }
    let mut all_syms = syms_outside.clone();
    symbols(po, &mut all_syms);
    let Some(("spec", entries)) = po.tag() else { return };
    for e in entries {
        let Some(("af", [Sexp::A(role), Sexp::A(dir), _, f])) = e.tag() else { continue };
        let mut syms = vec![];
        symbols(f, &mut syms);
        let mut own = vec![];
        formula_preds(f, &mut own);
        let own_zero = zero(&own);
        let clash_premises = syms.iter().any(|c| zero_outside.contains(c));
        let clash_own = syms.iter().any(|c| own_zero.contains(c));
        // a 0-ary predicate that occurs in the outline only and is the name of a constant outside this entry
        let pred_only_here = own_zero.iter().any(|p| !zero_outside.contains(p) && syms_outside.contains(p));
        if !(clash_premises || clash_own || pred_only_here) {
            continue;
        }
        let forward = dir != "backward" && emitted("forward_outline_");
        let backward = dir != "forward" && emitted("backward_outline_");
        if !(forward || backward) {
            continue;
        }
        if forward {
            fs.push("outline-clash-forward");
        }
        if backward {
            fs.push("outline-clash-backward");
        }
        match role.as_str() {
            "lemma" => fs.push("outline-clash-lemma"),
            "inductive-lemma" => fs.push("outline-clash-inductive-lemma"),
            "definition" => fs.push("outline-clash-definition"),
            _ => {}
        }
        if clash_premises && !clash_own {
            fs.push("outline-clash-constant-in-entry-predicate-in-premises");
        }
        if clash_own {
            fs.push("outline-clash-constant-and-predicate-in-entry");
        }
        if pred_only_here {
            fs.push("outline-clash-predicate-in-entry-constant-in-premises");
        }
        if syms.iter().any(|c| (zero_outside.contains(c) || zero_inside.contains(c)) && all_syms.contains(&format!("{c}__s"))) {
            fs.push("outline-clash-renamed-meets-constant");
        }
    }
}

/// binder names `(("X" i) ..)` of all quantifier blocks
fn binders(e: &Sexp, out: &mut Vec<(String, String)>) {
    walk(e, &mut |x| {
        if let Some(("forall" | "exists", [Sexp::L(bs), _])) = x.tag() {
            for b in bs {
                if let Sexp::L(v) = b {
                    if let [Sexp::S(n), Sexp::A(s)] = v.as_slice() {
                        out.push((n.clone(), s.clone()));
                    }
                }
            }
        }
    });
}
/// every variable name of a formula (binders and occurrences `(gv|iv|sv "X")`)
fn variable_names(e: &Sexp, out: &mut Vec<String>) {
    walk(e, &mut |x| match x.tag() {
        Some(("gv" | "iv" | "sv", [Sexp::S(n)])) => out.push(n.clone()),
        _ => {}
    });
    let mut bs = vec![];
    binders(e, &mut bs);
    out.extend(bs.into_iter().map(|(n, _)| n));
}

fn root_block(e: &Sexp) -> Option<(&str, Vec<(String, String)>)> {
    match e.tag() {
        Some((q @ ("forall" | "exists"), [Sexp::L(bs), _])) => {
            let mut out = vec![];
            for b in bs {
                if let Sexp::L(v) = b {
                    if let [Sexp::S(n), Sexp::A(s)] = v.as_slice() {
                        out.push((n.clone(), s.clone()));
                    }
                }
            }
            Some((q, out))
        }
        _ => None,
    }
}

/// restrict_quantifier_domain applied at the root (op sc_restrict_quantifier_domain): the rule drops the
/// general variable Z from the root block and pushes a fresh integer variable at its end
fn rqd_root_features(input: &Sexp, output: &Sexp, fs: &mut Vec<&'static str>) {
    let (Some((qi, bi)), Some((qo, bo))) = (root_block(input), root_block(output)) else { return };
    if qi != qo || input == output {
        return;
    }
    let Some(last) = bo.last() else { return };
    if last.1 != "i" || bi.contains(last) {
        return;
    }
    let dropped: Vec<&(String, String)> = bi.iter().filter(|b| b.1 == "g" && !bo.contains(b)).collect();
    if dropped.is_empty() {
        return;
    }
    fs.push("rqd-fired");
    let letter: String = last.0.chars().take_while(|c| !c.is_ascii_digit()).collect();
    if let Ok(k) = last.0[letter.len()..].parse::<u64>() {
        if k >= 2 {
            fs.push("rqd-fresh-suffix-ge-2");
        }
        if k >= 4 {
            fs.push("rqd-fresh-suffix-ge-4");
        }
    }
    // the equation `I$i = Z` that fired has an integer variable named `_..` (the arm repaired for F18)
    let underscore_eq = any(input, &|x| match x.tag() {
        Some(("C", [l, Sexp::L(g)])) => {
            let iv_us = |t: &Sexp| match t.tag() {
                Some(("iv", [Sexp::S(n)])) => n.starts_with('_') && n.trim_start_matches('_').chars().next().map(|c| c.to_string()) == Some(letter.clone()),
                _ => false,
            };
            let gv_dropped = |t: &Sexp| matches!(t.tag(), Some(("gv", [Sexp::S(n)])) if dropped.iter().any(|d| &d.0 == n));
            match g.as_slice() {
                [Sexp::A(r), rt] if r == "eq" => (iv_us(l) && gv_dropped(rt)) || (gv_dropped(l) && iv_us(rt)),
                _ => false,
            }
        }
        _ => false,
    });
    if underscore_eq {
        fs.push("rqd-fired-underscore-ivar");
    }
}

fn classic_features(input: &Sexp, output: &Sexp, fs: &mut Vec<&'static str>) {
    let mut in_b = vec![];
    binders(input, &mut in_b);
    if in_b.iter().any(|(n, _)| n.starts_with('_')) {
        fs.push("underscore-binder");
    }
    let mut in_names = vec![];
    variable_names(input, &mut in_names);
    let mut out_b = vec![];
    binders(output, &mut out_b);
    if out_b.iter().any(|(n, s)| s == "i" && !in_names.contains(n)) {
        fs.push("fresh-integer-binder");
    }
}

/// `(and (imp A B) (imp C D))` nodes: which half of the guard `A == D && B == C` fails alone
fn edi_features(input: &Sexp, fs: &mut Vec<&'static str>) {
    let mut first_alone = false;
    let mut second_alone = false;
    let mut both = false;
    walk(input, &mut |x| {
        if let Some(("and", [l, r])) = x.tag() {
            if let (Some(("imp", [a, b])), Some(("imp", [c, d]))) = (l.tag(), r.tag()) {
                match (a == d, b == c) {
                    (true, true) => both = true,
                    (false, true) => first_alone = true,
                    (true, false) => second_alone = true,
                    _ => {}
                }
            }
        }
    });
    if both {
        fs.push("edi-redex");
    }
    if first_alone {
        fs.push("edi-llhs-ne-rrhs-alone");
    }
    if second_alone {
        fs.push("edi-lrhs-ne-rlhs-alone");
    }
}

fn problem_features(input: &Sexp, output: &Sexp, fs: &mut Vec<&'static str>) {
    if any(input, &|x| matches!(x.tag(), Some(("problem", [_])))) {
        fs.push("zero-formula-problem");
    }
    let mut texts = vec![];
    strings(output, &mut texts);
    let mut pins_case = false;
    let mut pins_numeric = false;
    for t in texts {
        for line in t.lines() {
            let Some(i) = line.find("p__less__(f__symbolic__(") else { continue };
            if !line.starts_with("tff(symbol_order_") {
                continue;
            }
            let rest = &line[i + "p__less__(f__symbolic__(".len()..];
            let Some(j) = rest.find("), f__symbolic__(") else { continue };
            let a = &rest[..j];
            let b0 = &rest[j + "), f__symbolic__(".len()..];
            let Some(k) = b0.find(')') else { continue };
            let b = &b0[..k];
            // byte order says a < b; would a case-insensitive / natural-number order disagree?
            if a.to_ascii_lowercase() > b.to_ascii_lowercase() {
                pins_case = true;
            }
            let split = |s: &str| -> (String, Option<u64>) {
                let base: String = s.chars().take_while(|c| !c.is_ascii_digit()).collect();
                let num = s[base.len()..].parse::<u64>().ok();
                (base, num)
            };
            let (ba, na) = split(a);
            let (bb, nb) = split(b);
            if ba == bb {
                if let (Some(x), Some(y)) = (na, nb) {
                    if x > y {
                        pins_numeric = true;
                    }
                }
            }
        }
    }
    if pins_case {
        fs.push("symbol-order-pins-byte-vs-caseless");
    }
    if pins_numeric {
        fs.push("symbol-order-pins-byte-vs-numeric");
    }
}

fn text_features(input: &Sexp, fs: &mut Vec<&'static str>) {
    let mut texts = vec![];
    strings(input, &mut texts);
    if texts.iter().all(|t| t.is_empty()) {
        fs.push("empty-text");
    }
    for t in texts {
        let b = t.as_bytes();
        if b.contains(&0x0c) {
            fs.push("ff");
        }
        if b.contains(&0x0b) {
            fs.push("vt");
        }
        if t.contains('\u{a0}') {
            fs.push("nbsp");
        }
        if t.contains('\u{feff}') {
            fs.push("bom");
        }
        if b.contains(&b'\'') {
            fs.push("apostrophe");
        }
        if b.iter().any(|c| *c >= 0x80) {
            fs.push("non-ascii");
        }
        if b.contains(&b'\r') {
            fs.push("cr");
        }
        if b.contains(&b'\t') {
            fs.push("tab");
        }
        if b.contains(&0) {
            fs.push("nul");
        }
    }
}

pub fn features(op: &str, input: &Sexp, output: &Sexp) -> Vec<&'static str> {
    let mut fs: Vec<&'static str> = vec![];
    if op.starts_with("external_") || op == "chain_external" {
        external_features(input, output, &mut fs);
    }
    if op == "task_emit_external" {
        outline_clash_features(input, output, &mut fs);
    }
    if op == "proof_outline" {
        if let Sexp::L(v) = input {
            if let Some(spec) = v.first() {
                if head(output) == Some("ok") && definition_with_sorted_binder(spec) {
                    fs.push("accepted-definition-sorted-binder");
                }
                let k = inductive_chain_guards(spec);
                if k >= 2 {
                    fs.push("inductive-chain-antecedent");
                }
                if k >= 3 {
                    fs.push("inductive-chain-3-guards");
                }
            }
        }
        if let Some(("err", rest)) = output.tag() {
            if rest.len() >= 2 {
                fs.push("error-with-payload");
            }
        }
        if any(output, &|x| matches!(x.tag(), Some(("warnings", ws)) if ws.iter().any(|w| matches!(w, Sexp::L(v) if v.len() >= 2)))) {
            fs.push("warning-with-payload");
        }
    }
    if op.starts_with("sc_") || op.starts_with("simplify_cls") || op.starts_with("simplify_full") || op.starts_with("classic_") {
        classic_features(input, output, &mut fs);
    }
    if op == "sc_restrict_quantifier_domain" {
        rqd_root_features(input, output, &mut fs);
    }
    if op.starts_with("si_") || op.starts_with("simplify_") {
        edi_features(input, &mut fs);
    }
    if op.starts_with("problem_") || op == "chain_emit" {
        problem_features(input, output, &mut fs);
    }
    const TEXT_OPS: &[&str] = &[
        "fol_parse_", "fol_roundtrip_text", "fol_output_reparses", "asp_parse", "asp_roundtrip_text", "asp_node_roundtrip",
        "asp_leaf_roundtrip", "cli_", "text_theory_roundtrip", "gen_text_", "numeral_token", "arity_token", "status_from_str",
        "natural_text", "fol_lex", "asp_lex",
    ];
    if TEXT_OPS.iter().any(|p| op.starts_with(p)) {
        text_features(input, &mut fs);
    }
    // an empty quantifier block anywhere in the input
    if any(input, &|x| matches!(x.tag(), Some(("forall" | "exists", [Sexp::L(bs), _])) if bs.is_empty())) {
        fs.push("empty-quantifier-block");
    }
    fs.sort();
    fs.dedup();
    fs
}
