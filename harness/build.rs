// Generates the op registry from the files in src/ops/ so that adding an operation file needs no
// edit of a shared file.  Every src/ops/<name>.rs must define `pub fn ops() -> Vec<Op>`.
use std::{env, fs, path::Path};

fn main() {
    let dir = Path::new(&env::var("CARGO_MANIFEST_DIR").unwrap()).join("src").join("ops");
    let mut names: Vec<String> = fs::read_dir(&dir)
        .unwrap()
        .filter_map(|e| e.ok())
        .filter_map(|e| e.file_name().into_string().ok())
        .filter(|n| n.ends_with(".rs") && n != "mod.rs")
        .map(|n| n.trim_end_matches(".rs").to_string())
        .collect();
    names.sort();
    let mut out = String::new();
    for n in &names {
        out.push_str(&format!("#[path = \"{}/{}.rs\"]\npub mod {};\n", dir.display(), n, n));
    }
    out.push_str("pub fn all() -> Vec<Op> {\n    let mut v = vec![];\n");
    for n in &names {
        out.push_str(&format!("    v.extend({}::ops());\n", n));
    }
    out.push_str("    v\n}\n");
    fs::write(Path::new(&env::var("OUT_DIR").unwrap()).join("ops_gen.rs"), out).unwrap();
    println!("cargo:rerun-if-changed=src/ops");
}
