// Generates the op registry from the files in src/ops/ and the support-module list from src/ext/,
// so that adding an operation or a support module needs no edit of a shared file.
// Every src/ops/<name>.rs must define `pub fn ops() -> Vec<Op>`.
use std::{env, fs, path::Path};

fn names_in(dir: &Path) -> Vec<String> {
    let mut names: Vec<String> = fs::read_dir(dir)
        .map(|rd| {
            rd.filter_map(|e| e.ok())
                .filter_map(|e| e.file_name().into_string().ok())
                .filter(|n| n.ends_with(".rs") && n != "mod.rs")
                .map(|n| n.trim_end_matches(".rs").to_string())
                .collect()
        })
        .unwrap_or_default();
    names.sort();
    names
}

fn main() {
    let src = Path::new(&env::var("CARGO_MANIFEST_DIR").unwrap()).join("src");
    let out_dir = env::var("OUT_DIR").unwrap();
    let dir = src.join("ops");
    let names = names_in(&dir);
    let mut out = String::new();
    for n in &names {
        out.push_str(&format!("#[path = \"{}/{}.rs\"]\npub mod {};\n", dir.display(), n, n));
    }
    out.push_str("pub fn all() -> Vec<Op> {\n    let mut v = vec![];\n");
    for n in &names {
        out.push_str(&format!("    v.extend({}::ops());\n", n));
    }
    out.push_str("    v\n}\n");
    fs::write(Path::new(&out_dir).join("ops_gen.rs"), out).unwrap();

    let dir = src.join("ext");
    let mut out = String::new();
    for n in names_in(&dir) {
        out.push_str(&format!("#[path = \"{}/{}.rs\"]\npub mod {};\n", dir.display(), n, n));
    }
    fs::write(Path::new(&out_dir).join("ext_gen.rs"), out).unwrap();
    println!("cargo:rerun-if-changed=src/ops");
    println!("cargo:rerun-if-changed=src/ext");
}
