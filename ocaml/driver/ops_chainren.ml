(* C12: the symbol_order chain judged for the ORIGINAL constants of the problem.

   chain_emit (model side of the correspondence op): (raw d) -> ((renamed P) (parts (Pi "text_i") ..)).

   sem_chain_orig / sem_chain_orig_all (oracle): input ((raw d) <implementation output of chain_emit>).
   Nothing in the judgement knows how anthem names a renamed constant:
   * the implementation's OWN renaming map  original constant -> printed constant  is obtained by
     walking the raw formulas and the implementation's renamed formulas in parallel (two wire-format
     trees that must agree everywhere except in the strings under `sy`); the map must be a function
     (one original, one printed name) and injective (two distinct constants are never merged);
   * in the text of every emitted problem the auto-generated ordering axioms are the formulas of
     shape p__less__(f__symbolic__(x'), f__symbolic__(y')) that are not formulas of the problem
     itself; for all originals x, y printed as x', y' the link must have x < y in the standard
     order (lexicographic byte order) of the ORIGINAL names;
   * the links must order every two distinct constants of the emitted problem (transitive closure).
   Answer (ok <links judged> ..) or (cex (problem i) (<what> ..) (chain ..) (renaming ..)).

   Known finding F8c.  On the unchanged tree the judgement fails on a recorded class: a constant c
   equal to a 0-ary predicate is printed c__s, and some other constant d of the problem has
   c < d <= c__s (`a1`, `aB`, `a_` next to `a`; d = a__s: the merge).  The class is decidable on the
   INPUT alone: M.ChainClass.rename_monotoneb (extracted from Coq; the only place where `__s` is
   known) is false exactly there, and Proofs/ChainMonotone.chain_true_monotone proves that outside
   the class the recorded behaviour yields a chain that is true for the original constants.  The
   regular op sem_chain_orig drops the two findings the class is about (a link false for the
   originals, a merge) on inputs inside the class - whatever the implementation printed - and
   reports everything else; so every failing input it reports lies OUTSIDE the recorded class (on
   such an input the unchanged tree is proved correct: the report cannot be an instance of F8c).
   sem_chain_orig_all never excuses (replay oracle of the recorded inputs of F8c).

   sem_chain_task (task level): input (<external task> (ok "text" ..)) = chain_external.  The
   user's constants are the `sy` leaves of the task.  In each text: a declared symbolic constant
   whose name is a user constant stands for that constant; if exactly one user constant c is also a
   declared 0-ary predicate of the text (so it cannot keep its name), c is not declared, and
   exactly one declared constant n is not a user constant, then n stands for c.  Otherwise the
   problem is not judged.  Same truth / coverage conditions; the class F8c is decided on the user
   constants that occur in the text (rename_monotoneb of a problem with the predicate c/0 and those
   constants). *)
open Sexp
open Conv

let str_of = string_of_cl
let byte_lt (a : string) (b : string) = compare a b < 0
let ok n extra = L ([ A "ok"; A (string_of_int n) ] @ extra)
let dedup l = List.fold_left (fun acc x -> if List.mem x acc then acc else acc @ [ x ]) [] l

(* ---------- wire-format trees ---------- *)
exception Differs of string
let rec walk acc (x : Sexp.t) (y : Sexp.t) =
  match x, y with
  | L [ A "sy"; S o ], L [ A "sy"; S r ] -> (o, r) :: acc
  | A a, A b when a = b -> acc
  | S a, S b when a = b -> acc
  | L xs, L ys when List.length xs = List.length ys -> List.fold_left2 walk acc xs ys
  | _ -> raise (Differs (Sexp.to_string x ^ "  vs  " ^ Sexp.to_string y))
let rec sy_leaves acc = function
  | L [ A "sy"; S o ] -> o :: acc
  | L xs -> List.fold_left sy_leaves acc xs
  | _ -> acc
let pfs_of = function
  | L (A "problem" :: _ :: fs) ->
    List.map (function L [ A "pf"; S n; r; f ] -> (n, r, f) | e -> bad "problem formula: %s" (to_string e)) fs
  | e -> bad "problem: %s" (to_string e)

(* ---------- the text ---------- *)
let links_of_text (tp : M.Tff.tff_problem) (own_names : string list) : (string * string * string) list =
  List.filter_map (fun a ->
      match a.M.Tff.n_formula with
      | M.Tff.TPred (p, [ M.Tff.TApp (f, [ M.Tff.TApp (x, []) ]); M.Tff.TApp (g, [ M.Tff.TApp (y, []) ]) ])
        when str_of p = "p__less__" && str_of f = "f__symbolic__" && str_of g = "f__symbolic__"
             && not (List.mem (str_of a.M.Tff.n_name) own_names) ->
        Some (str_of a.M.Tff.n_name, str_of x, str_of y)
      | _ -> None) tp.M.Tff.tp_formulas
let read text = try Ops_tptp.read_text text with Ops_tptp.Readers_disagree m -> Error m

(* transitive closure of the links over the constants cs *)
let closure (cs : string list) (links : (string * string) list) : (string * string) list =
  let rel = ref (dedup links) in
  let changed = ref true in
  while !changed do
    changed := false;
    List.iter (fun (x, y) -> List.iter (fun (u, v) ->
        if y = u && not (List.mem (x, v) !rel) then begin rel := (x, v) :: !rel; changed := true end) !rel) !rel
  done;
  ignore cs; !rel

(* [excusable]: the finding is of a kind the class F8c is about (false for the originals / merge) *)
type finding = { what : Sexp.t; excusable : bool }

(* judge one emitted problem: [consts] its constants (printed names), [stand_for r] the originals
   printed as r, [links] its ordering axioms *)
let judge_part (consts : string list) (stand_for : string -> string list)
    (links : (string * string * string) list) (count : int ref) : finding list =
  let out = ref [] in
  let add ?(excusable = false) what = out := !out @ [ { what; excusable } ] in
  List.iter (fun (nm, x, y) ->
      if not (List.mem x consts && List.mem y consts) then
        add (L [ A "ordering-axiom-about-a-name-that-is-no-constant-of-the-problem"; S nm; S x; S y ])
      else
        List.iter (fun s1 -> List.iter (fun s2 ->
            incr count;
            if not (byte_lt s1 s2) then
              add ~excusable:true
                (L [ A "symbol-order-axiom-false-for-the-original-constants"; S nm; L [ A "printed"; S x; S y ];
                     L [ A "stand-for"; S s1; S s2 ];
                     L [ A "standard-order"; S (if s1 = s2 then s1 ^ " = " ^ s2 else s2 ^ " < " ^ s1) ] ])) (stand_for y))
          (stand_for x)) links;
  let rel = closure consts (List.map (fun (_, x, y) -> (x, y)) links) in
  List.iter (fun x -> if List.mem (x, x) rel then add (L [ A "ordering-axioms-are-cyclic"; S x ])) consts;
  let rec pairs = function [] -> [] | x :: r -> List.map (fun y -> (x, y)) r @ pairs r in
  (match List.find_opt (fun (x, y) -> not (List.mem (x, y) rel || List.mem (y, x) rel)) (pairs consts) with
   | Some (x, y) -> add (L [ A "two-constants-not-ordered-by-the-chain"; S x; S y ])
   | None -> ());
  !out

let of_links links = L (A "chain" :: List.map (fun (_, x, y) -> L [ S x; S y ]) links)
let of_map m = L (A "renaming" :: List.map (fun (o, r) -> L [ S o; S r ]) m)

let sem_chain_orig_gen ~(strict : bool) (e : Sexp.t) : Sexp.t =
  match e with
  | L [ _; L [ A "panic" ] ] -> ok 0 []
  | L [ L [ p; _ ]; L [ L [ A "renamed"; rp ]; L (A "parts" :: parts) ] ] ->
    let raw_fs = pfs_of p and ren_fs = pfs_of rp in
    if List.length raw_fs <> List.length ren_fs then
      L [ A "cex"; L [ A "renaming-changed-the-number-of-formulas" ] ]
    else begin
      match (try Ok (List.rev (List.fold_left2 (fun acc (_, r1, f1) (_, r2, f2) -> walk (walk acc r1 r2) f1 f2) [] raw_fs ren_fs))
             with Differs m -> Error m) with
      | Error m -> L [ A "cex"; L [ A "renaming-changed-more-than-the-names-of-symbolic-constants"; S m ] ]
      | Ok pairs ->
        let pairs = dedup pairs in
        let originals = dedup (List.map fst pairs) in
        let images o = List.filter_map (fun (o', r) -> if o' = o then Some r else None) pairs in
        (match List.find_opt (fun o -> List.length (images o) > 1) originals with
         | Some o -> L [ A "cex"; L (A "one-constant-printed-under-two-names" :: S o :: List.map (fun r -> S r) (images o)) ]
         | None ->
           let ren o = List.hd (images o) in
           let stand_for r = List.filter (fun o -> ren o = r) originals in
           (* the recorded class F8c, decided on the INPUT (the only use of the recorded naming) *)
           let raw = problem p in
           let pre = M.Problem.add_annotated_formulas (M.Problem.with_name raw.M.Problem.pb_name) raw.M.Problem.pb_formulas in
           let in_class = not (M.ChainClass.rename_monotoneb pre) in
           let count = ref 0 in
           let excused = ref 0 in
           let result = ref None in
           let report i (fs : finding list) links =
             List.iter (fun f ->
                 if f.excusable && in_class && not strict then incr excused
                 else if !result = None then
                   result := Some (L ([ A "cex"; L [ A "problem"; A (string_of_int i) ]; f.what;
                                        of_links links; of_map (List.map (fun o -> (o, ren o)) originals);
                                        L [ A "input-in-recorded-class-F8c"; A (string_of_bool in_class) ] ]))) fs in
           (* two distinct constants merged into one printed name *)
           let rec opairs = function [] -> [] | x :: r -> List.map (fun y -> (x, y)) r @ opairs r in
           report (-1)
             (List.filter_map (fun (o1, o2) ->
                  if ren o1 = ren o2 then
                    Some { what = L [ A "two-distinct-constants-printed-under-one-name"; S o1; S o2; L [ A "printed"; S (ren o1) ] ];
                           excusable = true }
                  else None) (opairs originals)) [];
           List.iteri (fun i part ->
               match part with
               | L [ ptree; S text ] ->
                 let pf = pfs_of ptree in
                 let consts = dedup (List.rev (List.fold_left (fun acc (_, _, f) -> sy_leaves acc f) [] pf)) in
                 (match List.find_opt (fun r -> stand_for r = []) consts with
                  | Some r -> report i [ { what = L [ A "constant-of-an-emitted-problem-is-no-renaming-of-a-constant-of-the-input"; S r ]; excusable = false } ] []
                  | None ->
                    match read text with
                    | Error _ -> ()   (* an unreadable text is C09's business (sem_problem_wt) *)
                    | Ok tp ->
                      let links = links_of_text tp (List.map (fun (n, _, _) -> n) pf) in
                      report i (judge_part consts stand_for links count) links)
               | _ -> bad "sem_chain_orig: part") parts;
           match !result with
           | Some r -> r
           | None -> ok !count (if !excused > 0 then [ A "excused-as-F8c"; A (string_of_int !excused) ] else []))
    end
  | _ -> bad "sem_chain_orig: %s" (to_string e)

(* ---------- task level ---------- *)
let rec has_tag t = function
  | L (A x :: _) when x = t -> true
  | L xs -> List.exists (has_tag t) xs
  | _ -> false

let sem_chain_task_gen ~(strict : bool) (e : Sexp.t) : Sexp.t =
  match e with
  | L [ task; L (A "ok" :: texts) ] ->
    if has_tag "placeholder" task then ok 0 []
    else begin
      let users = dedup (List.rev (sy_leaves [] task)) in
      let count = ref 0 and excused = ref 0 and judged = ref 0 in
      let result = ref None in
      List.iteri (fun i t ->
          match t with
          | S text ->
            (match read text with
             | Error _ -> ()
             | Ok tp ->
               let decl_consts = List.filter_map (fun d ->
                   match d.M.Tff.d_sig with
                   | M.Tff.SigFun ([], M.Tff.TySymbol) -> Some (str_of d.M.Tff.d_ident) | _ -> None) tp.M.Tff.tp_decls in
               let preds0 = List.filter_map (fun d ->
                   match d.M.Tff.d_sig with M.Tff.SigPred [] -> Some (str_of d.M.Tff.d_ident) | _ -> None) tp.M.Tff.tp_decls in
               let news = List.filter (fun r -> not (List.mem r users)) decl_consts in
               let clash = List.filter (fun o -> List.mem o preds0) users in
               (* the map printed -> user constant, when it is determined *)
               let map =
                 match news, clash with
                 | [], [] -> Some (fun r -> [ r ])
                 | [], [ c ] when not (List.mem c decl_consts) -> Some (fun r -> [ r ])   (* c does not occur in this problem *)
                 | [ n ], [ c ] when not (List.mem c decl_consts) -> Some (fun r -> if r = n then [ c ] else [ r ])
                 | _ -> None in
               match map with
               | None -> ()
               | Some stand_for ->
                 incr judged;
                 (* the formulas of the problem itself: everything that is not a ground p__less__ link is
                    ignored by links_of_text; a user formula of that very shape carries a name that does
                    not start with `symbol_order` - at task level the problem's own formula names are
                    not known, so the ordering axioms are recognised by shape AND by not being named
                    like a formula anthem builds from user input *)
                 let own = List.filter_map (fun a ->
                     let n = str_of a.M.Tff.n_name in
                     if String.length n >= 8 && String.sub n 0 8 = "formula_" then Some n else None) tp.M.Tff.tp_formulas in
                 let links = links_of_text tp own in
                 (* the recorded class, decided on the user constants that occur in this text *)
                 let occurring = dedup (List.concat_map stand_for decl_consts) in
                 let in_class = match clash with
                   | [ c ] when List.mem c occurring ->
                     let sym o = M.Fol.GSym (M.Fol.SSym (cl_of_string o)) in
                     let pf f = { M.Problem.pf_name = cl_of_string "f"; pf_role = M.Problem.PAxiom; pf_formula = M.Fol.FAtomic f } in
                     let pre = { M.Problem.pb_name = cl_of_string "p";
                                 pb_formulas = pf (M.Fol.AAtom (cl_of_string c, []))
                                               :: List.map (fun o -> pf (M.Fol.AAtom (cl_of_string "holds__", [ sym o ]))) occurring } in
                     not (M.ChainClass.rename_monotoneb pre)
                   | _ -> false in
                 let fs = judge_part decl_consts stand_for links count in
                 List.iter (fun f ->
                     if f.excusable && in_class && not strict then incr excused
                     else if !result = None then
                       result := Some (L [ A "cex"; L [ A "problem"; A (string_of_int i) ]; f.what; of_links links;
                                           L (A "user-constants" :: List.map (fun o -> S o) users);
                                           L (A "declared-constants" :: List.map (fun o -> S o) decl_consts);
                                           L [ A "input-in-recorded-class-F8c"; A (string_of_bool in_class) ] ])) fs)
          | _ -> bad "sem_chain_task: text") texts;
      match !result with
      | Some r -> r
      | None -> ok !count ([ A "problems-judged"; A (string_of_int !judged) ]
                           @ (if !excused > 0 then [ A "excused-as-F8c"; A (string_of_int !excused) ] else []))
    end
  | L [ _; _ ] -> ok 0 []      (* (err) / (skipped) / (panic) *)
  | _ -> bad "sem_chain_task: %s" (to_string e)

(* ---------- classification of a raw problem (distribution printed into the evidence) ---------- *)
let chain_kind (e : Sexp.t) : Sexp.t =
  match e with
  | L [ p; _ ] ->
    let raw = problem p in
    let pre = M.Problem.add_annotated_formulas (M.Problem.with_name raw.M.Problem.pb_name) raw.M.Problem.pb_formulas in
    let syms = M.Problem.problem_symbols pre in
    let renamed = List.filter (fun s -> M.ChainClass.printed_symbol pre s <> s) syms in
    let n = List.length syms in
    A (if renamed = [] then (if n >= 2 then "no-clash" else "no-clash-fewer-than-2-constants")
       else if n < 2 then "clash-single-constant"
       else if M.ChainClass.rename_monotoneb pre then "clash-outside-F8c-class"
       else "clash-inside-F8c-class")
  | _ -> bad "chain_kind: %s" (to_string e)

(* ---------- model side of chain_emit ---------- *)
let chain_emit (e : Sexp.t) : Sexp.t =
  match e with
  | L [ p; d ] ->
    let raw = problem p in
    let open M.Problem in
    let renamed = rename_conflicting_symbols (add_annotated_formulas (with_name raw.pb_name) raw.pb_formulas) in
    let parts = decompose (create_unique_formula_names renamed) (decomposition d) in
    let texts = List.map (fun m -> M.ProblemPrint.problem_display m) parts in
    if List.exists (fun t -> t = None) texts then L [ A "panic" ]
    else
      L [ L [ A "renamed"; of_problem renamed ];
          L (A "parts" :: List.map2 (fun m t -> L [ of_problem m; Ops_tptp.of_string_result t ]) parts texts) ]
  | _ -> bad "chain_emit: %s" (to_string e)

let () =
  Ops.register "chain_emit" chain_emit;
  Ops.register "chain_kind" chain_kind;
  Ops.register "sem_chain_orig" (sem_chain_orig_gen ~strict:false);
  Ops.register "sem_chain_orig_all" (sem_chain_orig_gen ~strict:true);
  Ops.register "sem_chain_task" (sem_chain_task_gen ~strict:false);
  Ops.register "sem_chain_task_all" (sem_chain_task_gen ~strict:true)
let init () = ()
