(* Helpers for the semantic search engines: windows, ground atoms, finite interpretations,
   assignments.  Everything is deterministic given the input (PRNG seeded from the input). *)
open M.BinNums
open M.Fol
open M.Domain
open M.Eval

let cl = Conv.cl_of_string

let rec ints_of_iterm acc = function
  | INum z -> z :: acc
  | IFun _ | IVar _ -> acc
  | IUn t -> ints_of_iterm acc t
  | IBin (_, l, r) -> ints_of_iterm (ints_of_iterm acc l) r
let ints_of_gterm acc = function GInt t -> ints_of_iterm acc t | _ -> acc
let ints_of_aformula acc = function
  | ATrue | AFalse -> acc
  | AAtom (_, ts) -> List.fold_left ints_of_gterm acc ts
  | ACmp (t, gs) -> List.fold_left (fun acc g -> ints_of_gterm acc g.gterm_of) (ints_of_gterm acc t) gs
let rec ints_of_formula acc = function
  | FAtomic a -> ints_of_aformula acc a
  | FNot f -> ints_of_formula acc f
  | FBin (_, l, r) -> ints_of_formula (ints_of_formula acc l) r
  | FQ (_, _, f) -> ints_of_formula acc f

let dedup l = List.sort_uniq compare l
let take n l = List.filteri (fun i _ -> i < n) l

let z_of_int i = Conv.coqz_of_z (Z.of_int i)

(* window: numerals of the formulas (those of small magnitude) and their neighbours, plus -1..2;
   symbols of the formulas plus two others *)
let window_of ?(max_ints = 6) ?(max_syms = 3) (fs : formula list) : window =
  let ints = List.fold_left ints_of_formula [] fs in
  let small = List.filter (fun z -> let z = Conv.z_of_coqz z in Z.lt (Z.abs z) (Z.of_int 50)) ints in
  let base = List.map z_of_int [0; 1; -1; 2] in
  let ints = take max_ints (List.fold_left (fun acc z -> if List.mem z acc then acc else acc @ [z]) base small) in
  let syms = List.concat_map (fun f -> symbols f) fs in
  let syms = List.fold_left (fun acc s -> if List.mem s acc then acc else acc @ [s]) [] (syms @ [cl "a"; cl "zz"]) in
  { w_ints = ints; w_syms = take max_syms syms }

let general_values (w : window) : gval list = w_general w

let rng_of (seed : int) = Random.State.make [| seed; 0x5eed |]

(* all argument tuples of a given arity over vals, capped *)
let rec tuples vals n = if n = 0 then [ [] ] else List.concat_map (fun v -> List.map (fun t -> v :: t) (tuples vals (n - 1))) vals

let shuffle st l =
  let a = Array.of_list l in
  for i = Array.length a - 1 downto 1 do
    let j = Random.State.int st (i + 1) in
    let t = a.(i) in a.(i) <- a.(j); a.(j) <- t
  done;
  Array.to_list a

(* ground atoms over the predicates [ps], argument values from [vals]; at most [cap] atoms,
   chosen so that every predicate gets some *)
let ground_atoms st (ps : pred list) (vals : gval list) (cap : int) : (char list * gval list) list =
  let per = List.map (fun p ->
      let n = Conv.int_of_nat p.parity in
      let vals' = if n >= 3 then take 2 vals else if n = 2 then take 3 vals else vals in
      shuffle st (List.map (fun t -> (p.psym, t)) (tuples vals' n))) ps in
  (* round robin *)
  let rec rr acc lists k =
    if k = 0 || List.for_all (fun l -> l = []) lists then List.rev acc
    else
      let acc, lists, k = List.fold_left (fun (acc, ls, k) l ->
          match l with
          | x :: rest when k > 0 -> (x :: acc, ls @ [rest], k - 1)
          | l -> (acc, ls @ [l], k)) (acc, [], k) lists in
      rr acc lists k in
  rr [] per cap

let subsets (l : 'a list) : 'a list list =
  List.fold_right (fun x acc -> List.concat_map (fun s -> [ s; x :: s ]) acc) l [ [] ]

let random_subset st l = List.filter (fun _ -> Random.State.bool st) l

(* assignments for the free variables: [k] random ones drawn from the window *)
let random_env st (w : window) (fvs : var list) : fenv =
  List.map (fun v ->
      let dom = w_sort w v.vsort in
      let d = if dom = [] then default_val v.vsort else List.nth dom (Random.State.int st (List.length dom)) in
      (v, d)) fvs
let random_ffint st (w : window) (cs : fconst list) : ffint =
  List.map (fun c ->
      let dom = w_sort w c.fcsort in
      let d = if dom = [] then default_val c.fcsort else List.nth dom (Random.State.int st (List.length dom)) in
      (c, d)) cs

(* wire format of values / interpretations (for replays) *)
let of_gval = function
  | VInf -> Sexp.A "inf" | VSup -> Sexp.A "sup"
  | VNum z -> Sexp.L [ Sexp.A "n"; Conv.of_zint z ]
  | VSym s -> Sexp.L [ Sexp.A "sy"; Conv.of_str s ]
let gval = function
  | Sexp.A "inf" -> VInf | Sexp.A "sup" -> VSup
  | Sexp.L [ Sexp.A "n"; z ] -> VNum (Conv.zint z)
  | Sexp.L [ Sexp.A "sy"; s ] -> VSym (Conv.str s)
  | e -> Conv.bad "gval: %s" (Sexp.to_string e)
let of_fpint (i : fpint) = Sexp.L (List.map (fun (p, args) -> Sexp.L (Conv.of_str p :: List.map of_gval args)) i)
let of_fenv (e : fenv) = Sexp.L (List.map (fun (v, d) -> Sexp.L [ Conv.of_var v; of_gval d ]) e)
let of_ffint (e : ffint) = Sexp.L (List.map (fun (c, d) -> Sexp.L [ Conv.of_fconst c; of_gval d ]) e)
let of_window (w : window) =
  Sexp.L [ Sexp.L (List.map Conv.of_zint w.w_ints); Sexp.L (List.map Conv.of_str w.w_syms) ]

let hash_sexp (e : Sexp.t) : int = Hashtbl.hash (Sexp.to_string e)
