(* Semantic cross-checks of the `tasks` cluster: they evaluate the IMPLEMENTATION's own outputs on
   finite interpretations (search for counterexamples; never a proof obligation).
     sem_break        (F  theory)                 M,e |= F  iff  M,e |= every formula of the theory
     sem_c19_strong   (case families)             "refutes some problem" agrees in all 8 families
     sem_c03[_all]    (case problems)             refutes some forward problem iff H<=T, (H,T)|=L, (H,T)|/=R
     sem_outline[_all] (case result)              accepted definitions are fresh / closed / over earlier predicates
     sem_c13_fresh    (case result)               accepted definitions define no predicate of the EMITTED task formulas
     sem_c11          (case result)               accepted => the seven conditions; refused => the named one fails
     sem_c19_external (case families)             as sem_c19_strong, for external tasks (arithmetic-free) *)
open Sexp
open Conv
open M.Fol
open M.Problem
open M.Domain
open M.Eval

let ok n = L [ A "ok"; A (string_of_int n) ]

(* ---------- sem_break ---------- *)
let sem_break (e : Sexp.t) : Sexp.t =
  match e with
  | L [ f; th ] ->
    let f = formula f and th = theory th in
    let st = Semlib.rng_of (Semlib.hash_sexp e) in
    let w = Semlib.window_of ~max_ints:3 ~max_syms:2 [ f ] in
    let atoms = Semlib.ground_atoms st (predicates f) (Semlib.take 4 (Semlib.shuffle st (Semlib.general_values w))) 6 in
    let fvs = List.sort_uniq compare (List.concat_map free_variables (f :: th)) in
    let fcs = function_constants f in
    let count = ref 0 and result = ref None in
    for _ = 1 to 24 do
      if !result = None then begin
        let i = Semlib.random_subset st atoms in
        let env = Semlib.random_env st w fvs in
        let fi = Semlib.random_ffint st w fcs in
        incr count;
        let lhs = ceval w fi i env f in
        let rhs = List.for_all (fun g -> ceval w fi i env g) th in
        if lhs <> rhs then
          result := Some (L [ A "cex"; L [ A "I"; Semlib.of_fpint i ]; L [ A "env"; Semlib.of_fenv env ];
                              L [ A "placeholders"; Semlib.of_ffint fi ]; L [ A "window"; Semlib.of_window w ];
                              L [ A "formula-true"; of_boolv lhs ]; L [ A "all-broken-formulas-true"; of_boolv rhs ] ])
      end
    done;
    (match !result with Some r -> r | None -> ok !count)
  | _ -> bad "sem_break: %s" (to_string e)

(* ---------- shared machinery for problem families ---------- *)
let rec qdepth = function
  | FAtomic _ -> 0
  | FNot f -> qdepth f
  | FBin (_, l, r) -> max (qdepth l) (qdepth r)
  | FQ (_, vs, f) -> List.length vs + qdepth f

let uniq l = List.fold_left (fun acc x -> if List.mem x acc then acc else acc @ [ x ]) [] l

(* exact window: all numerals and symbols of the formulas (None when too large) *)
let exact_window (fs : formula list) : window option =
  let ints = uniq (List.fold_left Semlib.ints_of_formula [] fs) in
  let syms = uniq (List.concat_map symbols fs) in
  if List.length ints > 4 || List.length syms > 4 then None
  else Some { w_ints = (if ints = [] then [ Semlib.z_of_int 0 ] else ints); w_syms = (if syms = [] then [ Semlib.cl "a" ] else syms) }

let problem_formulas (p : problem) = List.map (fun a -> a.pf_formula) p.pb_formulas

(* memoised truth of the universal closure of a formula under one interpretation *)
let make_holds w fi (m : fpint) =
  let tbl = Hashtbl.create 64 in
  fun (f : formula) ->
    match Hashtbl.find_opt tbl f with
    | Some b -> b
    | None -> let b = ceval w fi m [] (universal_closure f) in Hashtbl.add tbl f b; b

let refutes holds (p : problem) : bool =
  List.for_all (fun a -> holds a.pf_formula) (axioms p) && List.exists (fun a -> not (holds a.pf_formula)) (conjectures p)

let families = function
  | L (A "families" :: fams) ->
    List.map (function
        | L (A "family" :: flags :: ps) -> (flags, List.map problem ps)
        | e -> bad "family: %s" (to_string e)) fams
  | e -> bad "families: %s" (to_string e)

let starts_with pre s = String.length s >= String.length pre && String.sub s 0 (String.length pre) = pre
let name_of (p : problem) = string_of_cl p.pb_name

let program_terms_simple (p : M.Asp.program) = not (M.EvalAspTasks.program_has_arith p)

(* all pairs (H, T) of subsets of <= 4 ground atoms over the programs' predicates *)
let ht_pairs st (w : window) (ps : pred list) =
  let vals = Semlib.shuffle st (w_general w) in
  let atoms = Semlib.ground_atoms st ps vals 4 in
  let subs = Semlib.subsets atoms in
  List.concat_map (fun t -> List.map (fun h -> (h, t)) subs) subs

let is_subset h t = List.for_all (fun a -> List.mem a t) h


(* ---------- sem_decompose ---------- *)
(* input ((strategy problem) (problems ..)): every emitted problem has exactly one conjecture, and on
   sampled interpretations "some emitted problem is refuted" iff the original problem is refuted
   (all axioms true, some conjecture false) *)
let one_conjecture (p : problem) = List.length (conjectures p) = 1
let sem_decompose (e : Sexp.t) : Sexp.t =
  match e with
  | L [ L [ _; p ]; L (A "problems" :: ps) ] ->
    let p = problem p and ps = List.map problem ps in
    (match List.find_opt (fun q -> not (one_conjecture q)) ps with
     | Some q -> L [ A "cex"; S "an emitted problem does not have exactly one conjecture"; of_problem q ]
     | None ->
       let fs = problem_formulas p in
       let st = Semlib.rng_of (Semlib.hash_sexp e) in
       let w = Semlib.window_of ~max_ints:3 ~max_syms:2 fs in
       let preds = uniq (List.concat_map predicates fs) in
       let atoms = Semlib.ground_atoms st preds (Semlib.take 3 (Semlib.shuffle st (Semlib.general_values w))) 6 in
       let fcs = uniq (List.concat_map function_constants fs) in
       let count = ref 0 and result = ref None in
       for _ = 1 to 16 do
         if !result = None then begin
           let m = Semlib.random_subset st atoms in
           let fi = Semlib.random_ffint st w fcs in
           let holds = make_holds w fi m in
           incr count;
           let a = refutes holds p and b = List.exists (refutes holds) ps in
           if a <> b then
             result := Some (L [ A "cex"; L [ A "I"; Semlib.of_fpint m ]; L [ A "placeholders"; Semlib.of_ffint fi ];
                                 L [ A "window"; Semlib.of_window w ]; L [ A "original-refuted"; of_boolv a ];
                                 L [ A "some-emitted-problem-refuted"; of_boolv b ] ])
         end
       done;
       (match !result with Some r -> r | None -> ok !count))
  | _ -> bad "sem_decompose: %s" (to_string e)

(* ---------- sem_c19_strong ---------- *)
let sem_c19_strong (e : Sexp.t) : Sexp.t =
  match e with
  | L [ _; L [ A "none" ] ] -> ok 0
  | L [ L [ _; left; right; _ ]; fams ] ->
    let left = program left and right = program right in
    if not (program_terms_simple left && program_terms_simple right) then ok 0
    else begin
      let fams = families fams in
      let all_formulas = List.concat_map (fun (_, ps) -> List.concat_map problem_formulas ps) fams in
      match List.find_opt (fun q -> not (one_conjecture q)) (List.concat_map snd fams) with
      | Some q -> L [ A "cex"; S "an emitted problem does not have exactly one conjecture"; of_problem q ]
      | None ->
      match exact_window all_formulas with
      | None -> ok 0
      | Some w ->
        let nvals = List.length (w_general w) in
        let depth = List.fold_left (fun d f -> max d (qdepth f)) 0 all_formulas in
        if float_of_int nvals ** float_of_int (min depth 6) > 60000. || depth > 8 then ok 0
        else begin
          let st = Semlib.rng_of (Semlib.hash_sexp (L [ of_program left; of_program right ])) in
          let ps = M.Strong.strong_predicates left right in
          let pairs = ht_pairs st w ps in
          let count = ref 0 and result = ref None in
          List.iter (fun (h, t) ->
              if !result = None then begin
                let m = fmerge h t in
                let holds = make_holds w [] m in
                let verdicts = List.map (fun (flags, ps) -> (flags, List.exists (refutes holds) ps)) fams in
                incr count;
                match verdicts with
                | (_, v0) :: rest ->
                  (match List.find_opt (fun (_, v) -> v <> v0) rest with
                   | Some (flags, v) ->
                     result := Some (L [ A "cex"; L [ A "H"; Semlib.of_fpint h ]; L [ A "T"; Semlib.of_fpint t ];
                                         L [ A "window"; Semlib.of_window w ];
                                         L [ A "family"; fst (List.hd verdicts); A "refuted"; of_boolv v0 ];
                                         L [ A "family"; flags; A "refuted"; of_boolv v ] ])
                   | None -> ())
                | [] -> ()
              end) pairs;
          match !result with Some r -> r | None -> ok !count
        end
    end
  | _ -> bad "sem_c19_strong: %s" (to_string e)

(* ---------- renamed constants (rename_conflicting_symbols) read as what they stand for ---------- *)
(* [unrename_formula clash f]: every symbolic constant printed `s__s` with s in [clash] (the constants
   that equal a 0-ary predicate of the problem) is read as the constant s it stands for *)
let suffix_s = Semlib.cl "__s"
let unrename_gterm (clash : char list list) (t : gterm) : gterm =
  match t with
  | GSym (SSym x) ->
    (match List.find_opt (fun s -> x = s @ suffix_s) clash with Some s -> GSym (SSym s) | None -> t)
  | _ -> t
let rec unrename_formula (clash : char list list) (f : formula) : formula =
  match f with
  | FAtomic (AAtom (p, ts)) -> FAtomic (AAtom (p, List.map (unrename_gterm clash) ts))
  | FAtomic (ACmp (t, gs)) ->
    FAtomic (ACmp (unrename_gterm clash t, List.map (fun g -> { g with gterm_of = unrename_gterm clash g.gterm_of }) gs))
  | FAtomic _ -> f
  | FNot g -> FNot (unrename_formula clash g)
  | FBin (c, l, r) -> FBin (c, unrename_formula clash l, unrename_formula clash r)
  | FQ (q, vs, g) -> FQ (q, vs, unrename_formula clash g)
let unrename_problem (clash : char list list) (p : problem) : problem =
  { p with pb_formulas = List.map (fun a -> { a with pf_formula = unrename_formula clash a.pf_formula }) p.pb_formulas }

(* ---------- sem_c03 ---------- *)
(* the class excluded from C03 (finding F8b): a symbol of the programs equals the h- or t-copy of a
   0-ary predicate of the programs; [strong_clash_symbols] are those symbols (printed s__s) *)
let strong_clash_symbols (left : M.Asp.program) (right : M.Asp.program) : char list list =
  let ps = M.Strong.strong_predicates left right in
  let syms = uniq (M.Asp.program_fconsts left @ M.Asp.program_fconsts right) in
  List.filter (fun s ->
      List.exists (fun (p : pred) -> Conv.int_of_nat p.parity = 0 && (s = 'h' :: p.psym || s = 't' :: p.psym)) ps) syms
let symbol_pred_clash (left : M.Asp.program) (right : M.Asp.program) : bool =
  strong_clash_symbols left right <> []

let sem_c03_gen ~(all : bool) (e : Sexp.t) : Sexp.t =
  match e with
  | L [ _; L [ A "none" ] ] -> ok 0
  | L [ L [ L [ _; dir; _; _; _ ]; left; right; _ ]; L (A "problems" :: pbs) ] ->
    let left = program left and right = program right in
    let dir = direction dir in
    (* The regular op reads a renamed constant `s__s` as the constant s it stands for (so every other
       violation inside the class F8b is still reported) and leaves the symbol_order chain - which is
       false for those constants, C12_chain_refuted_after_rename - out of account; it skips only the
       ambiguous case where a constant `s__s` exists besides s.  [sem_c03_all] takes the printed names
       at face value, as the prover does (the chain makes them distinct constants in byte order):
       that is the recorded finding. *)
    let clash = strong_clash_symbols left right in
    let all_syms = M.Asp.program_fconsts left @ M.Asp.program_fconsts right in
    let ambiguous = List.exists (fun s -> List.mem (s @ suffix_s) all_syms) clash in
    if not (program_terms_simple left && program_terms_simple right) then ok 0
    else if (not all) && ambiguous then ok 0
    else begin
      let pbs = List.map problem pbs in
      let pbs = if all then pbs else List.map (unrename_problem clash) pbs in
      let all_formulas = List.concat_map problem_formulas pbs in
      (* the window must contain the constants of the programs as well (reference side) *)
      let consts = List.map (fun s -> FAtomic (AAtom (Semlib.cl "c", [ GSym (SSym s) ]))) (M.Asp.program_fconsts left @ M.Asp.program_fconsts right) in
      match exact_window (all_formulas @ consts) with
      | None -> ok 0
      | Some w ->
        let nvals = List.length (w_general w) in
        let depth = List.fold_left (fun d f -> max d (qdepth f)) 0 all_formulas in
        let nvars = List.fold_left (fun d (r : M.Asp.rule) -> max d (List.length (M.Asp.rule_vars r))) 0 (left @ right) in
        if float_of_int nvals ** float_of_int (min depth 6) > 60000. || depth > 8 || nvars > 3 then ok 0
        else begin
          let st = Semlib.rng_of (Semlib.hash_sexp (L [ of_program left; of_program right ])) in
          let ps = M.Strong.strong_predicates left right in
          let pairs = ht_pairs st w ps in
          let cands = w_general w in
          let count = ref 0 and result = ref None in
          let check side_name premise conclusion h t holds =
            let actual = List.exists (fun p -> starts_with side_name (name_of p) && refutes holds p) pbs in
            let expected = is_subset h t && M.EvalAspTasks.ref_eval cands h t premise && not (M.EvalAspTasks.ref_eval cands h t conclusion) in
            if actual <> expected && !result = None then
              result := Some (L [ A "cex"; L [ A "direction"; A side_name ]; L [ A "H"; Semlib.of_fpint h ]; L [ A "T"; Semlib.of_fpint t ];
                                  L [ A "window"; Semlib.of_window w ];
                                  L [ A "some-problem-refuted"; of_boolv actual ];
                                  L [ A "H-subset-T-and-satisfies-premise-program-but-not-conclusion-program"; of_boolv expected ] ]) in
          List.iter (fun (h, t) ->
              if !result = None then begin
                let holds = make_holds w [] (fmerge h t) in
                incr count;
                (match dir with DUniversal | DForward -> check "forward" left right h t holds | DBackward -> ());
                (match dir with DUniversal | DBackward -> check "backward" right left h t holds | DForward -> ())
              end) pairs;
          match !result with Some r -> r | None -> ok !count
        end
    end
  | _ -> bad "sem_c03: %s" (to_string e)

(* ---------- sem_outline ---------- *)
(* On an accepted outline: every definition (in acceptance order, reconstructed from the input
   specification) must be  forall Xs (p(Xs) <-> F)  with Xs distinct, F closed over Xs, p occurring
   nowhere in the task (the taken predicates) nor in any EARLIER outline entry - definition or lemma
   (the letter of C13; the lemma part was finding F12, repaired in /repo, and is no longer excused) -
   and F over earlier predicates (task, earlier definitions, earlier lemmas).
   [sem_outline_all] is the same oracle (kept as a name: it was the strict variant while F12 was recorded). *)
(* Brute-force conservativity of one definition  forall vs (p(ts) <-> rhs)  whose head arguments are
   variables, on a tiny domain (integers {0,1}, one symbol, #inf, #sup): the definition extends an
   interpretation I of the predicates of rhs iff no two assignments of vs that give the head the SAME
   argument tuple give rhs different truth values (then p can be interpreted by the value of rhs, and
   by anything outside the image of the head).  Interpretations: the empty one, the full one and
   sampled subsets of the ground atoms over {0,1}.  Some ((I, s1, s2)) = a premise model with no
   extension, and the two clashing assignments.  As the demo of the property does for the emitted
   problems; here on the accepted definition itself. *)
let conservativity_cex (vs : var list) (ts : gterm list) (rhs : formula) (seed : int) =
  let w = { w_ints = [ Semlib.z_of_int 0; Semlib.z_of_int 1 ]; w_syms = [ Semlib.cl "a" ] } in
  let doms = List.map (fun (v : var) -> w_sort w v.vsort) vs in
  let n_assign = List.fold_left (fun a d -> a * max 1 (List.length d)) 1 doms in
  let head_vars = List.map gterm_to_var ts in
  if List.exists (fun v -> v = None) head_vars || n_assign > 700 || List.length vs > 5 then None
  else begin
    let head_vars = List.map (function Some v -> v | None -> assert false) head_vars in
    let rec assigns = function
      | [] -> [ [] ]
      | (v, d) :: rest -> let tl = assigns rest in List.concat_map (fun x -> List.map (fun e -> (v, x) :: e) tl) d in
    let envs = assigns (List.combine vs doms) in
    let st = Semlib.rng_of seed in
    let preds = List.sort_uniq compare (predicates rhs) in
    let vals = [ VNum (Semlib.z_of_int 0); VNum (Semlib.z_of_int 1) ] in
    let atoms = List.concat_map (fun (q : pred) ->
        let n = Conv.int_of_nat q.parity in
        if n > 3 then [] else List.map (fun t -> (q.psym, t)) (Semlib.tuples vals n)) preds in
    let interps =
      if List.length atoms <= 8 then Semlib.subsets atoms
      else [] :: atoms :: List.init 150 (fun _ -> Semlib.random_subset st atoms) in
    let qcost = let rec c = function FAtomic _ -> 1 | FNot f -> c f | FBin (_, l, r) -> c l + c r
                  | FQ (_, bs, f) -> List.fold_left (fun a (b : var) -> a * max 1 (List.length (w_sort w b.vsort))) 1 bs * c f in c rhs in
    if qcost * n_assign * List.length interps > 3_000_000 then None
    else begin
      let result = ref None in
      List.iter (fun i ->
          if !result = None then begin
            let seen = Hashtbl.create 64 in
            List.iter (fun env ->
                if !result = None then begin
                  let tuple = List.map (fun v -> flookup env v) head_vars in
                  let value = ceval w [] i env rhs in
                  match Hashtbl.find_opt seen tuple with
                  | Some (v0, env0) when v0 <> value -> result := Some (i, env0, env)
                  | Some _ -> ()
                  | None -> Hashtbl.add seen tuple (value, env)
                end) envs
          end) interps;
      !result
    end
  end

(* the value carried by an error of ProofOutline::from_specification (audit B16), judged against the
   outline by hand: it must belong to an entry of the outline (placeholders replaced; for lemmas:
   closed, quantifiers joined) and name a real defect of that entry; with [taken] = Some l also: the
   predicate of TakenPredicate occurs in l or in an earlier entry, the one of UndefinedRhsPredicate in
   neither.  Some reason = wrong. *)
let outline_payload m (outline : specification) (taken : pred list option) (payload : Sexp.t list) : string option =
  let entries = List.map (M.Outline.rp_annot m) outline in
  let rec prefixes acc = function [] -> [] | x :: r -> (List.rev acc, x) :: prefixes (x :: acc) r in
  let positions = prefixes [] entries in   (* (earlier entries, entry) *)
  let earlier_preds pre = List.concat_map (fun (a : aformula_annot) -> predicates a.an_formula) pre in
  let closed (a : aformula_annot) =
    (M.Outline.rp_annot m { a with an_formula = M.Outline.universal_closure_with_quantifier_joining a.an_formula }).an_formula in
  let head = function
    | FQ (QForall, _, FBin (CIff, FAtomic (AAtom (p, ts)), _)) -> Some { psym = p; parity = Conv.nat_of_int (List.length ts) }
    | _ -> None in
  let exists_entry roles why ok_entry =
    if List.exists (fun (pre, (a : aformula_annot)) -> List.mem a.an_role roles && ok_entry pre a) positions then None else Some why in
  let distinct l = List.length (uniq l) = List.length l in
  match payload with
  | [ S "AnnotatedFormulaWithInvalidRole"; x ] ->
    let x = annot x in exists_entry [ RAssumption; RSpec ] "not an assumption / spec entry of the outline" (fun _ a -> a = x)
  | [ S "TakenPredicate"; p ] ->
    let p = pred p in
    exists_entry [ RDefinition ] "not the predicate defined by a definition of the outline that occurs in the task or in an earlier entry"
      (fun pre a -> head a.an_formula = Some p
                    && (match taken with None -> true | Some l -> List.mem p l || List.mem p (earlier_preds pre)))
  | [ S "UndefinedRhsPredicate"; f; p ] ->
    let f = formula f and p = pred p in
    exists_entry [ RDefinition ] "not a definition of the outline with this predicate in its body, unknown so far"
      (fun pre a -> a.an_formula = f
                    && (match f with FQ (QForall, _, FBin (CIff, _, rhs)) -> List.mem p (predicates rhs) | _ -> false)
                    && (match taken with None -> true | Some l -> not (List.mem p l || List.mem p (earlier_preds pre))))
  | [ S "TermsInDefinition"; tm; f ] ->
    let f = formula f and tm = gterm tm in
    exists_entry [ RDefinition ] "not a definition of the outline with this non-variable argument"
      (fun _ a -> a.an_formula = f && gterm_to_var tm = None
                  && (match f with FQ (QForall, _, FBin (CIff, FAtomic (AAtom (_, ts)), _)) -> List.mem tm ts | _ -> false))
  | [ S "DuplicatedVariables"; f ] ->
    let f = formula f in
    exists_entry [ RDefinition ] "not a definition of the outline with a repeated quantified variable"
      (fun _ a -> a.an_formula = f && (match f with FQ (QForall, vs, _) -> not (distinct vs) | _ -> false))
  | [ S "FreeRhsVariables"; f ] ->
    let f = formula f in
    exists_entry [ RDefinition ] "not a definition of the outline whose body has a free variable outside the quantifier"
      (fun _ a -> a.an_formula = f
                  && (match f with FQ (QForall, vs, FBin (CIff, _, rhs)) -> List.exists (fun v -> not (List.mem v vs)) (free_variables rhs) | _ -> false))
  | [ S "DefinedPredicateVariableListMismatch"; f ] ->
    let f = formula f in
    exists_entry [ RDefinition ] "not a definition of the outline whose head arguments differ from the quantified variables"
      (fun _ a -> a.an_formula = f
                  && (match f with
                      | FQ (QForall, vs, FBin (CIff, FAtomic (AAtom (_, ts)), _)) ->
                        let hv = List.filter_map gterm_to_var ts in
                        not (List.for_all (fun v -> List.mem v hv) vs && List.for_all (fun v -> List.mem v vs) hv)
                      | _ -> false))
  | [ S "MalformedDefinition"; f ] ->
    let f = formula f in
    exists_entry [ RDefinition ] "not a definition of the outline that is not of the shape forall Xs (p(ts) <-> F)"
      (fun _ a -> a.an_formula = f && head f = None)
  | [ S ("MalformedInductiveLemma" | "MalformedInductiveAntecedent" | "MalformedInductiveVariables" | "MalformedInductiveTerm"); f ] ->
    let f = formula f in
    exists_entry [ RInductiveLemma ] "not the closed formula of an inductive lemma of the outline" (fun _ a -> closed a = f)
  | [ S "InvalidRoleForGeneralLemma"; _ ] -> Some "InvalidRoleForGeneralLemma cannot be returned by from_specification"
  | _ -> Some "malformed proof-outline payload"

let sem_outline_gen (e : Sexp.t) : Sexp.t =
  match e with
  | L [ L [ spec; taken; ph ]; L (A "err" :: payload) ] ->
    (* a refusal: the value the error carries must name a defect of an entry of the outline *)
    let m = Ops_tasks.placeholder_map (Ops_tasks.placeholders ph) in
    (match outline_payload m (specification spec) (Some (list_of pred taken)) payload with
     | Some why -> L (A "cex" :: S "the value carried by the error does not name a defect of the outline" :: S why :: payload)
     | None -> ok 1)
  | L [ L [ spec; taken; ph ]; L (A "ok" :: _) ] ->
    let spec = specification spec and taken = list_of pred taken in
    let m = Ops_tasks.placeholder_map (Ops_tasks.placeholders ph) in
    let cex what (a : aformula_annot) = L [ A "cex"; S what; of_annot a ] in
    let rec go taken earlier_lemma_preds = function
      | [] -> ok 1
      | (a0 : aformula_annot) :: rest ->
        let a = M.Outline.rp_annot m a0 in
        (match a.an_role with
         | RDefinition ->
           (match a.an_formula with
            | FQ (QForall, vs, FBin (CIff, FAtomic (AAtom (p, ts)), rhs)) ->
              let pr = { psym = p; parity = Conv.nat_of_int (List.length ts) } in
              let distinct l = List.length (uniq l) = List.length l in
              let head_vars = List.filter_map gterm_to_var ts in
              let brute = if distinct vs then conservativity_cex vs ts rhs (Semlib.hash_sexp (of_annot a)) else None in
              if not (distinct vs) then cex "quantified variables not distinct" a
              else if not (List.for_all (fun t -> gterm_to_var t <> None) ts) then cex "argument of the defined atom is not a variable" a
              else if brute <> None then
                (match brute with
                 | Some (i, e1, e2) ->
                   L [ A "cex"; S "accepted definition is not conservative: this interpretation of the body's predicates cannot be extended to the defined predicate (two assignments give the head the same arguments and the body different truth values)";
                       of_annot a; L [ A "interpretation"; Semlib.of_fpint i ]; L [ A "assignment"; Semlib.of_fenv e1 ]; L [ A "assignment"; Semlib.of_fenv e2 ] ]
                 | None -> ok 0)
              else if not (List.for_all (fun v -> List.mem v vs) head_vars) then cex "head variable of the defined atom is not quantified (the definition is not closed)" a
              else if not (List.for_all (fun v -> List.mem v head_vars) vs) then
                cex "a quantified variable does not occur among the head arguments (the equivalence constrains the body's predicates: not a definitional extension)" a
              else if List.mem pr taken then cex "defined predicate is not fresh (task or earlier definition)" a
              else if List.mem pr earlier_lemma_preds then cex "defined predicate occurs in an earlier lemma (F12)" a
              else if not (List.for_all (fun v -> List.mem v vs) (free_variables rhs)) then cex "body not closed over the quantified variables" a
              else if not (List.for_all (fun q -> List.mem q taken || List.mem q earlier_lemma_preds) (predicates rhs)) then cex "body mentions a predicate that is not earlier" a
              else go (taken @ [ pr ]) earlier_lemma_preds rest
            | _ -> cex "accepted definition is not a universally quantified equivalence with an atom on the left" a)
         | RLemma | RInductiveLemma -> go taken (earlier_lemma_preds @ predicates a.an_formula) rest
         | _ -> cex "accepted outline contains an assumption/spec entry" a) in
    go taken [] spec
  | L [ _; _ ] -> ok 0
  | _ -> bad "sem_outline: %s" (to_string e)


(* ---------- sem_c13_induction ---------- *)
(* Judges what the IMPLEMENTATION emitted for every lemma of an accepted outline, whatever the model
   says about the outline: `(lemma (conjectures..) (consequences..))`.  The property: whoever proves
   the conjectures may use the consequences as axioms afterwards, so in every interpretation in which
   all conjectures are true all consequences must be true.  For a basic lemma both lists carry the
   same formula (nothing to do).  For an inductive lemma the conjectures are base and step and the
   consequence is the lemma `forall N Xs (N >= n .. -> F)`.
   Evaluation: all three CLOSED formulas, exactly as emitted, on ONE finite window whose integers are
   the contiguous interval [n + lo, n + hi] (lo <= 0 < hi; n = the numeral of the first guard of the
   consequence's antecedent, 0 if there is none); every quantifier - outer and inner, every sort -
   ranges over that window, terms are evaluated exactly (M.Eval.ceval), predicates are interpreted by
   finite sets of ground atoms (structured ones: "all integer arguments = / <= / >= k" and the
   complements, per predicate mixes of those, random subsets), placeholders by values of the window.
   No false alarm on a correct inductive lemma `N >= n -> F`: base_W gives F_W(n, xs) for all xs of the
   window; step_W gives F_W(k, xs) -> F_W(k+1, xs) for every k of the window, k >= n (evaluating
   F[N := N+1] at N = k IS evaluating F at N = k+1: terms are exact, the substitution captures
   nothing); so F_W(k, xs) for all k in [n, n + hi] by induction INSIDE the window, which is consequence_W
   (below n the antecedent is false).  The step at the upper edge (k = n + hi, F at n + hi + 1, an
   integer outside the window) is an extra premise only.  Hence every `(cex ..)` is a real defect of
   the emitted formulas w.r.t. window semantics, and the witness is printed. *)
let induction_oracle (seed : int) (conjs : formula list) (conss : formula list) : Sexp.t option * int =
  let fs = conjs @ conss in
  let n = match conss with
    | FQ (QForall, _, FBin (CImp, FAtomic (ACmp (_, g :: _)), _)) :: _ ->
      (match g.gterm_of with GInt (INum z) -> Conv.z_of_coqz z | _ -> Z.zero)
    | _ -> Z.zero in
  let syms = Semlib.take 2 (uniq (List.concat_map symbols fs)) in
  let syms = if syms = [] then [ Semlib.cl "a" ] else syms in
  let preds = uniq (List.concat_map predicates fs) in
  let fcs = uniq (List.concat_map function_constants fs) in
  let st = Semlib.rng_of seed in
  let window lo hi =
    { w_ints = List.init (hi - lo + 1) (fun i -> Conv.coqz_of_z (Z.add n (Z.of_int (lo + i)))); w_syms = syms } in
  let rec cost w = function
    | FAtomic _ -> 1
    | FNot f -> cost w f
    | FBin (_, l, r) -> cost w l + cost w r
    | FQ (_, bs, f) -> List.fold_left (fun a (b : var) -> a * max 1 (List.length (w_sort w b.vsort))) 1 bs * cost w f in
  let budget = 120_000 in
  let rec choose = function
    | [] -> None
    | (lo, hi) :: rest ->
      let w = window lo hi in
      let c = List.fold_left (fun a f -> a + cost w f) 0 fs in
      if c * 12 <= budget then Some (w, hi, max 12 (min 260 (budget / max 1 c))) else choose rest in
  match choose [ (-2, 6); (-1, 4); (0, 3); (0, 2) ] with
  | None -> (None, 0)
  | Some (w, hi, n_interps) ->
    (* ground atoms: arguments from the window and the integer just above it (F at the upper edge + 1) *)
    let above = VNum (Conv.coqz_of_z (Z.add n (Z.of_int (hi + 1)))) in
    let vals = w_general w @ [ above ] in
    let atoms_of (q : pred) =
      let k = Conv.int_of_nat q.parity in
      if k > 2 then [] else List.map (fun t -> (q.psym, t)) (Semlib.tuples vals k) in
    let per_pred = List.map (fun q -> (q, atoms_of q)) preds in
    let ints_of args = List.filter_map (function VNum z -> Some (Conv.z_of_coqz z) | _ -> None) args in
    let shapes =
      List.concat_map (fun z ->
          let z = Conv.z_of_coqz z in
          [ (fun a -> List.for_all (fun x -> Z.equal x z) (ints_of a)); (fun a -> not (List.for_all (fun x -> Z.equal x z) (ints_of a)));
            (fun a -> List.for_all (fun x -> Z.leq x z) (ints_of a)); (fun a -> not (List.for_all (fun x -> Z.leq x z) (ints_of a)));
            (fun a -> List.for_all (fun x -> Z.geq x z) (ints_of a) && ints_of a <> []); (fun a -> List.exists (fun x -> Z.lt x z) (ints_of a)) ])
        (List.stable_sort (fun a b -> Z.compare (Z.abs (Z.sub (Conv.z_of_coqz a) n)) (Z.abs (Z.sub (Conv.z_of_coqz b) n))) w.w_ints) in
    let shapes = Array.of_list ((fun _ -> false) :: (fun _ -> true) :: shapes) in
    let uniform k = List.concat_map (fun (_, atoms) -> List.filter (fun (_, a) -> shapes.(k) a) atoms) per_pred in
    let mixed () = List.concat_map (fun (_, atoms) ->
        let k = Random.State.int st (Array.length shapes) in List.filter (fun (_, a) -> shapes.(k) a) atoms) per_pred in
    let all_atoms = List.concat_map snd per_pred in
    let interps =
      if preds = [] then [ [] ]
      else if List.length all_atoms <= 7 then Semlib.subsets all_atoms
      else begin
        (* empty, full, then the shapes around the base point first (= n, <= n, >= n, then n+1, n-1, ..) *)
        let ns = Array.length shapes in
        let order = List.init ns (fun k -> k) in
        let structured = List.map uniform order in
        let rest = List.init (max 0 (n_interps - ns)) (fun i -> if i mod 3 = 2 then Semlib.random_subset st all_atoms else mixed ()) in
        Semlib.take n_interps (structured @ rest)
      end in
    let fis = if fcs = [] then [ [] ] else [ []; Semlib.random_ffint st w fcs ] in
    let result = ref None and count = ref 0 in
    List.iter (fun fi ->
        List.iter (fun i ->
            if !result = None then begin
              incr count;
              let tr f = ceval w fi i [] f in
              if List.exists (fun c -> not (tr c)) conss && List.for_all tr conjs then
                result := Some (L [ A "cex";
                                    S "in this interpretation every conjecture emitted for the lemma (base case, inductive step) is true and the consequence made available as an axiom is false (all quantifiers over the window)";
                                    L (A "conjectures" :: List.map of_formula conjs); L (A "consequences" :: List.map of_formula conss);
                                    L [ A "window"; Semlib.of_window w ]; L [ A "interpretation"; Semlib.of_fpint i ];
                                    L [ A "placeholders"; Semlib.of_ffint fi ] ])
            end) interps) fis;
    (!result, !count)

let sem_c13_induction (e : Sexp.t) : Sexp.t =
  match e with
  | L [ L [ _; _; _ ]; L [ A "ok"; L [ A "outline"; L fl; L bl; _; _ ]; _ ] ] ->
    let lemma = function
      | L [ A "lemma"; L cj; L cs ] ->
        (List.map (fun x -> (pformula x).pf_formula) cj, List.map (fun x -> (pformula x).pf_formula) cs)
      | x -> bad "sem_c13_induction: lemma: %s" (to_string x) in
    let seed = Semlib.hash_sexp e in
    let total = ref 0 in
    let rec go = function
      | [] -> ok !total
      | x :: rest ->
        let (conjs, conss) = lemma x in
        if conjs = conss then go rest
        else
          (match induction_oracle seed conjs conss with
           | (Some cex, _) -> cex
           | (None, k) -> total := !total + k; go rest) in
    go (fl @ bl)
  | L [ _; _ ] -> ok 0
  | _ -> bad "sem_c13_induction: %s" (to_string e)

(* ---------- sem_c13_order ---------- *)
(* On an accepted external task with a proof outline: the outline problem <dir>_outline_i_j must see
   exactly the stable premises, the premises of the direction, the D definitions of the direction and
   the consequences of the i lemmas before it (every lemma has one consequence); the first final
   problem <dir>_problem_0 sees the stable premises, the premises and all L consequences.  Hence
   #axioms(outline_i_j) - i = #axioms(problem_0) - L + D.  A lemma that is available before its
   conjecture problems are emitted breaks this count. *)
let sem_c13_order (e : Sexp.t) : Sexp.t =
  match e with
  | L [ L [ task; _ ]; L [ A "ok"; _; L (A "problems" :: pbs) ] ] ->
    let t = Ops_tasks.ext_task task in
    let pbs = List.map problem pbs in
    let in_dir fwd (a : aformula_annot) = match a.an_dir with DUniversal -> true | DForward -> fwd | DBackward -> not fwd in
    let result = ref None and count = ref 0 in
    List.iter (fun (prefix, fwd) ->
        let lemmas = List.filter (fun (a : aformula_annot) -> (a.an_role = RLemma || a.an_role = RInductiveLemma) && in_dir fwd a) t.et_proof_outline in
        let defs = List.filter (fun (a : aformula_annot) -> a.an_role = RDefinition && in_dir fwd a) t.et_proof_outline in
        let nl = List.length lemmas and nd = List.length defs in
        match List.find_opt (fun p -> name_of p = prefix ^ "_problem_0") pbs with
        | None -> ()
        | Some final0 ->
          let base = List.length (axioms final0) - nl + nd in
          List.iter (fun (p : problem) ->
              let n = name_of p in
              let pre = prefix ^ "_outline_" in
              if starts_with pre n && !result = None then begin
                let rest = String.sub n (String.length pre) (String.length n - String.length pre) in
                match String.split_on_char '_' rest with
                | [ i; _ ] ->
                  let i = int_of_string i in
                  incr count;
                  let got = List.length (axioms p) in
                  if got - i <> base then
                    result := Some (L [ A "cex"; S "an outline problem does not see exactly the premises, the definitions and the consequences of EARLIER lemmas";
                                        S n; L [ A "axioms"; A (string_of_int got) ]; L [ A "expected"; A (string_of_int (base + i)) ] ])
                | _ -> ()
              end) pbs) [ ("forward", true); ("backward", false) ];
    (match !result with Some r -> r | None -> ok !count)
  | L [ _; _ ] -> ok 0
  | _ -> bad "sem_c13_order: %s" (to_string e)

(* ---------- sem_c13_fresh ---------- *)
(* On an accepted external task with a proof outline: the predicate defined by an accepted
   `definition` must occur in NO formula of the task itself, judged on the problems the
   implementation actually EMITTED (i.e. after `rename_predicates`: a private predicate q/n shared
   by both sides is q_p/n on the program side).  Task formulas of a direction, recovered by position
   (see sem_c13_order): the first #axioms - L axioms of <dir>_problem_0 (stable premises, premises),
   the conjectures of every <dir>_problem_k, and the first #axioms - D - i axioms of
   <dir>_outline_i_j.  Lemma consequences and the definitions themselves are not task formulas. *)
let sem_c13_fresh (e : Sexp.t) : Sexp.t =
  match e with
  | L [ L [ task; _ ]; L [ A "ok"; _; L (A "problems" :: pbs) ] ] ->
    let t = Ops_tasks.ext_task task in
    let pbs = List.map problem pbs in
    let in_dir fwd (a : aformula_annot) = match a.an_dir with DUniversal -> true | DForward -> fwd | DBackward -> not fwd in
    let task_formulas = ref [] and used_defs = ref [] in
    let add (p : problem) (fs : pformula list) = task_formulas := !task_formulas @ List.map (fun a -> (name_of p, a.pf_formula)) fs in
    List.iter (fun (prefix, fwd) ->
        let lemmas = List.filter (fun (a : aformula_annot) -> (a.an_role = RLemma || a.an_role = RInductiveLemma) && in_dir fwd a) t.et_proof_outline in
        let defs = List.filter (fun (a : aformula_annot) -> a.an_role = RDefinition && in_dir fwd a) t.et_proof_outline in
        let nl = List.length lemmas and nd = List.length defs in
        let emitted = ref false in
        List.iter (fun (p : problem) ->
            let n = name_of p in
            let pre_o = prefix ^ "_outline_" and pre_p = prefix ^ "_problem_" in
            if starts_with pre_p n then begin
              emitted := true;
              add p (conjectures p);
              if n = pre_p ^ "0" then add p (Semlib.take (max 0 (List.length (axioms p) - nl)) (axioms p))
            end else if starts_with pre_o n then begin
              emitted := true;
              let rest = String.sub n (String.length pre_o) (String.length n - String.length pre_o) in
              match String.split_on_char '_' rest with
              | [ i; _ ] -> (match int_of_string_opt i with
                  | Some i -> add p (Semlib.take (max 0 (List.length (axioms p) - nd - i)) (axioms p))
                  | None -> ())
              | _ -> ()
            end) pbs;
        if !emitted then used_defs := !used_defs @ List.filter (fun d -> not (List.mem d !used_defs)) defs)
      [ ("forward", true); ("backward", false) ];
    let rec head = function
      | FQ (QForall, _, f) -> head f
      | FBin (CIff, FAtomic (AAtom (p, ts)), _) -> Some { psym = p; parity = Conv.nat_of_int (List.length ts) }
      | _ -> None in
    let count = ref 0 and result = ref None in
    List.iter (fun (d : aformula_annot) ->
        match head d.an_formula with
        | None -> ()
        | Some pr ->
          incr count;
          (match List.find_opt (fun (_, f) -> List.mem pr (predicates f)) !task_formulas with
           | Some (pn, f) when !result = None ->
             result := Some (L [ A "cex"; S "an accepted definition defines a predicate that occurs in the task's own formulas of the emitted problems";
                                 of_pred pr; L [ A "definition"; of_annot d ]; L [ A "problem"; S pn ]; L [ A "task-formula"; of_formula f ] ])
           | _ -> ())) !used_defs;
    (match !result with Some r -> r | None -> ok !count)
  | L [ _; _ ] -> ok 0
  | _ -> bad "sem_c13_fresh: %s" (to_string e)

(* ---------- sem_c11 ---------- *)
(* the payload of an error of ExternalEquivalenceTask::decompose, judged against the task by hand
   (no use of the payload functions of Model/External.v); Some reason = wrong *)
let c11_payload (t : M.External.ext_task) is_tight hpr (v : string) (payload : Sexp.t list) : string option =
  let ug = t.et_user_guide in
  let inputs = List.filter_map (function UGInput p -> Some p | _ -> None) ug in
  let outputs = List.filter_map (function UGOutput p -> Some p | _ -> None) ug in
  let ug_formulas = List.filter_map (function UGFormula a -> Some a | _ -> None) ug in
  let spec_program = match t.et_specification with M.Datatypes.Coq_inl p -> [ p ] | _ -> [] in
  let spec_formulas = match t.et_specification with M.Datatypes.Coq_inr s -> s | _ -> [] in
  let programs = t.et_program :: spec_program in
  let heads (p : M.Asp.program) =
    List.filter_map (fun (r : M.Asp.rule) -> match r.rhead with
        | M.Asp.HBasic a | M.Asp.HChoice a -> Some { psym = a.apred; parity = Conv.nat_of_int (List.length a.aterms) }
        | M.Asp.HFalsity -> None) p in
  let is_assumption (a : aformula_annot) = a.an_role = RAssumption in
  let check l = List.fold_left (fun acc (c, why) -> match acc with Some _ -> acc | None -> if c then None else Some why) None l in
  let preds_payload k = match payload with [ ps ] -> k (list_of pred ps) | _ -> Some "payload is not one list of predicates" in
  let annot_payload k = match payload with [ a ] -> k (annot a) | _ -> Some "payload is not one annotated formula" in
  let same_set a b = List.for_all (fun x -> List.mem x b) a && List.for_all (fun x -> List.mem x a) b in
  let safe f = try f () with Ops_tasks.Missing _ -> true in
  match v with
  | "UnsupportedFormulaRepresentation" -> check [ (payload = [], "unexpected payload"); (t.et_repr = M.Strong.ReprMu, "the representation is tau-star") ]
  | "NonTightProgram" | "ProgramContainsPrivateRecursion" ->
    (match payload with
     | [ p ] ->
       let p = program p in
       check [ (List.mem p programs, "the program is neither the program nor the specification program of the task");
               (v <> "NonTightProgram" || not (is_tight p), "the program is tight");
               (v <> "NonTightProgram" || not t.et_bypass_tightness, "--bypass-tightness is set");
               (v <> "ProgramContainsPrivateRecursion"
                || (p = t.et_program && safe (fun () -> hpr p (M.External.task_prog_private t)))
                || (List.mem p spec_program && safe (fun () -> hpr p (M.External.task_spec_private t))),
                "the program has no private recursion") ]
     | _ -> Some "payload is not one program")
  | "InputOutputPredicatesOverlap" ->
    preds_payload (fun ps -> check [
        (ps <> [], "empty list");
        (List.for_all (fun p -> List.mem p inputs && List.mem p outputs) ps, "a predicate is not declared both input and output");
        (List.for_all (fun p -> not (List.mem p outputs) || List.mem p ps) inputs, "an overlapping predicate is missing") ])
  | "InputPredicateInRuleHead" ->
    preds_payload (fun ps -> check [
        (ps <> [], "empty list");
        (List.for_all (fun p -> List.mem p inputs) ps, "a predicate is not a declared input");
        (List.exists (fun prog -> same_set ps (List.filter (fun p -> List.mem p (heads prog)) inputs)) programs,
         "not the input predicates heading a rule of the program or of the specification program") ])
  | "OutputPredicateInSpecificationAssumption" | "OutputPredicateInUserGuideAssumption" ->
    let fs = if v = "OutputPredicateInSpecificationAssumption" then spec_formulas else ug_formulas in
    preds_payload (fun ps -> check [
        (ps <> [], "empty list");
        (List.for_all (fun p -> List.mem p outputs) ps, "a predicate is not a declared output");
        (List.exists (fun a -> is_assumption a && same_set ps (List.filter (fun p -> List.mem p outputs) (predicates a.an_formula))) fs,
         "not the output predicates of one assumption") ])
  | "PlaceholdersWithIdenticalNamesDifferentSorts" ->
    (match payload with
     | [ n ] ->
       let n = str n in
       let sorts = uniq (List.filter_map (function UGPlaceholder (m, s) when m = n -> Some s | _ -> None) ug) in
       check [ (List.length sorts >= 2, "the user guide does not declare this name with two sorts") ]
     | _ -> Some "payload is not one name")
  | "AssumptionContainsNonInputSymbols" ->
    annot_payload (fun a ->
        let private_of_program =
          List.filter (fun p -> not (List.mem p inputs || List.mem p outputs)) (M.Asp.program_preds t.et_program) in
        let foreign allowed = List.exists (fun p -> not (List.mem p allowed)) (predicates a.an_formula) in
        check [ (is_assumption a, "not an assumption");
                ((List.mem a ug_formulas && foreign inputs) || (List.mem a spec_formulas && foreign (inputs @ private_of_program)),
                 "not an assumption of the user guide / specification with a predicate that is not allowed there") ])
  | "SpecificationContainsUnsupportedRoles" ->
    annot_payload (fun a -> check [ (List.mem a spec_formulas, "not a formula of the specification");
                                    (a.an_role <> RAssumption && a.an_role <> RSpec, "the role is supported") ])
  | "ProofOutlineError" ->
    (* the taken predicates at that point depend on the translations: not re-derived here *)
    outline_payload (M.Outline.ph_of_fconsts (M.External.ug_placeholders ug)) t.et_proof_outline None payload
  | _ -> Some "unknown variant"

let sem_c11 (e : Sexp.t) : Sexp.t =
  match e with
  | L [ _; L [ A "none" ] ] -> ok 0
  | L [ L [ task; comps ]; out ] ->
    let t = Ops_tasks.ext_task task in
    let cs = Ops_tasks.components comps in
    let tight = (let rec find = function
        | L (A "is_tight" :: es) :: _ -> List.map (function L [ p; b ] -> (program p, boolv b) | e -> bad "is_tight: %s" (to_string e)) es
        | _ :: r -> find r | [] -> [] in find cs) in
    let privrec = (let rec find = function
        | L (A "has_private_recursion" :: es) :: _ ->
          List.map (function L [ p; ps; b ] -> ((program p, list_of pred ps), boolv b) | e -> bad "has_private_recursion: %s" (to_string e)) es
        | _ :: r -> find r | [] -> [] in find cs) in
    let is_tight p = Ops_tasks.lookup "is_tight" tight p in
    let hpr p ps = Ops_tasks.lookup "has_private_recursion" privrec (p, ps) in
    let conds = [
      ("both programs tight unless --bypass-tightness", "NonTightProgram", (fun () -> M.External.c_tight is_tight t));
      ("no private recursion", "ProgramContainsPrivateRecursion", (fun () -> M.External.c_no_private_recursion hpr t));
      ("no input predicate heads a rule", "InputPredicateInRuleHead", (fun () -> M.External.c_no_input_in_head t));
      ("input and output declarations disjoint", "InputOutputPredicatesOverlap", (fun () -> M.External.c_io_disjoint t));
      ("user-guide assumptions mention only input predicates", "AssumptionContainsNonInputSymbols/ug", (fun () -> M.External.c_ug_assumptions_inputs_only t));
      ("specification assumptions mention no output predicate", "OutputPredicateInSpecificationAssumption", (fun () -> M.External.c_spec_assumptions_no_output t));
      ("no placeholder declared with two sorts", "PlaceholdersWithIdenticalNamesDifferentSorts", (fun () -> M.External.c_placeholders_single_sorted t)) ] in
    (try
       match out with
       | L (A "ok" :: _) ->
         (match List.find_opt (fun (_, _, c) -> not (c ())) conds with
          | Some (what, _, _) -> L [ A "cex"; S "problems were emitted although a condition is violated"; S what ]
          | None -> ok 7)
       | L (A "err" :: S v :: payload) ->
         (* a refusal must be justified: the condition the error names is indeed violated ... *)
         (match List.find_opt (fun (_, n, _) -> n = v) conds with
          | Some (what, _, c) when c () -> L [ A "cex"; S "refused although the named condition holds"; S what ]
          | _ ->
            (* ... and the value the error carries names the violation (audit B16): an independent
               check of the payload against the task *)
            (match c11_payload t is_tight hpr v payload with
             | Some why -> L (A "cex" :: S "the value carried by the error does not name a violation of the task" :: S v :: S why :: payload)
             | None -> ok 1))
       | _ -> ok 0
     with Ops_tasks.Missing n -> L [ A "cex"; S "component not supplied"; S n ])
  | _ -> bad "sem_c11: %s" (to_string e)

(* ---------- sem_c19_external ---------- *)
let rec iterm_arith = function INum _ | IFun _ | IVar _ -> false | _ -> true
let gterm_arith = function GInt t -> iterm_arith t | _ -> false
let aformula_arith = function
  | AAtom (_, ts) -> List.exists gterm_arith ts
  | ACmp (t, gs) -> gterm_arith t || List.exists (fun g -> gterm_arith g.gterm_of) gs
  | _ -> false
let rec formula_arith = function
  | FAtomic a -> aformula_arith a
  | FNot f -> formula_arith f
  | FBin (_, l, r) -> formula_arith l || formula_arith r
  | FQ (_, _, f) -> formula_arith f

let sem_c19_external (e : Sexp.t) : Sexp.t =
  match e with
  | L [ _; L [ A "none" ] ] | L [ _; L (A "err" :: _) ] | L [ _; L [ A "panic" ] ] -> ok 0
  | L [ _; fams ] ->
    let fams = families fams in
    let all_formulas = uniq (List.concat_map (fun (_, ps) -> List.concat_map problem_formulas ps) fams) in
    match List.find_opt (fun q -> not (one_conjecture q)) (List.concat_map snd fams) with
    | Some q -> L [ A "cex"; S "an emitted problem does not have exactly one conjecture"; of_problem q ]
    | None ->
    if List.exists formula_arith all_formulas then ok 0
    else begin
      match exact_window all_formulas with
      | None -> ok 0
      | Some w ->
        let nvals = List.length (w_general w) in
        let depth = List.fold_left (fun d f -> max d (qdepth f)) 0 all_formulas in
        if float_of_int nvals ** float_of_int (min depth 6) > 40000. || depth > 7 then ok 0
        else begin
          let st = Semlib.rng_of (Semlib.hash_sexp e) in
          let ps = uniq (List.concat_map predicates all_formulas) in
          let fcs = uniq (List.concat_map function_constants all_formulas) in
          let atoms = Semlib.ground_atoms st ps (Semlib.shuffle st (w_general w)) 8 in
          let count = ref 0 and result = ref None in
          List.iter (fun m ->
            if !result = None then begin
              let fi = Semlib.random_ffint st w fcs in
              let holds = make_holds w fi m in
              let verdicts = List.map (fun (flags, ps) -> (flags, List.exists (refutes holds) ps)) fams in
              incr count;
              match verdicts with
              | (_, v0) :: rest ->
                (match List.find_opt (fun (_, v) -> v <> v0) rest with
                 | Some (flags, v) ->
                   result := Some (L [ A "cex"; L [ A "I"; Semlib.of_fpint m ]; L [ A "placeholders"; Semlib.of_ffint fi ];
                                       L [ A "window"; Semlib.of_window w ];
                                       L [ A "family"; fst (List.hd verdicts); A "refuted"; of_boolv v0 ];
                                       L [ A "family"; flags; A "refuted"; of_boolv v ] ])
                 | None -> ())
              | [] -> ()
            end) (Semlib.subsets atoms);
          match !result with Some r -> r | None -> ok !count
        end
    end
  | _ -> bad "sem_c19_external: %s" (to_string e)


(* ---------- sem_c02 ---------- *)
(* On an accepted program-vs-program task (structural-semantic check of the emitted problems):
   1. no completed definition of a PRIVATE predicate is a conjecture (private definitions are
      assumptions of both directions);
   2. no problem contains two different axioms that are completed definitions of the same private
      predicate (the private predicates of the two sides are kept apart by the renaming).
   The known class F9 (the renamed name p_p already exists) violates 2; [all] reports it. *)
let find_sub (s : string) (sub : string) : int option =
  let n = String.length s and m = String.length sub in
  let rec go i = if i + m > n then None else if String.sub s i m = sub then Some i else go (i + 1) in
  go 0
let strip_num_suffix (s : string) : (string * int) option =
  match String.rindex_opt s '_' with
  | Some i when i + 1 < String.length s ->
    (match int_of_string_opt (String.sub s (i + 1) (String.length s - i - 1)) with
     | Some n -> Some (String.sub s 0 i, n) | None -> None)
  | _ -> None
let sem_c02_gen ~(all : bool) (e : Sexp.t) : Sexp.t =
  match e with
  | L [ L [ task; _ ]; L [ A "ok"; _; L (A "problems" :: pbs) ] ] ->
    let t = Ops_tasks.ext_task task in
    (match t.et_specification with
     | M.Datatypes.Coq_inr _ -> ok 0
     | M.Datatypes.Coq_inl left ->
       let public = M.External.ug_public_predicates t.et_user_guide in
       let sp = M.External.task_spec_private t and pp = M.External.task_prog_private t in
       let both = M.External.iset_inter pred_dec sp pp in
       let renamed (p : pred) = if List.mem p both then { p with psym = p.psym @ Semlib.cl "_p" } else p in
       let right_private = List.map renamed pp in
       let privates = sp @ right_private in
       (* F9 class: a renamed name already names a predicate of the task *)
       let clash = List.exists (fun p -> let r = renamed p in List.mem r sp || List.mem r pp || List.mem r public) both in
       let pbs = List.map problem pbs in
       let result = ref None in
       List.iter (fun (p : problem) ->
           if !result = None then begin
             (* 1 *)
             List.iter (fun (a : pformula) ->
                 if a.pf_role = PConjecture && !result = None then begin
                   let name = string_of_cl a.pf_name in
                   match find_sub name "completed_definition_of_" with
                   | None -> ()
                   | Some i ->
                     let rest = String.sub name (i + 24) (String.length name - i - 24) in
                     let cands = (match strip_num_suffix rest with
                         | Some (s1, n1) -> (s1, n1) :: (match strip_num_suffix s1 with Some (s2, n2) -> [ (s2, n2) ] | None -> [])
                         | None -> []) in
                     if List.exists (fun (s, n) -> List.mem { psym = Semlib.cl s; parity = Conv.nat_of_int n } privates
                                                   && not (List.mem { psym = Semlib.cl s; parity = Conv.nat_of_int n } public)) cands
                     then result := Some (L [ A "cex"; S "completed definition of a private predicate emitted as conjecture";
                                              of_str p.pb_name; of_pformula a ])
                 end) p.pb_formulas;
             (* 2 *)
             if (all || not clash) && !result = None then begin
               let defs = List.filter_map (fun (a : pformula) ->
                   if a.pf_role = PAxiom && find_sub (string_of_cl a.pf_name) "completed_definition_of_" <> None then
                     (match M.External.head_predicate a.pf_formula with
                      | Some hp when List.mem hp privates -> Some (hp, a)
                      | _ -> None)
                   else None) p.pb_formulas in
               List.iter (fun (hp, (a : pformula)) ->
                   match List.find_opt (fun (hp', (b : pformula)) -> hp' = hp && b.pf_formula <> a.pf_formula) defs with
                   | Some (_, b) when !result = None ->
                     result := Some (L [ A "cex"; S "two different completed definitions of one private predicate are axioms of a problem (private predicates of the two sides merged)";
                                         of_str p.pb_name; of_pred hp; of_pformula a; of_pformula b ])
                   | _ -> ()) defs
             end
           end) pbs;
       (match !result with Some r -> r | None -> ok (List.length pbs)))
  | L [ _; _ ] -> ok 0
  | _ -> bad "sem_c02: %s" (to_string e)

let () =
  Ops.register "sem_c02" (sem_c02_gen ~all:false);
  Ops.register "sem_c02_all" (sem_c02_gen ~all:true);
  Ops.register "sem_break" sem_break;
  Ops.register "sem_decompose" sem_decompose;
  Ops.register "sem_c19_strong" sem_c19_strong;
  Ops.register "sem_c03" (sem_c03_gen ~all:false);
  Ops.register "sem_c03_all" (sem_c03_gen ~all:true);
  Ops.register "sem_outline" sem_outline_gen;
  Ops.register "sem_outline_all" sem_outline_gen;
  Ops.register "sem_c11" sem_c11;
  Ops.register "sem_c13_induction" sem_c13_induction;
  Ops.register "sem_c13_order" sem_c13_order;
  Ops.register "sem_c13_fresh" sem_c13_fresh;
  Ops.register "sem_c19_external" sem_c19_external
let init () = ()
