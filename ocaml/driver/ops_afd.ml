(* Audit findings A15 / A19 / A20 -- model side of harness/src/ops/afd.rs (wire formats there).

     fol_output_reparses       (<command> "text") -> (skip) | (panic) | (out-of-fuel)
                                                   | (out (theory G) "printed" <verdict>)
        = Model/CliOut.output_theory, then the model printer and the model parser on the printed text.
     sem_fol_output_reparses   ((<command> "text") <implementation output>)
        judges the IMPLEMENTATION's answer: (ok 1) re-parsed to the same tree; (ok 0) skipped, or the
        printed theory G is in a recorded defect class of C15 (Model/FolClass.known_class_theory: F7b,
        C15-RIMP); (cex ...) otherwise -- in particular when G is not even well-formed (a variable
        named `_`, finding F18).
        Stronger than the class test alone: when the decidable premise ON THE INPUT of a theorem of
        Properties/C15out.v holds (tau-star: no_keyword_predicate; natural, mu: no_keyword_front; gamma,
        completion: the input theory is outside the classes) an output that is not fed back is a
        counterexample even if it lies in a recorded class; so is an output of natural that is fed
        back although no_keyword_front fails (C15_natural_output_F7b_iff).
     sem_fol_output_reparses_strict   the same without the class exclusion (known-finding replay).

     asp_node_roundtrip        (<kind> "text") -> (skip err|panic) | (rt <tree> "printed" <verdict>)
        = Model/AspNodes.parse_node_text / display_node.
     sem_asp_node_roundtrip    ((<kind> "text") <implementation output>): (ok 1) | (ok 0) [skipped, or
        the tree is in class F7 / F7d: AspNodes.node_known_class] | (cex ...)
     sem_asp_node_roundtrip_strict    without the class exclusion. *)
open Sexp
open Conv
open M.Fol

(* ------------------------------------------------------------------ C15 *)
let fol_output_reparses (e : Sexp.t) : Sexp.t =
  match e with
  | L [ c; (S _ as t) ] ->
    (match M.CliOut.output_theory (Ops_cliglue.command c) (str t) with
     | None -> bad "fol_output_reparses: the command prints no theory: %s" (to_string c)
     | Some (M.Cli.Stop M.Cli.Error) -> L [ A "skip" ]
     | Some (M.Cli.Stop M.Cli.Panic) -> L [ A "panic" ]
     | Some (M.Cli.Stop M.Cli.OutOfFuel) -> L [ A "out-of-fuel" ]
     | Some (M.Cli.Stop (M.Cli.Stdout _)) -> bad "fol_output_reparses: unexpected"
     | Some (M.Cli.Got g) ->
       let printed = M.FolPrint.show_theory g in
       let verdict =
         match M.FolParse.parse_theory_str printed with
         | M.FolParse.PR_err -> L [ A "rejected" ]
         | M.FolParse.PR_panic -> L [ A "panic" ]
         | M.FolParse.PR_oof -> bad "model parser ran out of fuel"
         | M.FolParse.PR_ok g2 ->
           if g2 <> g then L [ A "changed"; of_theory g2 ]
           else if M.FolPrint.show_theory g2 <> printed then L [ A "not-idempotent"; of_str (M.FolPrint.show_theory g2) ]
           else L [ A "ok" ]
       in
       L [ A "out"; of_theory g; of_str printed; verdict ])
  | e -> bad "fol_output_reparses: %s" (to_string e)

(* Which theorem of Properties/C15out.v promises that the output of this command on this input is fed
   back: the decidable premise ON THE INPUT holds (evaluated with the model parsers and the extracted
   predicates).  None: no theorem applies (simplify: there is none; a premise does not hold). *)
let promised (cmd : Sexp.t) (text : char list) : string option =
  let program k =
    match M.AspParse.parse_program_text text with
    | M.AspParse.POk p -> k p
    | _ -> None
  in
  let theory_in thm =
    match M.FolParse.parse_theory_str text with
    | M.FolParse.PR_ok t -> if M.FolClass.known_class_theory t = None then Some thm else None
    | _ -> None
  in
  match cmd with
  | L [ A "translate"; A "tau-star" ] ->
    program (fun p -> if M.CliOut.no_keyword_predicate p then Some "C15_translate_output_reparses" else None)
  | L [ A "translate"; A "natural" ] ->
    program (fun p -> if M.FolOutClass.no_keyword_front p then Some "C15_natural_output_reparses" else None)
  | L [ A "translate"; A "mu" ] ->
    program (fun p -> if M.FolOutClass.no_keyword_front p then Some "C15_mu_output_reparses" else None)
  | L [ A "translate"; A "gamma" ] -> theory_in "C15_gamma_output_reparses"
  | L [ A "translate"; A "completion" ] -> theory_in "C15_completion_output_reparses"
  | _ -> None

(* the premise of C15_natural_output_F7b_iff fails: the output of natural MUST be in class F7b *)
let natural_outside_premise (cmd : Sexp.t) (text : char list) : bool =
  match cmd with
  | L [ A "translate"; A "natural" ] ->
    (match M.AspParse.parse_program_text text with
     | M.AspParse.POk p -> not (M.FolOutClass.no_keyword_front p)
     | _ -> false)
  | _ -> false

let sem_output ~(strict : bool) (e : Sexp.t) : Sexp.t =
  match e with
  | L [ _; L [ A "skip" ] ] -> L [ A "ok"; A "0" ]
  | L [ L [ cmd; (S _ as txt) ]; L [ A "out"; g; printed; verdict ] ] ->
    let t = theory g in
    let wf = M.FolClass.wf_theory t in
    let cls = M.FolClass.known_class_theory t in
    let cls_sexp = match cls with Some c -> of_str c | None -> A "none" in
    if verdict = L [ A "ok" ] then
      (* fed back.  (An output in a recorded class can be fed back: the class F7b is a sound
         over-approximation -- a keyword-prefixed function constant behind an opening parenthesis that the
         printer keeps, `(notc$i - I$i) * 0 != X`, is classified but read back correctly; about 1 case in
         200 000.)  For natural the premise is exact and its outputs have no such parentheses. *)
      if (not strict) && natural_outside_premise cmd (str txt) then
        L [ A "cex"; L [ A "no_keyword_front-fails-but-the-output-of-natural-is-fed-back"; A "C15_natural_output_F7b_iff" ];
            L [ A "printed"; printed ]; L [ A "class"; cls_sexp ] ]
      else L [ A "ok"; A "1" ]
    else
      (match (if strict then None else promised cmd (str txt)) with
       | Some thm ->
         (* also when the output is in a recorded class: the theorem says it is not *)
         L [ A "cex";
             L [ A "the-premise-of-a-theorem-holds-but-the-printed-output-is-not-fed-back"; A thm; verdict ];
             L [ A "printed"; printed ]; L [ A "class"; cls_sexp ] ]
       | None ->
         (match (if strict then None else cls) with
          | Some _ when wf -> L [ A "ok"; A "0" ]
          | c ->
            L [ A "cex";
                L [ A "printed-output-does-not-reparse-to-the-same-theory"; verdict ];
                L [ A "printed"; printed ];
                L [ A "well-formed"; of_boolv wf ];
                L [ A "class"; (match c with Some c -> of_str c | None -> A "none") ] ]))
  | L [ _; L [ A "panic" ] ] -> L [ A "cex"; L [ A "implementation-panics" ] ]
  | e -> bad "sem_fol_output_reparses: %s" (to_string e)

(* ------------------------------------------------------------------ C14 *)
open M.AspNodes

let kind = function
  | A "term" -> Some KTerm | A "atom" -> Some KAtom | A "literal" -> Some KLiteral
  | A "comparison" -> Some KComparison | A "atomic_formula" -> Some KAtomicFormula
  | A "head" -> Some KHead | A "body" -> Some KBody | A "rule" -> Some KRule
  | A "program" -> None
  | e -> bad "node kind: %s" (to_string e)

let of_node = function
  | NTerm t -> of_term t
  | NAtom a -> of_atom a
  | NLiteral l -> of_bformula (M.Asp.BLit l)
  | NComparison c -> of_bformula (M.Asp.BCmp c)
  | NAtomicFormula b -> of_bformula b
  | NHead h -> of_head h
  | NBody b -> L (A "body" :: List.map of_bformula b)
  | NRule r -> of_rule r

let node_of (k : Sexp.t) (e : Sexp.t) : node option =
  match k with
  | A "term" -> Some (NTerm (term e))
  | A "atom" -> Some (NAtom (atom e))
  | A "literal" -> (match bformula e with M.Asp.BLit l -> Some (NLiteral l) | _ -> bad "literal expected")
  | A "comparison" -> (match bformula e with M.Asp.BCmp c -> Some (NComparison c) | _ -> bad "comparison expected")
  | A "atomic_formula" -> Some (NAtomicFormula (bformula e))
  | A "head" -> Some (NHead (head e))
  | A "body" -> (match e with L (A "body" :: fs) -> Some (NBody (List.map bformula fs)) | _ -> bad "body expected")
  | A "rule" -> Some (NRule (rule e))
  | _ -> None

let text_of e = match e with S s | A s -> cl_of_string s | e -> bad "text expected: %s" (to_string e)

let pres_tag = function
  | M.AspParse.POk _ -> "ok" | M.AspParse.PFail -> "err" | M.AspParse.PPanic -> "panic"

let asp_node_roundtrip (e : Sexp.t) : Sexp.t =
  match e with
  | L [ k; t ] ->
    (match kind k with
     | Some kd ->
       (match parse_node_text kd (text_of t) with
        | M.AspParse.PFail -> L [ A "skip"; A "err" ]
        | M.AspParse.PPanic -> L [ A "skip"; A "panic" ]
        | M.AspParse.POk n ->
          let printed = display_node n in
          let verdict =
            match parse_node_text kd printed with
            | M.AspParse.PFail -> L [ A "rejected" ]
            | M.AspParse.PPanic -> L [ A "panic" ]
            | M.AspParse.POk n2 ->
              if n2 <> n then L [ A "changed"; of_node n2 ]
              else if display_node n2 <> printed then L [ A "not-idempotent"; of_str (display_node n2) ]
              else L [ A "ok" ]
          in
          L [ A "rt"; of_node n; of_str printed; verdict ])
     | None ->
       (* program: the entry point of Model/AspParse.v *)
       (match M.AspParse.parse_program_text (text_of t) with
        | M.AspParse.PFail -> L [ A "skip"; A "err" ]
        | M.AspParse.PPanic -> L [ A "skip"; A "panic" ]
        | M.AspParse.POk p ->
          let printed = M.AspPrint.display_program p in
          let verdict =
            match M.AspParse.parse_program_text printed with
            | M.AspParse.PFail -> L [ A "rejected" ]
            | M.AspParse.PPanic -> L [ A "panic" ]
            | M.AspParse.POk p2 ->
              if p2 <> p then L [ A "changed"; of_program p2 ]
              else if M.AspPrint.display_program p2 <> printed then L [ A "not-idempotent"; of_str (M.AspPrint.display_program p2) ]
              else L [ A "ok" ]
          in
          L [ A "rt"; of_program p; of_str printed; verdict ]))
  | e -> bad "asp_node_roundtrip: %s" (to_string e)

let sem_node ~(strict : bool) (e : Sexp.t) : Sexp.t =
  match e with
  | L [ _; L [ A "skip"; _ ] ] -> L [ A "ok"; A "0" ]
  | L [ _; L [ A "rt"; _; _; L [ A "ok" ] ] ] -> L [ A "ok"; A "1" ]
  | L [ L [ k; _ ]; L [ A "rt"; tree; printed; verdict ] ] ->
    let cls =
      if strict then None
      else
        match node_of k tree with
        | Some n -> node_known_class n
        | None -> if M.AspPrint.keyword_ident (program tree) then Some (cl_of_string "F7") else None
    in
    (match cls with
     | Some _ -> L [ A "ok"; A "0" ]
     | None ->
       L [ A "cex"; L [ A "printed-node-does-not-reparse-to-the-same-tree"; verdict ];
           L [ A "printed"; printed ]; L [ A "tree"; tree ] ])
  | e -> bad "sem_asp_node_roundtrip: %s" (to_string e)

(* fol_output_promised: (<command> "text") -> (promised "<theorem>") | (none)
   the theorem of Properties/C15out.v whose premise on the INPUT holds (used by props/C15base.py on the
   real binary: promised => the printed output must be a fixed point of `parse --as theory`) *)
let fol_output_promised (e : Sexp.t) : Sexp.t =
  match e with
  | L [ cmd; (S _ as txt) ] ->
    (match promised cmd (str txt) with
     | Some thm -> L [ A "promised"; of_str (cl_of_string thm) ]
     | None -> L [ A "none" ])
  | e -> bad "fol_output_promised: %s" (to_string e)

let () =
  Ops.register "fol_output_promised" fol_output_promised;
  Ops.register "fol_output_reparses" fol_output_reparses;
  Ops.register "sem_fol_output_reparses" (sem_output ~strict:false);
  Ops.register "sem_fol_output_reparses_strict" (sem_output ~strict:true);
  Ops.register "asp_node_roundtrip" asp_node_roundtrip;
  Ops.register "sem_asp_node_roundtrip" (sem_node ~strict:false);
  Ops.register "sem_asp_node_roundtrip_strict" (sem_node ~strict:true)
let init () = ()
