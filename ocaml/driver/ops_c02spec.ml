(* Model-side operations of the cluster `c02spec`: property C02 for SPECIFICATION-vs-program tasks.

     external_decompose_spec   the model side of the stream of harness/src/ext/c02spec.rs:
                               Model/ExternalFull.external_decompose_full (= Ops_compext)
     sem_c02_spec              input ((external (spec-spec S) P ug () dec dir repr bypass simplify break) R),
                               R the implementation's own decompose() result
     sem_c02_spec_symbols      the strict variant (printed constant names at face value: finding F8c)
     sem_c02_spec_renaming     the strict variant without the class test F9 (replay oracle of finding F9b)
     sem_c02_spec_backward_assumptions
                               the variant that reads `assumption(backward)` of a specification as a premise of the
                               backward direction - what the warning text suggests; anthem drops it from BOTH
                               directions (replay oracle of finding F26: spurious countermodels, incompleteness only)
     mk_spec_task              (harness only) texts -> wire form of a task
     sem_c02_spec_class        the guard of sem_c02_spec alone: (class "<name>")

   THE STATEMENT TESTED (property C02, specification side; read off
   ValidatedExternalEquivalenceTask::decompose and Model/External.v validated_left_step /
   validated_right_step; proved in Properties/C02spec.v: C02spec_refuted_iff_difference per
   interpretation of the problems' vocabulary, C02spec_external_equivalence on the two sides).
   Let S' = the specification with the placeholders replaced, uga = the user-guide assumptions,
     A_u  = assumption-role formulas of S' annotated universal      (stable premises)
     A_f  = assumption-role formulas of S' annotated forward        (forward premises)
            (an assumption annotated backward is IGNORED by anthem, with a warning)
     Sp_f = spec-role formulas of S' annotated universal or forward (forward premises)
     Sp_b = spec-role formulas of S' annotated universal or backward (backward conclusions)
   One enumerated interpretation N keeps the two sides apart (the private predicates of the program
   are tagged) and is read three ways:
     J = the specification side: public and spec-private predicates        (the user's formulas)
     T = the program side: public predicates and the program's private predicates under their OWN
         names, on the vocabulary of P (its predicates and all public predicates)
     M = the interpretation of the EMITTED problems: J plus the program's private extents under the
         names they have in the problems (p_p when the specification has a private p/n as well)
   For EVERY such N and every valuation FI of the placeholders:

     some emitted backward problem is refuted by (FI, M)   (all axioms true, the conjecture false)
        iff   the direction is enabled, J |= uga, J |= A_u,
              T is a stable model of P[FI] + its input facts        (external stable model)
              and J falsifies some formula of Sp_b

     some emitted forward problem is refuted by (FI, M)
        iff   the direction is enabled, J |= uga, J |= A_u, J |= A_f, J |= Sp_f,
              T is SUPPORTED on P's private predicates (it carries the unique private extension of
              its public part: C02_private_extension_unique / _exists)
              and T is not an external stable model of P[FI]
              (hence NO interpretation with J's public part is one: C02_external_stable_public_part)

   Outside the class F9 the map N -> M is a bijection onto the interpretations of the problems'
   vocabulary, so this is the per-interpretation statement of the property text; spec-private
   predicates need no guard (M interprets them; they are free predicates of the problems as well).
   Inside F9 (a renamed name p_p already names a predicate of the task) the map merges predicates:
   the regular op excuses exactly that class by the decidable class test of sem_c02 / sem_c02_behaviour;
   `sem_c02_spec_renaming` does not and is the replay oracle of the recorded finding F9b.

   BOTH sides are computed independently of the implementation's pipeline: the left side by
   M.Eval.ceval on the implementation's problems; the right side by ceval on the USER's formulas
   (placeholders replaced by Model/Outline.rp_spec) and by brute-force stable models of the program
   from the executable reference semantics (Model/EvalAspTasks.ref_eval, as sem_c02_behaviour):
   (T,T) |= P and no H with T's input facts <= H < T has (H,T) |= P.  "Supported on the private
   predicates" is computed the same way: T is a stable model of the rules of P with a private
   head, all non-private atoms of T taken as facts (tight + no private recursion: stable =
   supported, Fages).

   WINDOW DISCIPLINE (as sem_c19_external / sem_c02_behaviour): arithmetic-free tasks only; the
   window is [Ops_tasks_sem.exact_window] = #inf, #sup and ALL numerals and symbols of the task
   (problems, specification, user guide, program), at least one numeral and one symbol;
   quantifiers and program variables range over the window; placeholders take every window value
   of their sort (all combinations; sampled above 12).  The test is therefore the statement
   RELATIVISED to a finite sub-domain of the standard domain that contains every constant of the
   task.  In the arithmetic-free fragment no term evaluates outside the sub-domain, both sides of
   the iff are evaluated over the same sub-domain, and the proofs of layers (a)-(d) do not depend
   on the domain beyond that: the relativised statement is a consequence of the same argument,
   and a relativised counterexample is what a defect of the pipeline produces (the witness of
   seeded/C02_r4 is one: p = {1}, q = the complement of p).  It is a search for counterexamples,
   not part of the proof.  All ground atoms of the vocabulary over the window are enumerated when
   there are at most [cap] of them (cap chosen so that interpretations x placeholder valuations
   stays <= 2048), otherwise [cap] of them round-robin over the predicates; the remaining atoms are
   false.

   GUARD (decidable classes; `sem_c02_spec_class` names the class of a case, props/C02spec.py counts
   them into the evidence):
     not-spec          program-vs-program task (sem_c02_behaviour)
     not-accepted      the implementation did not return problems
     outline           a proof outline (C13)
     non-tight         the program is not tight (--bypass-tightness)
     arithmetic        an arithmetic term in the program, the specification, the user guide or a problem
     F9                a renamed private predicate p_p already names a predicate of the task (known finding F9;
                       the strict test of that class is sem_c02_all)
     F8c-ambiguous     a constant s equals a 0-ary predicate and a constant s__s exists besides (known finding
                       F8c; otherwise the regular op reads s__s as s and still tests the rest)
     (no class for a declared output predicate that occurs neither in the specification nor in the
      program: since /repo 18b2e85 it gets no completed definition and is outside the vocabulary of
      the program side - Proofs/C02Full.v ext_voc = program predicates, inputs, OCCURRING outputs -
      so T is read on the occurring outputs only and the case is evaluated like any other)
     window            more than 4 numerals or 4 symbols, or the quantifier cost bound
     evaluated         everything else *)
open Sexp
open Conv
open M.Fol
open M.Problem

let cl = Semlib.cl
let uniq = Ops_tasks_sem.uniq
let ok n = L [ A "ok"; A (string_of_int n) ]
let guarded cls = L [ A "ok"; A "0"; L [ A "class"; S cls ] ]

(* ---------- placeholders as values in a program (Proofs/PlaceholderOk.v ph_program) ---------- *)
let pterm_of_gval : M.Domain.gval -> M.Asp.pterm = function
  | M.Domain.VInf -> M.Asp.PInf | M.Domain.VSup -> M.Asp.PSup
  | M.Domain.VNum z -> M.Asp.PNum z | M.Domain.VSym s -> M.Asp.PSym s
let ph_program (fi : M.Eval.ffint) (phs : fconst list) (p : M.Asp.program) : M.Asp.program =
  let open M.Asp in
  let pterm = function
    | PSym s as t ->
      (match List.find_opt (fun (c : fconst) -> c.fcname = s) phs with
       | Some c -> pterm_of_gval (M.Eval.fclookup fi c)
       | None -> t)
    | t -> t in
  let rec term = function
    | TPre p -> TPre (pterm p) | TVar x -> TVar x | TUn t -> TUn (term t) | TBin (o, l, r) -> TBin (o, term l, term r) in
  let atom (a : atom) = { a with aterms = List.map term a.aterms } in
  let bf = function
    | BLit l -> BLit { l with latom = atom l.latom }
    | BCmp c -> BCmp { c with clhs = term c.clhs; crhs = term c.crhs } in
  let head = function HBasic a -> HBasic (atom a) | HChoice a -> HChoice (atom a) | HFalsity -> HFalsity in
  List.map (fun (r : rule) -> { rhead = head r.rhead; rbody = List.map bf r.rbody }) p

(* all valuations of the placeholders over the window (by sort) *)
let rec valuations (w : M.Eval.window) : fconst list -> M.Eval.ffint list = function
  | [] -> [ [] ]
  | c :: rest ->
    let tl = valuations w rest in
    List.concat_map (fun d -> List.map (fun v -> (c, d) :: v) tl) (M.Eval.w_sort w c.fcsort)

let dir_fw = function DUniversal | DForward -> true | DBackward -> false
let dir_bw = function DUniversal | DBackward -> true | DForward -> false

type prepared = {
  t : M.External.ext_task;
  spec : specification;
  prog : M.Asp.program;
  public : pred list; ins : pred list; outs : pred list;
  sp : pred list; pp : pred list; both : pred list;
  clash_syms : char list list;
  pbs : problem list;                 (* the implementation's problems (constants un-renamed unless strict) *)
  phs : fconst list;
  spec' : specification;              (* placeholders replaced *)
  ug_assumptions : formula list;      (* placeholders replaced *)
  w : M.Eval.window;
}

let renamed (both : pred list) (p : pred) = if List.mem p both then { p with psym = p.psym @ cl "_p" } else p

(* the class of a case (the guard); [Ok prepared] = evaluated *)
let classify ?(excuse_f9 = true) ~(strict_symbols : bool) (task : Sexp.t) (out : Sexp.t) : (prepared, string) result =
  match out with
  | L [ A "ok"; _; L (A "problems" :: _) ] ->
    let t = Ops_tasks.ext_task task in
    (match t.et_specification with
     | M.Datatypes.Coq_inl _ -> Error "not-spec"
     | M.Datatypes.Coq_inr spec ->
       let prog = t.et_program and ug = t.et_user_guide in
       let public = M.External.ug_public_predicates ug and ins = M.External.ug_input_predicates ug in
       let outs = M.External.ug_output_predicates ug in
       let sp = M.External.task_spec_private t and pp = M.External.task_prog_private t in
       let both = M.External.iset_inter pred_dec sp pp in
       let f9 = List.exists (fun p -> let r = renamed both p in List.mem r sp || List.mem r pp || List.mem r public) both in
       let spec_formulas = List.map (fun (a : aformula_annot) -> a.an_formula) spec in
       let ug_formulas = List.map (fun (a : aformula_annot) -> a.an_formula) (M.External.ug_formulas ug) in
       let syms = M.Asp.program_fconsts prog @ List.concat_map M.Fol.symbols (spec_formulas @ ug_formulas) in
       let privates = sp @ List.map (renamed both) pp in
       let clash_syms = List.filter (fun s ->
           List.exists (fun (q : pred) -> Conv.int_of_nat q.parity = 0 && q.psym = s)
             (public @ privates @ M.Asp.program_preds prog @ M.External.spec_predicates spec))
           (List.sort_uniq compare syms) in
       let ambiguous = List.exists (fun s -> List.mem (s @ Ops_tasks_sem.suffix_s) syms) clash_syms in
       (* the output predicates in the vocabulary of the program side: those that occur in the task
          (Model/External.v task_occurring_predicates; Proofs/C02Full.v occurring_outputs) *)
       let occurring = M.External.spec_predicates spec @ M.Asp.program_preds prog in
       let outs = List.filter (fun q -> List.mem q occurring) outs in
       if t.et_proof_outline <> [] then Error "outline"
       else if not (M.Tightness.is_tight prog) then Error "non-tight"
       else if M.EvalAspTasks.program_has_arith prog
            || List.exists Ops_tasks_sem.formula_arith (spec_formulas @ ug_formulas) then Error "arithmetic"
       else if excuse_f9 && f9 then Error "F9"
       else if (not strict_symbols) && ambiguous then Error "F8c-ambiguous"
       else begin
         let pbs = (match out with L [ A "ok"; _; L (A "problems" :: pbs) ] -> List.map problem pbs | _ -> []) in
         let pbs = if strict_symbols then pbs else List.map (Ops_tasks_sem.unrename_problem clash_syms) pbs in
         let phs = M.External.ug_placeholders ug in
         let m = M.Outline.ph_of_fconsts phs in
         let spec' = M.Outline.rp_spec m spec in
         let ug_assumptions = List.filter_map (fun (a : aformula_annot) ->
             match a.an_role with RAssumption -> Some (M.Outline.rp_formula m a.an_formula) | _ -> None) (M.External.ug_formulas ug) in
         let problem_formulas = List.concat_map Ops_tasks_sem.problem_formulas pbs in
         if List.exists Ops_tasks_sem.formula_arith problem_formulas then Error "arithmetic" else
         let term_consts =
           List.concat_map (fun (r : M.Asp.rule) ->
               List.concat_map (fun tm -> match tm with
                   | M.Asp.TPre (M.Asp.PNum z) -> [ FAtomic (AAtom (cl "c", [ GInt (INum z) ])) ]
                   | M.Asp.TPre (M.Asp.PSym s) when not (List.exists (fun (c : fconst) -> c.fcname = s) phs) ->
                     [ FAtomic (AAtom (cl "c", [ GSym (SSym s) ])) ]
                   | _ -> []) (M.Asp.rule_terms r)) prog in
         let all_formulas = problem_formulas @ List.map (fun (a : aformula_annot) -> a.an_formula) spec' @ ug_assumptions in
         match Ops_tasks_sem.exact_window (all_formulas @ term_consts) with
         | None -> Error "window"
         | Some w ->
           let nvals = List.length (M.Eval.w_general w) in
           let depth = List.fold_left (fun d f -> max d (Ops_tasks_sem.qdepth f)) 0 all_formulas in
           let nvars = List.fold_left (fun d (r : M.Asp.rule) -> max d (List.length (M.Asp.rule_vars r))) 0 prog in
           if float_of_int nvals ** float_of_int (min depth 6) > 20000. || depth > 6 || nvars > 3 then Error "window"
           else Ok { t; spec; prog; public; ins; outs; sp; pp; both; clash_syms; pbs; phs; spec'; ug_assumptions; w }
       end)
  | _ -> Error "not-accepted"

let sem_c02_spec ?(excuse_f9 = true) ?(backward_assumptions = false) ~(strict_symbols : bool) (e : Sexp.t) : Sexp.t =
  match e with
  | L [ task; out ] ->
    (match classify ~excuse_f9 ~strict_symbols task out with
     | Error c -> guarded c
     | Ok pr ->
       let t = pr.t and prog = pr.prog and pbs = pr.pbs and phs = pr.phs and spec' = pr.spec' in
       let ug_assumptions = pr.ug_assumptions and w = pr.w in
       let sel f = List.filter f spec' in
       let a_u = sel (fun a -> a.an_role = RAssumption && a.an_dir = DUniversal) in
       let a_f = sel (fun a -> a.an_role = RAssumption && a.an_dir = DForward) in
       (* assumptions annotated backward: IGNORED by anthem in both directions (warning); only the strict
          variant `sem_c02_spec_backward_assumptions` reads them as premises of the backward direction *)
       let a_b = if backward_assumptions then sel (fun a -> a.an_role = RAssumption && a.an_dir = DBackward) else [] in
       let sp_f = sel (fun a -> a.an_role = RSpec && dir_fw a.an_dir) in
       let sp_b = sel (fun a -> a.an_role = RSpec && dir_bw a.an_dir) in
       begin begin
            let st = Semlib.rng_of (Semlib.hash_sexp task) in
            let both = pr.both in
            (* INTERNAL vocabulary of the enumeration: the two sides kept apart.  Public and spec-private
               predicates under their names; the private predicates of the program TAGGED ("P:" ^ name),
               so that one enumerated interpretation N is a pair (J, T) with the same public part:
                 J = N without the tagged atoms          (the specification side: user's formulas)
                 T = public atoms + tagged atoms under the program's own names   (the program side)
               and the interpretation of the EMITTED problems is
                 M = N with every tagged atom under the name the program's private predicate has in the
                     problems (p_p when the specification has a private p/n as well, else p).
               When the renaming is faithful (outside F9) N -> M is a bijection onto the interpretations of
               the problems' vocabulary and this is the per-interpretation statement; inside F9 the map
               merges predicates and the test is the public-level statement (C02spec_external_equivalence). *)
            let tag (q : pred) = { q with psym = cl "P:" @ q.psym } in
            let is_tagged name = (match name with 'P' :: ':' :: _ -> true | _ -> false) in
            let untag name = (match name with 'P' :: ':' :: r -> r | r -> r) in
            let vocab = uniq (pr.public @ pr.sp @ List.map tag pr.pp) in
            let fis = valuations w phs in
            let fis = if List.length fis > 12 then Semlib.take 12 (Semlib.shuffle st fis) else fis in
            let nfi = max 1 (List.length fis) in
            let cap = max 4 (min 10 (int_of_float (Float.log2 (2048. /. float_of_int nfi)))) in
            let vals = Semlib.shuffle st (M.Eval.w_general w) in
            let atoms = Semlib.ground_atoms st vocab vals cap in
            let cands = M.Eval.w_general w in
            let voc_r = uniq (M.Asp.program_preds prog @ pr.ins @ pr.outs) in
            let has (l : pred list) name args = List.exists (fun (q : pred) -> q.psym = name && Conv.int_of_nat q.parity = List.length args) l in
            (* J: the specification side *)
            let side_j (ni : M.Eval.fpint) : M.Eval.fpint = List.filter (fun (name, _) -> not (is_tagged name)) ni in
            (* T: the program side, own names, on P's vocabulary *)
            let side_r (ni : M.Eval.fpint) : M.Eval.fpint =
              List.filter_map (fun (name, args) ->
                  if is_tagged name then Some (untag name, args)
                  else if has pr.public name args && has voc_r name args then Some (name, args) else None) ni in
            (* M: the interpretation of the emitted problems *)
            let side_m (ni : M.Eval.fpint) : M.Eval.fpint =
              uniq (List.map (fun (name, args) ->
                  if is_tagged name then
                    ((renamed both { psym = untag name; parity = Conv.nat_of_int (List.length args) }).psym, args)
                  else (name, args)) ni) in
            let nonprivate = List.filter (fun q -> not (List.mem q pr.pp)) voc_r in
            let count = ref 0 and result = ref None and hit_f = ref 0 and hit_b = ref 0 in
            let fw = dir_fw t.et_direction and bw = dir_bw t.et_direction in
            let refuted holds side =
              List.exists (fun p -> Ops_tasks_sem.starts_with side (Ops_tasks_sem.name_of p) && Ops_tasks_sem.refutes holds p) pbs in
            List.iter (fun fi ->
                let prog' = ph_program fi phs prog in
                let priv_rules = List.filter (fun (r : M.Asp.rule) ->
                    match M.Asp.head_pred r.rhead with Some h -> List.mem h pr.pp | None -> false) prog' in
                List.iter (fun mi ->
                    if !result = None then begin
                      incr count;
                      let mm = side_m mi in
                      let holds = Ops_tasks_sem.make_holds w fi mm in
                      let holds_j = Ops_tasks_sem.make_holds w fi (side_j mi) in
                      let all l = List.for_all (fun (a : aformula_annot) -> holds_j a.an_formula) l in
                      let uga = List.for_all holds_j ug_assumptions in
                      let au = all a_u and af = all a_f and spf = all sp_f and ab = all a_b in
                      let violated = List.find_opt (fun (a : aformula_annot) -> not (holds_j a.an_formula)) sp_b in
                      let mr = side_r mi in
                      let stable = Ops_compext.is_stable cands pr.ins prog' mr in
                      let supported = Ops_compext.is_stable cands nonprivate priv_rules mr in
                      let report side actual expected =
                        result := Some (L [ A "cex"; L [ A "direction"; A side ]; L [ A "M"; Semlib.of_fpint mm ];
                                            L [ A "J-specification-side"; Semlib.of_fpint (side_j mi) ];
                                            L [ A "placeholders"; Semlib.of_ffint fi ]; L [ A "window"; Semlib.of_window w ];
                                            L [ A "some-problem-refuted"; of_boolv actual ];
                                            L [ A "witnesses-difference"; of_boolv expected ];
                                            L [ A "user-guide-assumptions"; of_boolv uga ];
                                            L [ A "specification-universal-assumptions"; of_boolv au ];
                                            L [ A "specification-forward-assumptions"; of_boolv af ];
                                            L [ A "specification-backward-assumptions-read-as-premises"; (if backward_assumptions then of_boolv ab else A "ignored-as-anthem-does") ];
                                            L [ A "specification-forward-specs"; of_boolv spf ];
                                            L [ A "violated-backward-spec"; (match violated with Some a -> of_annot a | None -> L [ A "none" ]) ];
                                            L [ A "program-external-stable"; of_boolv stable ];
                                            L [ A "program-private-supported"; of_boolv supported ];
                                            L [ A "T-program-side"; Semlib.of_fpint mr ] ]) in
                      let exp_b = bw && uga && au && ab && stable && violated <> None in
                      if exp_b then incr hit_b;
                      let act_b = refuted holds "backward" in
                      if act_b <> exp_b then report "backward" act_b exp_b
                      else begin
                        let exp_f = fw && uga && au && af && spf && supported && not stable in
                        if exp_f then incr hit_f;
                        let act_f = refuted holds "forward" in
                        if act_f <> exp_f then report "forward" act_f exp_f
                      end
                    end) (Semlib.subsets atoms)) fis;
            match !result with
            | Some r -> r
            | None -> L [ A "ok"; A (string_of_int !count); L [ A "witnessed-forward"; A (string_of_int !hit_f) ]; L [ A "witnessed-backward"; A (string_of_int !hit_b) ] ]
          end end)
  | _ -> bad "sem_c02_spec: %s" (to_string e)

let sem_c02_spec_class (e : Sexp.t) : Sexp.t =
  match e with
  | L [ task; out ] ->
    (match classify ~strict_symbols:false task out with
     | Error c -> L [ A "class"; S c ]
     | Ok _ -> L [ A "class"; S "evaluated" ])
  | _ -> bad "sem_c02_spec_class: %s" (to_string e)

let () =
  Ops.register "external_decompose_spec" Ops_compext.external_decompose_full;
  Ops.register "sem_c02_spec" (sem_c02_spec ~strict_symbols:false);
  Ops.register "sem_c02_spec_symbols" (sem_c02_spec ~strict_symbols:true);
  Ops.register "sem_c02_spec_renaming" (sem_c02_spec ~excuse_f9:false ~strict_symbols:false);
  Ops.register "sem_c02_spec_backward_assumptions" (sem_c02_spec ~backward_assumptions:true ~strict_symbols:false);
  Ops.register "sem_c02_spec_class" sem_c02_spec_class
let init () = ()
