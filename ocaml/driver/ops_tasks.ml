(* Model-side operations of the `tasks` cluster (C02, C03, C11enforce, C13, C19). *)
open Sexp
open Conv
open M.Fol
open M.Problem

exception Missing of string

let of_problems ps = L (A "problems" :: List.map of_problem ps)
let of_pformulas fs = L (List.map of_pformula fs)
let frepr = function A "mu" -> M.Strong.ReprMu | A "tau-star" -> M.Strong.ReprTauStar | e -> bad "repr: %s" (to_string e)

(* tables of component outputs: (name (key value)..) *)
let table name key value (comps : Sexp.t list) : ('k * 'v) list =
  let rec find = function
    | L (A n :: entries) :: _ when n = name ->
      List.map (function L [ k; v ] -> (key k, value v) | e -> bad "table entry: %s" (to_string e)) entries
    | _ :: rest -> find rest
    | [] -> [] in
  find comps
let lookup name tbl k = match List.assoc_opt k tbl with Some v -> v | None -> raise (Missing name)
let components = function L (A "components" :: cs) -> cs | e -> bad "components: %s" (to_string e)

let catching f = try f () with Missing n -> L [ A "missing-component"; S n ]
let is_skipped = function L (A "skipped" :: _) -> true | _ -> false
let none = L [ A "none" ]

(* ---------- strong equivalence ---------- *)
let strong_model comps =
  let cs = components comps in
  let ts = table "tau_star" program theory cs and mu = table "mu" program theory cs in
  let s1 = table "simp_ht" formula formula cs and s2 = table "simp_classic" formula formula cs in
  fun task -> M.Strong.strong_decompose (lookup "tau_star" ts) (lookup "mu" mu) (lookup "simp_ht" s1) (lookup "simp_classic" s2) task

let strong_task r dir dec simplify brk left right : M.Strong.strong_task =
  { st_left = left; st_right = right; st_decomposition = dec; st_direction = dir; st_repr = r;
    st_simplify = simplify; st_break = brk }

let strong_decompose e =
  if is_skipped e then none else
  match e with
  | L [ L [ r; dir; dec; simplify; brk ]; left; right; comps ] ->
    catching (fun () ->
        let task = strong_task (frepr r) (direction dir) (decomposition dec) (boolv simplify) (boolv brk) (program left) (program right) in
        of_problems (strong_model comps task))
  | e -> bad "strong_decompose: %s" (to_string e)

let family_flags = [ (true, true, DSequential); (true, true, DIndependent); (true, false, DSequential); (true, false, DIndependent);
                     (false, true, DSequential); (false, true, DIndependent); (false, false, DSequential); (false, false, DIndependent) ]
let of_decomposition = function DIndependent -> A "independent" | DSequential -> A "sequential"
let of_flags (s, b, d) = L [ of_boolv s; of_boolv b; of_decomposition d ]

let strong_families e =
  if is_skipped e then none else
  match e with
  | L [ L [ r; dir ]; left; right; comps ] ->
    catching (fun () ->
        let model = strong_model comps in
        let left = program left and right = program right in
        L (A "families" :: List.map (fun (s, b, d) ->
            let ps = model (strong_task (frepr r) (direction dir) d s b left right) in
            L (A "family" :: of_flags (s, b, d) :: List.map of_problem ps)) family_flags))
  | e -> bad "strong_families: %s" (to_string e)

(* ---------- proof outlines ---------- *)
(* errors and warnings WITH the values they carry (audit B16): variant name, then the payload in
   the order of the Rust variant's fields; the harness prints the same (harness/src/ext/tasks.rs) *)
let po_error_items (e : M.Outline.po_error) : Sexp.t list = match e with
  | AnnotatedFormulaWithInvalidRole a -> [ S "AnnotatedFormulaWithInvalidRole"; of_annot a ]
  | DuplicatedVariables f -> [ S "DuplicatedVariables"; of_formula f ]
  | TakenPredicate p -> [ S "TakenPredicate"; of_pred p ]
  | FreeRhsVariables f -> [ S "FreeRhsVariables"; of_formula f ]
  | UndefinedRhsPredicate (d, p) -> [ S "UndefinedRhsPredicate"; of_formula d; of_pred p ]
  | DefinedPredicateVariableListMismatch f -> [ S "DefinedPredicateVariableListMismatch"; of_formula f ]
  | TermsInDefinition (t, f) -> [ S "TermsInDefinition"; of_gterm t; of_formula f ]
  | MalformedInductiveLemma f -> [ S "MalformedInductiveLemma"; of_formula f ]
  | MalformedInductiveAntecedent f -> [ S "MalformedInductiveAntecedent"; of_formula f ]
  | MalformedInductiveVariables f -> [ S "MalformedInductiveVariables"; of_formula f ]
  | MalformedInductiveTerm f -> [ S "MalformedInductiveTerm"; of_formula f ]
  | MalformedDefinition f -> [ S "MalformedDefinition"; of_formula f ]
  | InvalidRoleForGeneralLemma a -> [ S "InvalidRoleForGeneralLemma"; of_annot a ]
(* po_warning has the single constructor ExcessQuantifiedVariables (f : formula): extraction unboxes
   it (`type po_warning = formula`, "singleton inductive") *)
let po_warning_items (w : M.Outline.po_warning) : Sexp.t list = [ S "ExcessQuantifiedVariables"; of_formula w ]
let po_error_sexp e = L (A "err" :: po_error_items e)
let po_warnings_sexp ws = L (A "warnings" :: List.map (fun w -> L (po_warning_items w)) ws)
let of_lemma (g : M.Outline.general_lemma) = L [ A "lemma"; of_pformulas g.gl_conjectures; of_pformulas g.gl_consequences ]
let of_outline (o : M.Outline.proof_outline) =
  L [ A "outline"; L (List.map of_lemma o.forward_lemmas); L (List.map of_lemma o.backward_lemmas);
      L (List.map of_annot o.forward_definitions); L (List.map of_annot o.backward_definitions) ]
let placeholders e = list_of (function L [ n; s ] -> (str n, sort s) | e -> bad "placeholder: %s" (to_string e)) e
(* the harness builds the IndexMap by inserting the pairs in order *)
let placeholder_map l = M.Outline.ph_of_fconsts (List.map (fun (n, s) -> { fcname = n; fcsort = s }) l)

let proof_outline e =
  match e with
  | L [ spec; taken; ph ] ->
    (match M.Outline.from_specification (specification spec) (list_of pred taken) (placeholder_map (placeholders ph)) with
     | M.Outline.Ok (o, ws) -> L [ A "ok"; of_outline o; po_warnings_sexp ws ]
     | M.Outline.Err err -> po_error_sexp err
     | M.Outline.Panic -> L [ A "panic" ])
  | e -> bad "proof_outline: %s" (to_string e)

(* ---------- external equivalence ---------- *)
let ext_error_sexp (e : M.External.ext_error) =
  let err name payload = L (A "err" :: S name :: payload) in
  match e with
  | UnsupportedFormulaRepresentation -> err "UnsupportedFormulaRepresentation" []
  | NonTightProgram p -> err "NonTightProgram" [ of_program p ]
  | ProgramContainsPrivateRecursion p -> err "ProgramContainsPrivateRecursion" [ of_program p ]
  | InputOutputPredicatesOverlap ps -> err "InputOutputPredicatesOverlap" [ of_list of_pred ps ]
  | InputPredicateInRuleHead ps -> err "InputPredicateInRuleHead" [ of_list of_pred ps ]
  | OutputPredicateInUserGuideAssumption ps -> err "OutputPredicateInUserGuideAssumption" [ of_list of_pred ps ]
  | OutputPredicateInSpecificationAssumption ps -> err "OutputPredicateInSpecificationAssumption" [ of_list of_pred ps ]
  | PlaceholdersWithIdenticalNamesDifferentSorts n -> err "PlaceholdersWithIdenticalNamesDifferentSorts" [ of_str n ]
  | AssumptionContainsNonInputSymbols a -> err "AssumptionContainsNonInputSymbols" [ of_annot a ]
  | SpecificationContainsUnsupportedRoles a -> err "SpecificationContainsUnsupportedRoles" [ of_annot a ]
  | ProofOutlineError inner -> err "ProofOutlineError" (po_error_items inner)
let ext_warning_sexp (w : M.External.ext_warning) = match w with
  | WNonTightProgram p -> L [ S "NonTightProgram"; of_program p ]
  | WInconsistentDirectionAnnotation a -> L [ S "InconsistentDirectionAnnotation"; of_annot a ]
  | WInvalidRoleWithinUserGuide a -> L [ S "InvalidRoleWithinUserGuide"; of_annot a ]
  | WDefinitionWithWarning w -> L (S "DefinitionWithWarning" :: po_warning_items w)
let ext_warnings_sexp ws = L (A "warnings" :: List.map ext_warning_sexp ws)
(* the variant name alone: ops that read the warnings off the text the CLI prints (cli_verify) know the kind only *)
let ext_warning_name (w : M.External.ext_warning) = match w with
  | WNonTightProgram _ -> "NonTightProgram" | WInconsistentDirectionAnnotation _ -> "InconsistentDirectionAnnotation"
  | WInvalidRoleWithinUserGuide _ -> "InvalidRoleWithinUserGuide" | WDefinitionWithWarning _ -> "DefinitionWithWarning"

let ext_task = function
  | L [ A "external"; sp; p; ug; po; dec; dir; r; bypass; simplify; brk ] ->
    ({ et_specification = (match sp with
         | L [ A "spec-program"; x ] -> M.Datatypes.Coq_inl (program x)
         | L [ A "spec-spec"; x ] -> M.Datatypes.Coq_inr (specification x)
         | e -> bad "external: specification %s" (to_string e));
       et_program = program p; et_user_guide = user_guide ug; et_proof_outline = specification po;
       et_decomposition = decomposition dec; et_direction = direction dir; et_repr = frepr r;
       et_bypass_tightness = boolv bypass; et_simplify = boolv simplify; et_break = boolv brk } : M.External.ext_task)
  | e -> bad "external task: %s" (to_string e)

let external_model comps =
  let cs = components comps in
  let tight = (let rec find = function
      | L (A "is_tight" :: es) :: _ -> List.map (function L [ p; b ] -> (program p, boolv b) | e -> bad "is_tight: %s" (to_string e)) es
      | _ :: r -> find r | [] -> [] in find cs) in
  let privrec = (let rec find = function
      | L (A "has_private_recursion" :: es) :: _ ->
        List.map (function L [ p; ps; b ] -> ((program p, list_of pred ps), boolv b) | e -> bad "has_private_recursion: %s" (to_string e)) es
      | _ :: r -> find r | [] -> [] in find cs) in
  let ts = table "tau_star" program theory cs in
  let comp = table "completion" (function L [ t; ps ] -> (theory t, list_of pred ps) | e -> bad "completion key: %s" (to_string e))
      (opt_of theory) cs in
  let s2 = table "simp_classic" formula formula cs in
  fun task ->
    M.External.external_decompose (lookup "is_tight" tight) (fun p ps -> lookup "has_private_recursion" privrec (p, ps))
      (lookup "tau_star" ts) (fun t ps -> lookup "completion" comp (t, ps)) (lookup "simp_classic" s2) task

let external_decompose e =
  if is_skipped e then none else
  match e with
  | L [ task; comps ] ->
    catching (fun () ->
        match external_model comps (ext_task task) with
        | M.Outline.Ok (ws, ps) -> L [ A "ok"; ext_warnings_sexp ws; of_problems ps ]
        | M.Outline.Err err -> ext_error_sexp err
        | M.Outline.Panic -> L [ A "panic" ])
  | e -> bad "external_decompose: %s" (to_string e)

let external_families e =
  if is_skipped e then none else
  match e with
  | L [ task; comps ] ->
    catching (fun () ->
        let model = external_model comps in
        let t0 = ext_task task in
        let rec go acc = function
          | [] -> L (A "families" :: List.rev acc)
          | (s, b, d) :: rest ->
            (match model { t0 with et_simplify = s; et_break = b; et_decomposition = d } with
             | M.Outline.Ok (_, ps) -> go (L (A "family" :: of_flags (s, b, d) :: List.map of_problem ps) :: acc) rest
             | M.Outline.Err err -> ext_error_sexp err
             | M.Outline.Panic -> L [ A "panic" ]) in
        go [] family_flags)
  | e -> bad "external_families: %s" (to_string e)

(* ---------- small ops ---------- *)
let problem_decompose = function
  | L [ d; p ] -> of_problems (M.Problem.decompose (problem p) (decomposition d))
  | e -> bad "problem_decompose: %s" (to_string e)
let problem_assembly = function
  | L [ n; fs ] ->
    let p = create_unique_formula_names (rename_conflicting_symbols (add_annotated_formulas (with_name (str n)) (list_of pformula fs))) in
    L [ A "assembled"; of_problem p; of_list of_pred (problem_predicates p); of_list of_str (problem_symbols p);
        of_list of_fconst (problem_function_constants p) ]
  | e -> bad "problem_assembly: %s" (to_string e)

let () =
  Ops.register "break_equivalences_formula" (fun e -> of_theory (M.Break.break_equivalences_formula (formula e)));
  Ops.register "break_equivalences_theory" (fun e -> of_theory (M.Break.break_equivalences_theory (theory e)));
  Ops.register "break_equivalences_annotated_formula" (fun e -> of_specification (M.Break.break_equivalences_annotated_formula (annot e)));
  Ops.register "problem_decompose" problem_decompose;
  Ops.register "problem_assembly" problem_assembly;
  Ops.register "strong_decompose" strong_decompose;
  Ops.register "strong_families" strong_families;
  Ops.register "proof_outline" proof_outline;
  Ops.register "external_decompose" external_decompose;
  Ops.register "external_families" external_families
let init () = ()
