(* C18, classic portfolio: model side of `classic_passes` / `classic_only_passes`
   (Model/ClsTerm.v: the fixpoint loop with pass count and per-pass measure). *)
open Sexp
open Conv

let of_entry (e : M.ClsTerm.trace_entry) : Sexp.t =
  L [ of_nint e.te_size; of_natv e.te_mu; of_natv e.te_gen; of_natv e.te_qn; of_natv e.te_scope; of_natv e.te_def ]

let of_result (r : M.ClsTerm.passes_result) : Sexp.t =
  match r with
  | M.ClsTerm.PPanic -> L [ A "panic" ]
  | M.ClsTerm.PNonterminating n -> L [ A "nonterminating"; of_natv n ]
  | M.ClsTerm.PTooLarge n -> L [ A "toolarge"; of_natv n ]
  | M.ClsTerm.PDone (n, g, trace) -> L [ A "passes"; of_natv n; of_formula g; L (A "trace" :: List.map of_entry trace) ]

let () =
  Ops.register "classic_passes" (fun e -> of_result (M.ClsTerm.classic_passes (formula e)));
  Ops.register "classic_only_passes" (fun e -> of_result (M.ClsTerm.classic_only_passes (formula e)))
let init () = ()
