(* C18, classic portfolio: model side of `classic_passes` / `classic_only_passes`
   (Model/ClsTerm.v: the fixpoint loop with pass count and per-pass measure). *)
open Sexp
open Conv

let of_entry (e : M.ClsTerm.trace_entry) : Sexp.t =
  L [ of_nint e.te_size; of_natv e.te_mu; of_natv e.te_gen; of_natv e.te_qn; of_natv e.te_scope; of_natv e.te_def ]

let of_result (r : M.ClsTerm.passes_result) : Sexp.t =
  match r with
  | M.ClsTerm.PPanic -> L [ A "panic" ]
  | M.ClsTerm.PNonterminating n -> L [ A "nonterminating"; of_natv n ]
  | M.ClsTerm.PTooLarge n -> L [ A "toolarge"; of_natv n ]
  | M.ClsTerm.PDone (n, g, trace) -> L [ A "passes"; of_natv n; of_formula g; L (A "trace" :: List.map of_entry trace) ]

(* ------------------------------------------------------------------------------------------
   sem_classic_passes / sem_classic_only_passes: the idempotence half of C18 judged on the
   IMPLEMENTATION's own output.  Input (F out), out = (passes n G trace) - G is what the real
   Formula::apply_fixpoint returned (the harness has compared it with its replay) - or
   (apply-fixpoint-differs n G) - G is what the real apply_fixpoint returned although the replay
   of the loop ended elsewhere.  "Simplifying G again returns G unchanged": one more post-order pass
   of the composed portfolio (the model's, tied rule by rule to the code by C07) must leave G
   unchanged.  A panic of a classic rule in that pass is the identity of the real loop's caller
   only in the model; it is reported as ok here (C16 covers crashes). *)
let one_pass portfolio g =
  M.StrategyCls.run_strategy_opt (Conv.nat_of_int 1) portfolio M.StrategyCls.Recursive g

let sem_fixpoint portfolio (e : Sexp.t) : Sexp.t =
  let judge n g =
    let g = formula g in
    match one_pass portfolio g with
    | M.StrategyCls.RDone g' when g' <> g ->
      L [ A "cex"; L [ A "result-of-the-fixpoint-strategy-is-not-a-fixpoint"; L [ A "replay-passes"; n ];
                       L [ A "result"; of_formula g ]; L [ A "simplified-again"; of_formula g' ] ] ]
    | _ -> L [ A "ok"; A "1" ] in
  match e with
  | L [ _; L [ A "passes"; n; g; _ ] ] -> judge n g
  | L [ _; L [ A "apply-fixpoint-differs"; n; g ] ] ->
    (match judge n g with
     | L (A "ok" :: _) ->
       (* a fixpoint, but not the one the loop reaches: still not what `while previous != current` computes *)
       L [ A "cex"; L [ A "apply-fixpoint-differs-from-the-replayed-loop"; L [ A "replay-passes"; n ]; L [ A "result"; g ] ] ]
     | r -> r)
  | L [ _; L (A ("nonterminating" | "toolarge" | "panic") :: _) ] -> L [ A "ok"; A "0" ]
  | _ -> bad "sem_classic_passes: %s" (to_string e)

let () =
  Ops.register "sem_classic_passes" (sem_fixpoint M.ClsTerm.portfolio_classic_opt);
  Ops.register "sem_classic_only_passes" (sem_fixpoint M.SimplClassic.coq_CLASSIC_opt);
  Ops.register "classic_passes" (fun e -> of_result (M.ClsTerm.classic_passes (formula e)));
  Ops.register "classic_only_passes" (fun e -> of_result (M.ClsTerm.classic_only_passes (formula e)))
let init () = ()
