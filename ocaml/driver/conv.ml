(* Conversions between the wire format (Sexp) and the extracted Coq datatypes. *)
open Sexp

open M.BinNums

exception Bad of string
let bad fmt = Printf.ksprintf (fun s -> raise (Bad s)) fmt

(* ---- strings ---- *)
let cl_of_string (s : string) : char list = List.init (String.length s) (String.get s)
let string_of_cl (l : char list) : string =
  let b = Buffer.create 16 in List.iter (Buffer.add_char b) l; Buffer.contents b

let str = function S s -> cl_of_string s | A s -> cl_of_string s | e -> bad "string expected: %s" (to_string e)
let of_str (l : char list) : Sexp.t = S (string_of_cl l)

(* ---- numbers (through zarith, arbitrary precision) ---- *)
let rec pos_of_z (z : Z.t) : positive =
  if Z.equal z Z.one then Coq_xH
  else if Z.is_even z then Coq_xO (pos_of_z (Z.shift_right z 1))
  else Coq_xI (pos_of_z (Z.shift_right z 1))
let rec z_of_pos (p : positive) : Z.t =
  match p with
  | Coq_xH -> Z.one
  | Coq_xO p -> Z.shift_left (z_of_pos p) 1
  | Coq_xI p -> Z.succ (Z.shift_left (z_of_pos p) 1)
let coqz_of_z (z : Z.t) : coq_Z =
  if Z.sign z = 0 then Z0 else if Z.sign z > 0 then Zpos (pos_of_z z) else Zneg (pos_of_z (Z.neg z))
let z_of_coqz (z : coq_Z) : Z.t =
  match z with Z0 -> Z.zero | Zpos p -> z_of_pos p | Zneg p -> Z.neg (z_of_pos p)
let coqn_of_z (z : Z.t) : coq_N = if Z.sign z = 0 then N0 else Npos (pos_of_z z)
let z_of_coqn (n : coq_N) : Z.t = match n with N0 -> Z.zero | Npos p -> z_of_pos p
let rec nat_of_int (n : int) : M.Datatypes.nat = if n <= 0 then M.Datatypes.O else M.Datatypes.S (nat_of_int (n - 1))
let rec int_of_nat (n : M.Datatypes.nat) : int = match n with M.Datatypes.O -> 0 | M.Datatypes.S m -> 1 + int_of_nat m

let zint = function A s -> (try coqz_of_z (Z.of_string s) with _ -> bad "integer expected: %s" s) | e -> bad "integer expected: %s" (to_string e)
let of_zint (z : coq_Z) : Sexp.t = A (Z.to_string (z_of_coqz z))
let nint = function A s -> (try coqn_of_z (Z.of_string s) with _ -> bad "natural expected: %s" s) | e -> bad "natural expected: %s" (to_string e)
let of_nint (n : coq_N) : Sexp.t = A (Z.to_string (z_of_coqn n))
let natv = function A s -> (try nat_of_int (int_of_string s) with _ -> bad "nat expected: %s" s) | e -> bad "nat expected: %s" (to_string e)
let of_natv (n : M.Datatypes.nat) : Sexp.t = A (string_of_int (int_of_nat n))
let boolv = function A "true" -> true | A "false" -> false | e -> bad "bool expected: %s" (to_string e)
let of_boolv b = A (if b then "true" else "false")

let list_of f = function L l -> List.map f l | e -> bad "list expected: %s" (to_string e)
let of_list f l = L (List.map f l)
let opt_of f = function L [A "none"] | A "none" -> None | L [A "some"; x] -> Some (f x) | e -> bad "option expected: %s" (to_string e)
let of_opt f = function None -> L [A "none"] | Some x -> L [A "some"; f x]

(* ---- fol ---- *)
open M.Fol

let sort = function A "g" -> SGeneral | A "i" -> SInteger | A "s" -> SSymbol | e -> bad "sort: %s" (to_string e)
let of_sort = function SGeneral -> A "g" | SInteger -> A "i" | SSymbol -> A "s"

let rec iterm (e : Sexp.t) : iterm =
  match e with
  | L [A "n"; z] -> INum (zint z)
  | L [A "if"; c] -> IFun (str c)
  | L [A "iv"; x] -> IVar (str x)
  | L [A "neg"; t] -> IUn (iterm t)
  | L [A "add"; l; r] -> IBin (BAdd, iterm l, iterm r)
  | L [A "sub"; l; r] -> IBin (BSub, iterm l, iterm r)
  | L [A "mul"; l; r] -> IBin (BMul, iterm l, iterm r)
  | e -> bad "iterm: %s" (to_string e)
let rec of_iterm (t : iterm) : Sexp.t =
  match t with
  | INum z -> L [A "n"; of_zint z]
  | IFun c -> L [A "if"; of_str c]
  | IVar x -> L [A "iv"; of_str x]
  | IUn t -> L [A "neg"; of_iterm t]
  | IBin (BAdd, l, r) -> L [A "add"; of_iterm l; of_iterm r]
  | IBin (BSub, l, r) -> L [A "sub"; of_iterm l; of_iterm r]
  | IBin (BMul, l, r) -> L [A "mul"; of_iterm l; of_iterm r]

let gterm (e : Sexp.t) : gterm =
  match e with
  | A "inf" -> GInf
  | A "sup" -> GSup
  | L [A "gf"; c] -> GFun (str c)
  | L [A "gv"; x] -> GVar (str x)
  | L [A "sy"; s] -> GSym (SSym (str s))
  | L [A "sf"; c] -> GSym (SFun (str c))
  | L [A "sv"; x] -> GSym (SVar (str x))
  | e -> GInt (iterm e)
let of_gterm (t : gterm) : Sexp.t =
  match t with
  | GInf -> A "inf"
  | GSup -> A "sup"
  | GFun c -> L [A "gf"; of_str c]
  | GVar x -> L [A "gv"; of_str x]
  | GSym (SSym s) -> L [A "sy"; of_str s]
  | GSym (SFun c) -> L [A "sf"; of_str c]
  | GSym (SVar x) -> L [A "sv"; of_str x]
  | GInt t -> of_iterm t

let rel = function
  | A "eq" -> REq | A "ne" -> RNe | A "gt" -> RGt | A "lt" -> RLt | A "ge" -> RGe | A "le" -> RLe
  | e -> bad "rel: %s" (to_string e)
let of_rel = function
  | REq -> A "eq" | RNe -> A "ne" | RGt -> A "gt" | RLt -> A "lt" | RGe -> A "ge" | RLe -> A "le"

let guard = function L [r; t] -> { grel = rel r; gterm_of = gterm t } | e -> bad "guard: %s" (to_string e)
let of_guard g = L [of_rel g.grel; of_gterm g.gterm_of]

let var = function L [x; s] -> { vname = str x; vsort = sort s } | e -> bad "var: %s" (to_string e)
let of_var v = L [of_str v.vname; of_sort v.vsort]

let pred = function L [p; n] -> { psym = str p; parity = natv n } | e -> bad "pred: %s" (to_string e)
let of_pred p = L [of_str p.psym; of_natv p.parity]
let fconst = function L [c; s] -> { fcname = str c; fcsort = sort s } | e -> bad "fconst: %s" (to_string e)
let of_fconst c = L [of_str c.fcname; of_sort c.fcsort]

let conn = function
  | "and" -> Some CAnd | "or" -> Some COr | "imp" -> Some CImp | "rimp" -> Some CRimp | "iff" -> Some CIff | _ -> None
let of_conn = function CAnd -> "and" | COr -> "or" | CImp -> "imp" | CRimp -> "rimp" | CIff -> "iff"

let aformula (e : Sexp.t) : aformula option =
  match e with
  | L [A "T"] -> Some ATrue
  | L [A "F"] -> Some AFalse
  | L (A "P" :: p :: ts) -> Some (AAtom (str p, List.map gterm ts))
  | L (A "C" :: t :: gs) -> Some (ACmp (gterm t, List.map guard gs))
  | _ -> None
let of_aformula (a : aformula) : Sexp.t =
  match a with
  | ATrue -> L [A "T"]
  | AFalse -> L [A "F"]
  | AAtom (p, ts) -> L (A "P" :: of_str p :: List.map of_gterm ts)
  | ACmp (t, gs) -> L (A "C" :: of_gterm t :: List.map of_guard gs)

let rec formula (e : Sexp.t) : formula =
  match aformula e with
  | Some a -> FAtomic a
  | None ->
    match e with
    | L [A "not"; f] -> FNot (formula f)
    | L [A "forall"; vs; f] -> FQ (QForall, list_of var vs, formula f)
    | L [A "exists"; vs; f] -> FQ (QExists, list_of var vs, formula f)
    | L [A c; l; r] ->
      (match conn c with
       | Some c -> FBin (c, formula l, formula r)
       | None -> bad "formula: %s" (to_string e))
    | e -> bad "formula: %s" (to_string e)
let rec of_formula (f : formula) : Sexp.t =
  match f with
  | FAtomic a -> of_aformula a
  | FNot f -> L [A "not"; of_formula f]
  | FBin (c, l, r) -> L [A (of_conn c); of_formula l; of_formula r]
  | FQ (QForall, vs, f) -> L [A "forall"; of_list of_var vs; of_formula f]
  | FQ (QExists, vs, f) -> L [A "exists"; of_list of_var vs; of_formula f]

let theory = function L (A "theory" :: fs) -> List.map formula fs | e -> bad "theory: %s" (to_string e)
let of_theory fs = L (A "theory" :: List.map of_formula fs)

let role = function
  | A "assumption" -> RAssumption | A "spec" -> RSpec | A "lemma" -> RLemma
  | A "definition" -> RDefinition | A "inductive-lemma" -> RInductiveLemma
  | e -> bad "role: %s" (to_string e)
let of_role = function
  | RAssumption -> A "assumption" | RSpec -> A "spec" | RLemma -> A "lemma"
  | RDefinition -> A "definition" | RInductiveLemma -> A "inductive-lemma"
let direction = function
  | A "universal" -> DUniversal | A "forward" -> DForward | A "backward" -> DBackward
  | e -> bad "direction: %s" (to_string e)
let of_direction = function DUniversal -> A "universal" | DForward -> A "forward" | DBackward -> A "backward"
let annot = function
  | L [A "af"; r; d; n; f] -> { an_role = role r; an_dir = direction d; an_name = str n; an_formula = formula f }
  | e -> bad "annotated formula: %s" (to_string e)
let of_annot a = L [A "af"; of_role a.an_role; of_direction a.an_dir; of_str a.an_name; of_formula a.an_formula]
let specification = function L (A "spec" :: l) -> List.map annot l | e -> bad "specification: %s" (to_string e)
let of_specification l = L (A "spec" :: List.map of_annot l)
let ug_entry = function
  | L [A "input"; p] -> UGInput (pred p)
  | L [A "output"; p] -> UGOutput (pred p)
  | L [A "placeholder"; n; s] -> UGPlaceholder (str n, sort s)
  | e -> UGFormula (annot e)
let of_ug_entry = function
  | UGInput p -> L [A "input"; of_pred p]
  | UGOutput p -> L [A "output"; of_pred p]
  | UGPlaceholder (n, s) -> L [A "placeholder"; of_str n; of_sort s]
  | UGFormula a -> of_annot a
let user_guide = function L (A "ug" :: l) -> List.map ug_entry l | e -> bad "user guide: %s" (to_string e)
let of_user_guide l = L (A "ug" :: List.map of_ug_entry l)

(* ---- asp ---- *)
open M.Asp

let abinop = function
  | "add" -> Some AAdd | "sub" -> Some ASub | "mul" -> Some AMul | "div" -> Some ADiv
  | "mod" -> Some AMod | "int" -> Some AInterval | _ -> None
let of_abinop = function
  | AAdd -> "add" | ASub -> "sub" | AMul -> "mul" | ADiv -> "div" | AMod -> "mod" | AInterval -> "int"

let rec term (e : Sexp.t) : term =
  match e with
  | A "inf" -> TPre PInf
  | A "sup" -> TPre PSup
  | L [A "n"; z] -> TPre (PNum (zint z))
  | L [A "sy"; s] -> TPre (PSym (str s))
  | L [A "v"; x] -> TVar (str x)
  | L [A "neg"; t] -> TUn (term t)
  | L [A o; l; r] ->
    (match abinop o with Some o -> TBin (o, term l, term r) | None -> bad "term: %s" (to_string e))
  | e -> bad "term: %s" (to_string e)
let rec of_term (t : term) : Sexp.t =
  match t with
  | TPre PInf -> A "inf"
  | TPre PSup -> A "sup"
  | TPre (PNum z) -> L [A "n"; of_zint z]
  | TPre (PSym s) -> L [A "sy"; of_str s]
  | TVar x -> L [A "v"; of_str x]
  | TUn t -> L [A "neg"; of_term t]
  | TBin (o, l, r) -> L [A (of_abinop o); of_term l; of_term r]

let atom = function L (p :: ts) -> { apred = str p; aterms = List.map term ts } | e -> bad "atom: %s" (to_string e)
let of_atom a = L (of_str a.apred :: List.map of_term a.aterms)
let arel = function
  | A "eq" -> AEq | A "ne" -> ANe | A "gt" -> AGt | A "lt" -> ALt | A "ge" -> AGe | A "le" -> ALe
  | e -> bad "arel: %s" (to_string e)
let of_arel = function
  | AEq -> A "eq" | ANe -> A "ne" | AGt -> A "gt" | ALt -> A "lt" | AGe -> A "ge" | ALe -> A "le"
let bformula = function
  | L [A "pos"; a] -> BLit { lsign = SNone; latom = atom a }
  | L [A "neg"; a] -> BLit { lsign = SNeg; latom = atom a }
  | L [A "nneg"; a] -> BLit { lsign = SDNeg; latom = atom a }
  | L [A "cmp"; r; l; rr] -> BCmp { crel = arel r; clhs = term l; crhs = term rr }
  | e -> bad "body formula: %s" (to_string e)
let of_bformula = function
  | BLit { lsign = SNone; latom } -> L [A "pos"; of_atom latom]
  | BLit { lsign = SNeg; latom } -> L [A "neg"; of_atom latom]
  | BLit { lsign = SDNeg; latom } -> L [A "nneg"; of_atom latom]
  | BCmp c -> L [A "cmp"; of_arel c.crel; of_term c.clhs; of_term c.crhs]
let head = function
  | L [A "basic"; a] -> HBasic (atom a)
  | L [A "choice"; a] -> HChoice (atom a)
  | L [A "falsity"] -> HFalsity
  | e -> bad "head: %s" (to_string e)
let of_head = function
  | HBasic a -> L [A "basic"; of_atom a]
  | HChoice a -> L [A "choice"; of_atom a]
  | HFalsity -> L [A "falsity"]
let rule = function
  | L [A "rule"; h; L b] -> { rhead = head h; rbody = List.map bformula b }
  | e -> bad "rule: %s" (to_string e)
let of_rule r = L [A "rule"; of_head r.rhead; L (List.map of_bformula r.rbody)]
let program = function L (A "program" :: rs) -> List.map rule rs | e -> bad "program: %s" (to_string e)
let of_program rs = L (A "program" :: List.map of_rule rs)

(* ---- problems ---- *)
open M.Problem
let prole = function A "axiom" -> PAxiom | A "conjecture" -> PConjecture | e -> bad "problem role: %s" (to_string e)
let of_prole = function PAxiom -> A "axiom" | PConjecture -> A "conjecture"
let pformula = function
  | L [ A "pf"; n; r; f ] -> { pf_name = str n; pf_role = prole r; pf_formula = formula f }
  | e -> bad "problem formula: %s" (to_string e)
let of_pformula a = L [ A "pf"; of_str a.pf_name; of_prole a.pf_role; of_formula a.pf_formula ]
let problem = function
  | L (A "problem" :: n :: fs) -> { pb_name = str n; pb_formulas = List.map pformula fs }
  | e -> bad "problem: %s" (to_string e)
let of_problem p = L (A "problem" :: of_str p.pb_name :: List.map of_pformula p.pb_formulas)
let decomposition = function A "independent" -> DIndependent | A "sequential" -> DSequential | e -> bad "decomposition: %s" (to_string e)
