open Sexp
open Conv
open M.Fol
open M.Eval

(* model side of C07 (intuitionistic half) and C18 *)

let strategy = function
  | A "shallow" -> M.Strategy.Shallow
  | A "recursive" -> M.Strategy.Recursive
  | A "fixpoint" -> M.Strategy.Fixpoint_
  | e -> bad "strategy: %s" (to_string e)

let rules = M.SimplIntuit.[
    "evaluate_comparisons", evaluate_comparisons;
    "apply_negation_definition", apply_negation_definition;
    "apply_negation_definition_inverse", apply_negation_definition_inverse;
    "apply_reverse_implication_definition", apply_reverse_implication_definition;
    "apply_reverse_implication_definition_inverse", apply_reverse_implication_definition_inverse;
    "apply_equivalence_definition", apply_equivalence_definition;
    "apply_equivalence_definition_inverse", apply_equivalence_definition_inverse;
    "remove_identities", remove_identities;
    "remove_annihilations", remove_annihilations;
    "remove_idempotences", remove_idempotences;
    "remove_orphaned_variables", remove_orphaned_variables;
    "remove_empty_quantifications", remove_empty_quantifications;
    "join_nested_quantifiers", join_nested_quantifiers;
  ]

let of_result = function
  | Some g -> of_formula g
  | None -> L [ A "fuel-exhausted" ]

let simplify_op (run : M.Strategy.strategy -> formula -> formula option) (e : Sexp.t) : Sexp.t =
  match e with
  | L [ s; f ] -> of_result (run (strategy s) (formula f))
  | e -> bad "simplify: %s" (to_string e)

(* (fix <passes> <result> <simplifying the result again returns it unchanged>) *)
let fixpoint_ht (e : Sexp.t) : Sexp.t =
  let f = formula e in
  let step = M.Apply.compose M.SimplIntuit.portfolio_ht in
  match M.Strategy.fixpoint_iterations (M.SimplIntuit.simplify_fuel f) step f,
        M.SimplIntuit.simplify_ht M.Strategy.Fixpoint_ f with
  | Some n, Some g ->
    let again = (match M.SimplIntuit.simplify_ht M.Strategy.Fixpoint_ g with Some g2 -> g2 = g | None -> false) in
    L [ A "fix"; of_natv n; of_formula g; of_boolv again ]
  | _, _ -> L [ A "fuel-exhausted" ]

(* ---------------------------------------------------------------- semantic cross-check *)

(* rough number of atomic evaluations one evaluation of f costs over window w *)
let rec eval_cost (w : window) (f : formula) : float =
  match f with
  | FAtomic _ -> 1.
  | FNot g -> 1. +. eval_cost w g
  | FBin (_, l, r) -> 1. +. 2. *. (eval_cost w l +. eval_cost w r)
  | FQ (_, vs, g) ->
    List.fold_left (fun acc v -> acc *. float_of_int (max 1 (List.length (w_sort w v.vsort)))) (eval_cost w g) vs +. 1.

let subset_of l m = List.for_all (fun v -> List.mem v m) l

(* sem_simplify_ht: input ((strategy F) G) where G is the implementation's simplification of F
   with the ht (= intuitionistic) portfolio.  Checks free_variables G subset-of free_variables F,
   and searches all H subset-of T over <= 5 ground atoms, with random assignments and placeholder
   interpretations in a finite window, for a point where (H,T),e |= F differs from (H,T),e |= G
   (for H = T this is the classical, there-world, comparison; it is also evaluated with ceval).
   Answer: (ok <points>) or (cex ...). *)
let sem_simplify_ht (e : Sexp.t) : Sexp.t =
  match e with
  | L [ _; L [ A "nonterminating"; _ ] ] -> L [ A "ok"; A "0" ]   (* C18's business *)
  | L [ L [ _; f ]; g ] ->
    let f = formula f and g = formula g in
    let fvf = free_variables f and fvg = free_variables g in
    if not (subset_of fvg fvf) then
      L [ A "cex"; L [ A "free-variables-of-result"; of_list of_var fvg ]; L [ A "free-variables-of-input"; of_list of_var fvf ] ]
    else begin
      let st = Semlib.rng_of (Semlib.hash_sexp e) in
      let budget = 20000. in
      let cost w = eval_cost w f +. eval_cost w g in
      let w =
        let rec pick = function
          | [] -> Semlib.window_of ~max_ints:1 ~max_syms:1 [ f; g ]
          | (i, s) :: rest ->
            let w = Semlib.window_of ~max_ints:i ~max_syms:s [ f; g ] in
            if cost w <= budget || rest = [] then w else pick rest in
        pick [ (4, 2); (3, 1); (2, 1); (1, 1) ] in
      let c = cost w in
      let envs = if fvf = [] && function_constants f = [] then 1 else 3 in
      (* 3^n (H,T) pairs: choose n so that the whole case stays affordable *)
      let n_atoms =
        let rec pick n = if n <= 1 then 1 else if (3. ** float_of_int n) *. float_of_int envs *. c <= 1.0e7 then n else pick (n - 1) in
        pick 5 in
      let atoms = Semlib.ground_atoms st (predicates f) (Semlib.take 4 (Semlib.shuffle st (Semlib.general_values w))) n_atoms in
      let fcs = function_constants f in
      let count = ref 0 in
      let result = ref None in
      let too_costly = c > 1.0e6 in
      let try_pair h t =
        if !result = None then
          for _ = 1 to envs do
            if !result = None then begin
              let env = Semlib.random_env st w fvf in
              let fi = Semlib.random_ffint st w fcs in
              incr count;
              let lhs = heval w fi h t env f in
              let rhs = heval w fi h t env g in
              let bad_here = lhs <> rhs in
              let cl = if h = t then ceval w fi t env f else true in
              let cr = if h = t then ceval w fi t env g else true in
              if bad_here || cl <> cr then
                result := Some (L [ A "cex"; L [ A "H"; Semlib.of_fpint h ]; L [ A "T"; Semlib.of_fpint t ];
                                    L [ A "env"; Semlib.of_fenv env ]; L [ A "placeholders"; Semlib.of_ffint fi ];
                                    L [ A "window"; Semlib.of_window w ];
                                    L [ A "ht-satisfies-input"; of_boolv lhs ]; L [ A "ht-satisfies-output"; of_boolv rhs ];
                                    L [ A "there-world-classical-input"; of_boolv cl ]; L [ A "there-world-classical-output"; of_boolv cr ] ])
            end
          done in
      if too_costly then begin
        (* a handful of sampled pairs only *)
        for _ = 1 to 3 do
          let t = Semlib.random_subset st atoms in
          let h = Semlib.random_subset st t in
          try_pair h t
        done
      end else
        List.iter (fun t -> List.iter (fun h -> try_pair h t) (Semlib.subsets t)) (Semlib.subsets atoms);
      (match !result with Some r -> r | None -> L [ A "ok"; A (string_of_int !count) ])
    end
  | _ -> bad "sem_simplify_ht: %s" (to_string e)

(* the same oracle for a single rewrite: input (F G) *)
let sem_rule_ht (e : Sexp.t) : Sexp.t =
  match e with
  | L [ f; g ] -> sem_simplify_ht (L [ L [ A "shallow"; f ]; g ])
  | _ -> bad "sem_rule_ht: %s" (to_string e)

let profile (e : Sexp.t) : Sexp.t =
  let f = formula e in
  L (A "fired" :: List.map (fun (_, r) -> of_boolv (M.Apply.apply r f <> f)) rules)

let () =
  Ops.register "si_profile" profile;
  List.iter (fun (n, r) -> Ops.register ("si_" ^ n) (fun e -> of_formula (r (formula e)))) rules;
  Ops.register "simplify_int" (simplify_op M.SimplIntuit.simplify_int);
  Ops.register "simplify_ht" (simplify_op M.SimplIntuit.simplify_ht);
  Ops.register "fixpoint_ht" fixpoint_ht;
  Ops.register "sem_simplify_ht" sem_simplify_ht;
  Ops.register "sem_rule_ht" sem_rule_ht
let init () = ()
