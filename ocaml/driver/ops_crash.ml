(* C16: model side of the machine-integer probes (Model/Limits.v). *)
open Sexp
open Conv
open M.Limits

let out f = function
  | Value v -> L [ A "value"; f v ]
  | Panic -> L [ A "panic" ]
  | NotAToken -> L [ A "nottoken" ]

let () =
  Ops.register "numeral_token" (fun e -> out of_zint (parse_isize (str e)));
  Ops.register "arity_token" (fun e -> out of_nint (parse_usize (str e)));
  Ops.register "tptp_numeral" (fun e -> out of_str (tptp_numeral (zint e)));
  Ops.register "fresh_global" (function
      | L [ m; i ] -> out of_str (fresh_global (nint m) (nint i))
      | e -> bad "fresh_global: %s" (to_string e))
let init () = ()
