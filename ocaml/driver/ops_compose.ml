(* Model-side operations of the COMPOSITION of the strong-equivalence pipeline (C03full, C08mu, C19):
   everything is computed by the extracted model from the programs and flags alone
   (Model/MuFull.v, Model/StrongFull.v); no component tables. *)
open Sexp
open Conv
open M.Fol
open M.Problem

let panic = L [ A "panic" ]
let nonterminating = L [ A "nonterminating" ]

let mu e = match M.MuFull.mu_full (program e) with Some th -> of_theory th | None -> panic

let of_sresult f = function
  | M.StrongFull.SOk x -> f x
  | M.StrongFull.SPanic -> panic
  | M.StrongFull.SNonterminating -> nonterminating

let strong_decompose_full = function
  | L [ L [ r; dir; dec; simplify; brk ]; left; right ] ->
    let task = Ops_tasks.strong_task (Ops_tasks.frepr r) (direction dir) (decomposition dec) (boolv simplify) (boolv brk)
        (program left) (program right) in
    of_sresult Ops_tasks.of_problems (M.StrongFull.strong_decompose_full task)
  | e -> bad "strong_decompose_full: %s" (to_string e)

(* all 8 flag combinations; the harness answers (nonterminating) / (panic) for the whole case, so
   the first non-ok family decides (simplify = true comes first) *)
let strong_families_full = function
  | L [ L [ r; dir ]; left; right ] ->
    let left = program left and right = program right in
    let rec go acc = function
      | [] -> L (A "families" :: List.rev acc)
      | (s, b, d) :: rest ->
        (match M.StrongFull.strong_decompose_full (Ops_tasks.strong_task (Ops_tasks.frepr r) (direction dir) d s b left right) with
         | M.StrongFull.SOk ps -> go (L (A "family" :: Ops_tasks.of_flags (s, b, d) :: List.map of_problem ps) :: acc) rest
         | M.StrongFull.SPanic -> panic
         | M.StrongFull.SNonterminating -> nonterminating) in
    go [] Ops_tasks.family_flags
  | e -> bad "strong_families_full: %s" (to_string e)

(* semantic ops on the implementation's output of the full ops: the oracles of the tasks cluster
   (ops_tasks_sem.ml), whose case format carries a fourth element (the component tables) that the
   oracles ignore *)
let with_dummy_components f = function
  | L [ _; L [ A "nonterminating" ] ] -> L [ A "ok"; A "0" ]
  | L [ L [ flags; left; right ]; out ] -> f (L [ L [ flags; left; right; L [ A "components" ] ]; out ])
  | e -> bad "sem (full): %s" (to_string e)

(* sem_mu: input (P R), R = the implementation's mu output.  Rule by rule: a rule that the model's
   natural_rule accepts is judged by sem_natural (its window rule fits natural's integer-sorted
   quantifiers), every other rule by sem_tau_star; both compare the HT value of the
   implementation's formula with the executable reference semantics of the rule. *)
let points_of = function
  | L (A "ok" :: A n :: _) -> (try int_of_string n with _ -> 0)
  | _ -> 0
let sem_mu = function
  | L [ p; L (A "theory" :: fs) ] ->
    let rules = match p with L (A "program" :: rs) -> rs | e -> bad "sem_mu: %s" (to_string e) in
    if List.length rules <> List.length fs then
      L [ A "cex"; L [ A "formulas"; A (string_of_int (List.length fs)) ]; L [ A "rules"; A (string_of_int (List.length rules)) ] ]
    else begin
      let total = ref 0 and result = ref None in
      List.iter2 (fun r f ->
          if !result = None then begin
            let p1 = L [ A "program"; r ] and t1 = L [ A "theory"; f ] in
            let natural = (match M.Natural.natural_rule (rule r) with M.Natural.NOk _ -> true | _ -> false) in
            let o = if natural then Ops_natural.sem_natural (L [ p1; L [ A "some"; t1 ] ])
              else Ops_taustar.sem_tau_star (L [ p1; t1 ]) in
            (match o with
             | L (A "cex" :: _) -> result := Some (L [ A "cex"; L [ A "branch"; A (if natural then "natural" else "tau-star") ]; o ])
             | L (A "driver-error" :: _) -> result := Some o
             | _ -> total := !total + points_of o)
          end) rules fs;
      match !result with Some r -> r | None -> L [ A "ok"; A (string_of_int !total) ]
    end
  | e -> bad "sem_mu: %s" (to_string e)

let () =
  Ops.register "sem_mu" sem_mu;
  Ops.register "sem_c03_full" (with_dummy_components (Ops_tasks_sem.sem_c03_gen ~all:false));
  Ops.register "sem_c19_strong_full" (with_dummy_components Ops_tasks_sem.sem_c19_strong);
  Ops.register "mu" mu;
  Ops.register "strong_decompose_full" strong_decompose_full;
  Ops.register "strong_families_full" strong_families_full;
  (* C07verify: the same ops with the generator of pairs rich in double negations and choice heads *)
  Ops.register "strong_decompose_verify" strong_decompose_full;
  Ops.register "strong_families_verify" strong_families_full
let init () = ()
