(* Model-side operations of the COMPOSITION of the strong-equivalence pipeline (C03full, C08mu, C19):
   everything is computed by the extracted model from the programs and flags alone
   (Model/MuFull.v, Model/StrongFull.v); no component tables. *)
open Sexp
open Conv
open M.Fol
open M.Problem

let panic = L [ A "panic" ]
let nonterminating = L [ A "nonterminating" ]

let mu e = match M.MuFull.mu_full (program e) with Some th -> of_theory th | None -> panic

let of_sresult f = function
  | M.StrongFull.SOk x -> f x
  | M.StrongFull.SPanic -> panic
  | M.StrongFull.SNonterminating -> nonterminating

let strong_decompose_full = function
  | L [ L [ r; dir; dec; simplify; brk ]; left; right ] ->
    let task = Ops_tasks.strong_task (Ops_tasks.frepr r) (direction dir) (decomposition dec) (boolv simplify) (boolv brk)
        (program left) (program right) in
    of_sresult Ops_tasks.of_problems (M.StrongFull.strong_decompose_full task)
  | e -> bad "strong_decompose_full: %s" (to_string e)

(* all 8 flag combinations; the harness answers (nonterminating) / (panic) for the whole case, so
   the first non-ok family decides (simplify = true comes first) *)
let strong_families_full = function
  | L [ L [ r; dir ]; left; right ] ->
    let left = program left and right = program right in
    let rec go acc = function
      | [] -> L (A "families" :: List.rev acc)
      | (s, b, d) :: rest ->
        (match M.StrongFull.strong_decompose_full (Ops_tasks.strong_task (Ops_tasks.frepr r) (direction dir) d s b left right) with
         | M.StrongFull.SOk ps -> go (L (A "family" :: Ops_tasks.of_flags (s, b, d) :: List.map of_problem ps) :: acc) rest
         | M.StrongFull.SPanic -> panic
         | M.StrongFull.SNonterminating -> nonterminating) in
    go [] Ops_tasks.family_flags
  | e -> bad "strong_families_full: %s" (to_string e)

let () =
  Ops.register "mu" mu;
  Ops.register "strong_decompose_full" strong_decompose_full;
  Ops.register "strong_families_full" strong_families_full
let init () = ()
