open Sexp
open Conv
open M.Fol
open M.Asp
open M.Eval
open M.Domain

let parse_completion_case = function
  | L [ t; ins ] -> (theory t, list_of pred ins)
  | e -> bad "completion: %s" (to_string e)
let parse_privrec_case = function
  | L [ p; ps ] -> (program p, list_of pred ps)
  | e -> bad "has_private_recursion: %s" (to_string e)

(* ------------------------------------------------------------------------------------------
   Independent (hand-written, NOT extracted) reading of a theory as definitions + constraints,
   used by sem_completion as the oracle side of Clark's characterisation. *)
type shape =
  | Bad
  | Constr
  | Def of var list * char list * var list * formula   (* outer block, predicate, head variables, body *)

let shape_of (f : formula) : shape =
  if free_variables f <> [] then Bad
  else
    let outer, m = match f with FQ (QForall, vs, g) -> (vs, g) | g -> ([], g) in
    let bh = match m with
      | FBin (CImp, b, h) -> Some (b, h)
      | FBin (CRimp, h, b) -> Some (b, h)
      | _ -> None in
    match bh with
    | Some (_, FAtomic AFalse) -> Constr
    | Some (b, FAtomic (AAtom (p, ts))) ->
      let vs = List.map gterm_to_var ts in
      if List.exists (fun v -> v = None) vs then Bad
      else
        let vs = List.map (function Some v -> v | None -> assert false) vs in
        let rec distinct = function [] -> true | x :: r -> (not (List.mem x r)) && distinct r in
        if distinct vs then Def (outer, p, vs, b) else Bad
    | _ -> Bad

let completable_independent (t : formula list) : bool =
  let shapes = List.map shape_of t in
  List.for_all (fun s -> s <> Bad) shapes
  && (let defs = List.filter_map (function Def (_, p, vs, _) -> Some (p, vs) | _ -> None) shapes in
      List.for_all (fun (p, vs) ->
          List.for_all (fun (q, ws) -> not (p = q && List.length vs = List.length ws) || vs = ws) defs) defs)

(* all tuples d_1..d_n with d_k drawn from the k-th domain *)
let rec product = function
  | [] -> [ [] ]
  | dom :: rest -> let tl = product rest in List.concat_map (fun d -> List.map (fun t -> d :: t) tl) dom

let rec quantifier_cost (w : window) (f : formula) : float =
  match f with
  | FAtomic _ -> 1.
  | FNot g -> quantifier_cost w g
  | FBin (_, l, r) -> quantifier_cost w l +. quantifier_cost w r
  | FQ (_, vs, g) ->
    List.fold_left (fun acc v -> acc *. float_of_int (max 1 (List.length (w_sort w v.vsort)))) (quantifier_cost w g) vs

(* sem_completion: input ((theory inputs) R), R the implementation's result.
   R = (none): the theory must be not completable (independent reading).
   R = (some D): the theory must be completable and, on sampled finite interpretations I,
     I |= D   iff   I |= every constraint of the theory, and for every non-input predicate p of
                    the theory and every argument tuple d (of the sorts of p's head variables):
                    I p d  iff  some definition  forall.. (F -> p(V))  has I,[V:=d] |= exists U F.
   Interpretations: random ones, iterates of the one-step consequence operator started from
   random ones (these tend to satisfy the right-hand side), and single-atom perturbations of
   those.  A disagreement is re-evaluated in a doubled window before it is reported. *)
let sem_completion (e : Sexp.t) : Sexp.t =
  match e with
  | L [ c; L [ A "none" ] ] ->
    let t, _ = parse_completion_case c in
    if completable_independent t then L [ A "cex"; L [ A "refused-a-completable-theory" ] ] else L [ A "ok"; A "0" ]
  | L [ c; L [ A "some"; d ] ] ->
    let t, ins = parse_completion_case c in
    let d = theory d in
    if not (completable_independent t) then L [ A "cex"; L [ A "completed-a-theory-that-is-not-completable" ] ]
    else begin
      let st = Semlib.rng_of (Semlib.hash_sexp e) in
      let shapes = List.map (fun f -> (f, shape_of f)) t in
      let constrs = List.filter_map (fun (f, s) -> if s = Constr then Some f else None) shapes in
      let defs = List.filter_map (fun (_, s) -> match s with Def (o, p, vs, b) -> Some (o, p, vs, b) | _ -> None) shapes in
      let preds = theory_predicates t in
      let non_inputs = List.filter (fun p -> not (List.mem p ins)) preds in
      let fcs = List.sort_uniq compare (List.concat_map function_constants t) in
      let defs_of (p : pred) =
        List.filter (fun (_, q, vs, _) -> q = p.psym && List.length vs = int_of_nat p.parity) defs in
      (* the sorts of p's argument positions: those of its (common) head, general when undefined *)
      let sorts_of (p : pred) =
        match defs_of p with
        | (_, _, vs, _) :: _ -> List.map (fun v -> v.vsort) vs
        | [] -> List.init (int_of_nat p.parity) (fun _ -> SGeneral) in
      let support w fi i (p : pred) (dv : gval list) : bool =
        List.exists (fun (outer, _, vs, b) ->
            let env = List.combine vs dv in
            let us = List.filter (fun v -> not (List.mem v vs)) outer in
            ceval w fi i env (FQ (QExists, us, b))) (defs_of p) in
      let tuples w (p : pred) = product (List.map (fun s -> w_sort w s) (sorts_of p)) in
      let rhs w fi i =
        List.for_all (fun f -> ceval w fi i [] f) constrs
        && List.for_all (fun p ->
            List.for_all (fun dv -> fholds i p.psym dv = support w fi i p dv) (tuples w p)) non_inputs in
      let lhs w fi i = List.for_all (fun f -> ceval w fi i [] f) d in
      (* window: shrink when the quantifier nesting of the theory makes evaluation expensive *)
      let cost w = List.fold_left (fun acc f -> acc +. quantifier_cost w f) 0. (t @ d) in
      let w =
        let cands = [ (3, 2); (2, 1); (1, 1) ] in
        let rec pick = function
          | [ (a, b) ] -> Semlib.window_of ~max_ints:a ~max_syms:b t
          | (a, b) :: rest ->
            let w = Semlib.window_of ~max_ints:a ~max_syms:b t in
            if cost w < 2e5 then w else pick rest
          | [] -> assert false in
        pick cands in
      if cost w > 3e6 then L [ A "ok"; A "0"; A "too-expensive" ]
      else begin
        let w2 = Semlib.window_of ~max_ints:(2 * List.length w.w_ints) ~max_syms:(2 * List.length w.w_syms) t in
        let vals = Semlib.take 4 (Semlib.shuffle st (Semlib.general_values w)) in
        let atoms = Semlib.ground_atoms st preds vals 10 in
        let count = ref 0 and result = ref None and artefacts = ref 0 and both_true = ref 0 in
        let check fi i =
          if !result = None then begin
            incr count;
            let a = lhs w fi i and b = rhs w fi i in
            if a && b then incr both_true;
            if a <> b then begin
              let a2 = lhs w2 fi i and b2 = rhs w2 fi i in
              if a2 <> b2 then
                result := Some (L [ A "cex"; L [ A "I"; Semlib.of_fpint i ]; L [ A "placeholders"; Semlib.of_ffint fi ];
                                    L [ A "window"; Semlib.of_window w2 ];
                                    L [ A "satisfies-completion"; of_boolv a2 ];
                                    L [ A "satisfies-clark-characterisation"; of_boolv b2 ] ])
              else incr artefacts
            end
          end in
        (* one step of the consequence operator: keep the atoms of input predicates, recompute the rest *)
        let step fi i =
          List.filter (fun (p, args) -> List.exists (fun q -> q.psym = p && int_of_nat q.parity = List.length args && List.mem q ins) preds) i
          @ List.concat_map (fun p ->
              List.filter_map (fun dv -> if support w fi i p dv then Some (p.psym, dv) else None) (tuples w p)) non_inputs in
        for round = 1 to 6 do
          if !result = None then begin
            let fi = Semlib.random_ffint st w fcs in
            let i0 = Semlib.random_subset st atoms in
            check fi i0;
            let i = ref i0 in
            for _ = 1 to 3 do
              let j = step fi !i in
              if j <> !i then begin i := j; check fi j end
            done;
            (* perturbations of the last iterate: drop one atom, add one atom *)
            let last = !i in
            (match last with
             | [] -> ()
             | _ -> let k = Random.State.int st (List.length last) in
               check fi (List.filteri (fun n _ -> n <> k) last));
            (match atoms with
             | [] -> ()
             | _ -> let x = List.nth atoms (Random.State.int st (List.length atoms)) in
               if not (List.mem x last) then check fi (x :: last));
            ignore round
          end
        done;
        match !result with
        | Some r -> r
        | None -> L [ A "ok"; A (string_of_int !count); A (string_of_int !both_true); A (string_of_int !artefacts) ]
      end
    end
  | L [ _; L [ A "panic" ] ] -> L [ A "cex"; L [ A "completion-panicked" ] ]
  | _ -> bad "sem_completion: %s" (to_string e)

(* ------------------------------------------------------------------------------------------
   Independent cycle search (depth-first, hand-written) for the verdicts of is_tight and
   has_private_recursion. *)
let has_cycle (nodes : pred list) (edges : (pred * pred) list) : bool =
  let succ n = List.filter_map (fun (a, b) -> if a = n then Some b else None) edges in
  (* colour: 0 unvisited, 1 on the stack, 2 done *)
  let colour = Hashtbl.create 16 in
  let rec visit n =
    match Hashtbl.find_opt colour n with
    | Some 1 -> true
    | Some _ -> false
    | None ->
      Hashtbl.replace colour n 1;
      let r = List.exists visit (succ n) in
      Hashtbl.replace colour n 2;
      r in
  List.exists visit nodes

let atom_pred_of (a : atom) : pred = { psym = a.apred; parity = nat_of_int (List.length a.aterms) }
let head_pred_of = function HBasic a | HChoice a -> Some (atom_pred_of a) | HFalsity -> None
let all_preds (p : rule list) : pred list =
  List.sort_uniq compare (List.concat_map (fun r ->
      (match head_pred_of r.rhead with Some h -> [ h ] | None -> [])
      @ List.filter_map (function BLit l -> Some (atom_pred_of l.latom) | BCmp _ -> None) r.rbody) p)

let sem_is_tight (e : Sexp.t) : Sexp.t =
  match e with
  | L [ p; v ] ->
    let p = program p and v = boolv v in
    let edges = List.concat_map (fun r ->
        match head_pred_of r.rhead with
        | None -> []
        | Some h -> List.filter_map (function
            | BLit { lsign = SNone; latom } -> Some (h, atom_pred_of latom)
            | _ -> None) r.rbody) p in
    let cyclic = has_cycle (all_preds p) edges in
    if v = not cyclic then L [ A "ok"; A "1" ]
    else L [ A "cex"; L [ A "positive-dependency-graph-cyclic"; of_boolv cyclic ]; L [ A "reported-tight"; of_boolv v ] ]
  | _ -> bad "sem_is_tight: %s" (to_string e)

let sem_has_private_recursion (e : Sexp.t) : Sexp.t =
  match e with
  | L [ c; v ] ->
    let p, priv = parse_privrec_case c and v = boolv v in
    let is_priv q = List.mem q priv in
    let choice = List.exists (fun r -> match r.rhead with HChoice a -> is_priv (atom_pred_of a) | _ -> false) p in
    let edges = List.concat_map (fun r ->
        match head_pred_of r.rhead with
        | Some h when is_priv h -> List.filter_map (function
            | BLit l when is_priv (atom_pred_of l.latom) -> Some (h, atom_pred_of l.latom)
            | _ -> None) r.rbody
        | _ -> []) p in
    let cyclic = has_cycle (List.filter is_priv (all_preds p)) edges in
    let expected = choice || cyclic in
    if v = expected then L [ A "ok"; A "1" ]
    else L [ A "cex"; L [ A "private-choice-head"; of_boolv choice ]; L [ A "private-dependency-cycle"; of_boolv cyclic ];
             L [ A "reported-private-recursion"; of_boolv v ] ]
  | _ -> bad "sem_has_private_recursion: %s" (to_string e)

let () =
  Ops.register "completion" (fun e ->
      let t, ins = parse_completion_case e in
      of_opt of_theory (M.Completion.completion t ins));
  Ops.register "is_tight" (fun e -> of_boolv (M.Tightness.is_tight (program e)));
  Ops.register "has_private_recursion" (fun e ->
      let p, ps = parse_privrec_case e in
      of_boolv (M.PrivRec.has_private_recursion p ps));
  Ops.register "sem_completion" sem_completion;
  Ops.register "sem_is_tight" sem_is_tight;
  Ops.register "sem_has_private_recursion" sem_has_private_recursion
let init () = ()
