open Sexp
open Conv
open M.Fol
open M.Asp
open M.Domain
open M.Eval
open M.Natural

(* ---------- model side of the correspondence ops ---------- *)
let of_nresult f = function
  | NOk x -> L [ A "some"; f x ]
  | NRefused -> L [ A "none" ]
  | NPanic -> L [ A "panic" ]

let op_natural e = of_nresult of_theory (natural (program e))
let op_is_regular e =
  match M.Regularity.is_regular (program e) with
  | NOk b -> of_boolv b
  | NRefused -> L [ A "none" ]
  | NPanic -> L [ A "panic" ]
let op_mu_branches e =
  (* the implementation side calls p.mu() and p.tau_star() before it looks at the branches: both share
     tau*'s global variable counter, which overflows on a variable V18446744073709551615 (finding F11):
     MuFull.mu_full / TauStar.tau_star = None is that panic (audit 2, B16 / T13: Mu.mu_branches alone has
     no counter) *)
  match M.MuFull.mu_full (program e), M.TauStar.tau_star (program e) with
  | None, _ | _, None -> L [ A "panic" ]
  | Some _, Some _ ->
  match M.Mu.mu_branches (program e) with
  | NOk bs ->
    L [ A "mu"; L [ A "consistent"; of_boolv true ];
        L (A "branches" :: List.map (function Some f -> L [ A "nat"; of_formula f ] | None -> L [ A "tau" ]) bs) ]
  | _ -> L [ A "panic" ]

(* ---------- sem_natural ----------
   input (P R), R the implementation's `natural` result.  R = (none): nothing to check.
   R = (some theory): the theory must have one formula per rule and, for every HT pair H subset-of T
   built from <= 5 ground atoms over the small value list, and every rule r_i / formula F_i,
        (H,T) |= F_i          (quantifiers evaluated as described below)
     =  every ground instance of r_i with variables drawn from the small value list is HT-satisfied
        according to the reference semantics (Model/EvalAspNat.ref_rule_eval = Sem/AspRef.v).

   Window rule (why this comparison is exact and not a window artefact):
   * the outermost universal block of F_i is enumerated over the SMALL values of each binder's sort
     (integers -1..2, #inf, #sup, the rule's symbols or `a`), exactly the values the rule's own
     variables are drawn from: both sides then range over the same assignments (an assignment that
     gives a non-integer to an integer-sorted binder has no counterpart on the formula side, and by
     C08_int its rule instance is vacuously satisfied);
   * every INNER quantifier (the fresh N<i> of head intervals) is evaluated over the BIG window
     [-m, m], m = a syntactic bound on the absolute value of every (sub)term of the rule under small
     assignments, so every interval endpoint lies inside it; the reference side enumerates
     intervals exactly (EvalAspNat.ref_vals), never truncated to a window;
   * arithmetic itself is exact (unbounded Z) on both sides; values leaving the windows just denote
     atoms that are false in every enumerated interpretation, on both sides alike.
   Rules whose bound m exceeds 64, or with more than 4 variables, are skipped (counted in the
   `skipped` field).  A disagreement is re-evaluated with the big window more than doubled before it
   is reported as (cex ..). *)

let rec term_bound (vb : Z.t) (t : term) : Z.t =
  match t with
  | TPre (PNum z) -> Z.abs (z_of_coqz z)
  | TPre _ -> Z.zero
  | TVar _ -> vb
  | TUn t -> term_bound vb t
  | TBin (o, l, r) ->
    let a = term_bound vb l and b = term_bound vb r in
    (match o with
     | AAdd | ASub -> Z.add a b
     | AMul -> Z.mul a b
     | ADiv | AMod -> Z.max a b
     | AInterval -> Z.max a b)

let rule_top_terms (r : rule) : term list = rule_terms r

let rec term_syms acc = function
  | TPre (PSym s) -> if List.mem s acc then acc else acc @ [ s ]
  | TPre _ | TVar _ -> acc
  | TUn t -> term_syms acc t
  | TBin (_, l, r) -> term_syms (term_syms acc l) r

let ints lo hi = List.init (hi - lo + 1) (fun i -> Semlib.z_of_int (lo + i))

let strip_outer = function FQ (QForall, vs, g) -> (vs, g) | f -> ([], f)

(* all typed assignments of the binders over the small window *)
let rec envs (w : window) (vs : var list) : fenv list =
  match vs with
  | [] -> [ [] ]
  | v :: rest ->
    let tail = envs w rest in
    (* later binders shadow earlier ones: flookup takes the first match, so put later first *)
    List.concat_map (fun d -> List.map (fun e -> e @ [ (v, d) ]) tail) (w_sort w v.vsort)

let eval_formula (small : window) (big : window) h t (f : formula) : bool =
  let vs, g = strip_outer f in
  List.for_all (fun env -> heval big [] h t env g) (envs small vs)

let sem_natural (e : Sexp.t) : Sexp.t =
  match e with
  | L [ _; L [ A "none" ] ] -> L [ A "ok"; A "0" ]
  | L [ p; L [ A "some"; th ] ] ->
    let p = program p and th = theory th in
    if List.length p <> List.length th then
      L [ A "cex"; L [ A "formulas"; A (string_of_int (List.length th)) ]; L [ A "rules"; A (string_of_int (List.length p)) ] ]
    else begin
      let st = Semlib.rng_of (Semlib.hash_sexp e) in
      let points = ref 0 and skipped = ref 0 and result = ref None in
      let syms_all = List.fold_left (fun acc r -> List.fold_left term_syms acc (rule_top_terms r)) [] p in
      let syms = if syms_all = [] then [ cl_of_string "a" ] else Semlib.take 2 syms_all in
      let check_rule (r : rule) (f : formula) =
        let nvars = List.length (rule_vars r) in
        let small_of hi = { w_ints = ints (-1) hi; w_syms = syms } in
        let bound_of hi =
          List.fold_left (fun acc t -> Z.max acc (term_bound (Z.of_int hi) t)) (Z.of_int hi) (rule_top_terms r) in
        let m = bound_of 2 in
        if nvars > 4 || Z.gt m (Z.of_int 64) then incr skipped
        else begin
          let m = Z.to_int m in
          let small = small_of 2 in
          let big = { w_ints = ints (-m) m; w_syms = syms } in
          let vals = w_general small in
          let atom_vals = Semlib.take 4 (Semlib.shuffle st vals) in
          let atoms = Semlib.ground_atoms st (program_preds [ r ]) atom_vals 5 in
          let nassign = int_of_float (float_of_int (List.length vals) ** float_of_int nvars) in
          let pairs = List.concat_map (fun t -> List.map (fun h -> (h, t)) (Semlib.subsets t)) (Semlib.subsets atoms) in
          let budget = 40000 in
          let max_pairs = max 6 (budget / max 1 nassign) in
          let pairs = if List.length pairs > max_pairs then Semlib.take max_pairs (Semlib.shuffle st pairs) else pairs in
          List.iter (fun (h, t) ->
              if !result = None then begin
                incr points;
                let lhs = eval_formula small big h t f in
                let rhs = M.EvalAspNat.ref_rule_eval vals h t r in
                if lhs <> rhs then begin
                  (* re-check with the big window doubled (and the bound recomputed for one more small integer) *)
                  let m2 = Z.to_int (Z.min (Z.of_int 400) (Z.mul (Z.of_int 2) (bound_of 3))) in
                  let big2 = { w_ints = ints (-m2) m2; w_syms = syms } in
                  let lhs3 = eval_formula small big2 h t f in
                  if lhs3 <> rhs then
                    result := Some (L [ A "cex"; L [ A "rule"; of_rule r ]; L [ A "formula"; of_formula f ];
                                        L [ A "H"; Semlib.of_fpint h ]; L [ A "T"; Semlib.of_fpint t ];
                                        L [ A "small-window"; Semlib.of_window small ]; L [ A "big-window-bound"; A (string_of_int m) ];
                                        L [ A "ht-satisfies-formula"; of_boolv lhs ];
                                        L [ A "ht-satisfies-rule-reference"; of_boolv rhs ];
                                        L [ A "rechecked-with-bound"; A (string_of_int m2) ] ])
                end
              end) pairs
        end in
      List.iter2 check_rule p th;
      (match !result with
       | Some r -> r
       | None -> L [ A "ok"; A (string_of_int !points); L [ A "skipped"; A (string_of_int !skipped) ] ])
    end
  | _ -> bad "sem_natural: %s" (to_string e)

(* ---------- sem_is_regular ----------
   input (P verdict).  An independent, direct OCaml transcription of the documented definition of
   regular rules (/repo/res/manual/src/analyze.md, "Regularity") - deliberately not the extracted
   model - is evaluated on P; the implementation's verdict must be its value.  A disagreement
   names the first rule on which the verdict and the definition differ. *)
let rec doc_has_sym = function
  | TPre (PSym _) | TPre PInf | TPre PSup -> true
  | TPre (PNum _) | TVar _ -> false
  | TUn t -> doc_has_sym t
  | TBin (_, l, r) -> doc_has_sym l || doc_has_sym r
let rec doc_only_arith = function
  | TPre _ | TVar _ -> true
  | TUn t -> doc_only_arith t
  | TBin ((AAdd | ASub | AMul), l, r) -> doc_only_arith l && doc_only_arith r
  | TBin (_, _, _) -> false
let doc_first = function
  | TVar _ | TPre _ -> true
  | t -> doc_only_arith t && not (doc_has_sym t)
let doc_second = function
  | TBin (AInterval, t1, t2) -> doc_first t1 && not (doc_has_sym t1) && doc_first t2 && not (doc_has_sym t2)
  | _ -> false
let doc_body_item = function
  | BLit l -> List.for_all doc_first l.latom.aterms
  | BCmp c -> (doc_first c.clhs && doc_first c.crhs) || (c.crel = AEq && doc_first c.clhs && doc_second c.crhs)
let doc_head = function
  | HFalsity -> true
  | HBasic a | HChoice a -> List.for_all (fun t -> doc_first t || doc_second t) a.aterms
let doc_rule (r : rule) = doc_head r.rhead && List.for_all doc_body_item r.rbody

let sem_is_regular (e : Sexp.t) : Sexp.t =
  match e with
  | L [ p; v ] ->
    let p = program p and v = boolv v in
    let expected = List.for_all doc_rule p in
    if v = expected then L [ A "ok"; A "1" ]
    else begin
      let culprit = if v then List.find_opt (fun r -> not (doc_rule r)) p else None in
      L ([ A "cex"; L [ A "verdict"; of_boolv v ]; L [ A "every-rule-regular-as-documented"; of_boolv expected ] ]
         @ (match culprit with Some r -> [ L [ A "irregular-rule"; of_rule r ] ] | None -> []))
    end
  | _ -> bad "sem_is_regular: %s" (to_string e)

let () =
  Ops.register "sem_is_regular" sem_is_regular;
  Ops.register "natural" op_natural;
  Ops.register "natural_small" op_natural;
  Ops.register "natural_text" op_natural;
  Ops.register "is_regular" op_is_regular;
  Ops.register "mu_branches" op_mu_branches;
  Ops.register "sem_natural" sem_natural
let init () = ()
