open Sexp
open Conv

let tau_star e =
  match M.TauStar.tau_star (program e) with
  | Some t -> of_theory t
  | None -> L [ A "panic" ]

let () =
  Ops.register "tau_star" tau_star;
  Ops.register "tau_star_small" tau_star;
  Ops.register "tau_star_val" tau_star
let init () = ()
