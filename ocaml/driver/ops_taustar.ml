open Sexp
open Conv
open M.BinNums
open M.Fol
open M.Asp
open M.Domain
open M.Eval

let tau_star e =
  match M.TauStar.tau_star (program e) with
  | Some t -> of_theory t
  | None -> L [ A "panic" ]

(* ------------------------------------------------------------------------------------------
   sem_tau_star: input (P G), G = the implementation's tau*(P).

   For every rule r_i of P and the i-th formula F_i of G (when |G| = |P|; otherwise the two
   conjunctions are compared) and for all H subset-of T over a few ground atoms:
        heval W (H,T) F_i   must equal   ref_rule_eval W (H,T) r_i.
   Both sides are evaluated RELATIVE TO THE SAME WINDOW W = {#inf, -m..m, symbols of the rule, #sup}:
   the formula's quantifiers range over W, and the reference evaluator (Model/EvalAsp.v) keeps a
   value of a (sub)term only if it lies in W.  Since the integers of W form an interval [-m,m],
   quotients, remainders and interval members of in-window numbers are in W, so for a correct
   translation the two sides agree on EVERY window (no window artefacts), while a wrong translation
   shows up on small windows.  A disagreement is nevertheless re-evaluated with the window doubled
   (m -> 2m, same H and T) and reported only if it persists.

   The ground atoms are the "relevant" ones: instances of the rule's head and body atoms under
   assignments from W (values computed by the reference evaluator), so that H and T separate the
   values a term really has from the ones a wrong val-formula would add or lose.

   heval here is a memoising re-implementation of Model/Eval.heval (same clauses; results of
   quantified subformulas are cached per (subformula, world, values of its free variables)), because
   the extracted evaluator re-evaluates val_t(I) under every binding of the enclosing
   exists I J Q R.  On each case the two evaluators are compared on a few points (when cheap). *)

type anode =
  | NAtom of aformula
  | NNot of anode
  | NBin of bconn * anode * anode
  | NQ of int * bool * var list * quant * var list * anode   (* id, predicate-free, free variables *)

let counter = ref 0
let rec annotate (f : formula) : anode =
  match f with
  | FAtomic a -> NAtom a
  | FNot g -> NNot (annotate g)
  | FBin (c, l, r) -> NBin (c, annotate l, annotate r)
  | FQ (q, vs, g) ->
    incr counter;
    let id = !counter in
    let body = annotate g in
    NQ (id, predicates f = [], free_variables f, q, vs, body)

type ectx = {
  w : window;
  pf_tbl : (int * gval list, bool) Hashtbl.t;        (* predicate-free: independent of H, T *)
  t_tbl : (int * gval list, bool) Hashtbl.t;         (* there world: depends on T *)
  h_tbl : (int * gval list, bool) Hashtbl.t;         (* here world: depends on (H,T) *)
}
let new_ctx w = { w; pf_tbl = Hashtbl.create 997; t_tbl = Hashtbl.create 997; h_tbl = Hashtbl.create 997 }

let implb a b = (not a) || b

let rec quant ctx q vs k env =
  match vs with
  | [] -> k env
  | v :: vs' ->
    let dom = w_sort ctx.w v.vsort in
    (match q with
     | QForall -> List.for_all (fun d -> quant ctx q vs' k ((v, d) :: env)) dom
     | QExists -> List.exists (fun d -> quant ctx q vs' k ((v, d) :: env)) dom)

let memo tbl key compute =
  match Hashtbl.find_opt tbl key with
  | Some b -> b
  | None -> let b = compute () in Hashtbl.replace tbl key b; b

(* there world (classical, interpretation t) *)
let rec cev ctx (t : fpint) env n : bool =
  match n with
  | NAtom a -> easat [] t env a
  | NNot g -> not (cev ctx t env g)
  | NBin (CAnd, l, r) -> cev ctx t env l && cev ctx t env r
  | NBin (COr, l, r) -> cev ctx t env l || cev ctx t env r
  | NBin (CImp, l, r) -> implb (cev ctx t env l) (cev ctx t env r)
  | NBin (CRimp, l, r) -> implb (cev ctx t env r) (cev ctx t env l)
  | NBin (CIff, l, r) -> cev ctx t env l = cev ctx t env r
  | NQ (id, pf, fv, q, vs, g) ->
    let key = (id, List.map (flookup env) fv) in
    memo (if pf then ctx.pf_tbl else ctx.t_tbl) key (fun () -> quant ctx q vs (fun e' -> cev ctx t e' g) env)

(* here world of (h,t) *)
let rec hev ctx (h : fpint) (t : fpint) env n : bool =
  match n with
  | NAtom a -> easat [] h env a
  | NNot g -> not (cev ctx t env g)
  | NBin (CAnd, l, r) -> hev ctx h t env l && hev ctx h t env r
  | NBin (COr, l, r) -> hev ctx h t env l || hev ctx h t env r
  | NBin (CImp, l, r) -> implb (hev ctx h t env l) (hev ctx h t env r) && implb (cev ctx t env l) (cev ctx t env r)
  | NBin (CRimp, l, r) -> implb (hev ctx h t env r) (hev ctx h t env l) && implb (cev ctx t env r) (cev ctx t env l)
  | NBin (CIff, l, r) ->
    implb (hev ctx h t env l) (hev ctx h t env r) && implb (cev ctx t env l) (cev ctx t env r)
    && implb (hev ctx h t env r) (hev ctx h t env l) && implb (cev ctx t env r) (cev ctx t env l)
  | NQ (id, pf, fv, q, vs, g) ->
    let key = (id, List.map (flookup env) fv) in
    memo (if pf then ctx.pf_tbl else ctx.h_tbl) key (fun () -> quant ctx q vs (fun e' -> hev ctx h t e' g) env)

(* ---- windows ---- *)
let z_of_int = Semlib.z_of_int
let rec range a b = if a > b then [] else a :: range (a + 1) b
let mk_window m syms : window = { w_ints = List.map z_of_int (range (-m) m); w_syms = syms }

let rec term_syms acc = function
  | TPre (PSym s) -> if List.mem s acc then acc else acc @ [ s ]
  | TPre _ | TVar _ -> acc
  | TUn t -> term_syms acc t
  | TBin (_, l, r) -> term_syms (term_syms acc l) r
let atom_syms acc (a : atom) = List.fold_left term_syms acc a.aterms
let rule_syms (r : rule) =
  let acc = match r.rhead with HBasic a | HChoice a -> atom_syms [] a | HFalsity -> [] in
  List.fold_left (fun acc b -> match b with
      | BLit l -> atom_syms acc l.latom
      | BCmp c -> term_syms (term_syms acc c.clhs) c.crhs) acc r.rbody

let rule_atoms (r : rule) : atom list =
  (match r.rhead with HBasic a | HChoice a -> [ a ] | HFalsity -> [])
  @ List.concat_map (function BLit l -> [ l.latom ] | BCmp _ -> []) r.rbody

let rec ipow b e = if e <= 0 then 1 else let x = b * ipow b (e - 1) in if x > 100_000_000 then 100_000_000 else x

(* ground atoms that matter for rule r over window w *)
let relevant_atoms st (w : window) (r : rule) (cap : int) : (char list * gval list) list =
  let dom = w_general w in
  let inw = M.EvalAsp.in_window w in
  let vars = rule_vars r in
  let nd = List.length dom in
  let sample () = List.map (fun x -> (x, List.nth dom (Random.State.int st nd))) vars in
  let atoms = rule_atoms r in
  let found = ref [] in
  let add a = if not (List.mem a !found) then found := a :: !found in
  let tries = if vars = [] then 1 else 40 in
  for _ = 1 to tries do
    let sg = sample () in
    List.iter (fun (a : atom) ->
        let tuples = M.EvalAsp.ref_tuples inw sg a.aterms in
        List.iter (fun vs -> add (a.apred, vs)) (Semlib.take 6 tuples)) atoms
  done;
  (* neighbours: the same atoms with one numeral argument shifted by one (values a wrong val could add) *)
  let shifted = List.concat_map (fun (p, vs) ->
      List.concat (List.mapi (fun i v -> match v with
          | VNum z ->
            let z = Conv.z_of_coqz z in
            List.filter_map (fun d ->
                let v' = VNum (Conv.coqz_of_z (Z.add z (Z.of_int d))) in
                if inw v' then Some (p, List.mapi (fun j u -> if i = j then v' else u) vs) else None) [ 1; -1 ]
          | _ -> []) vs)) !found in
  let base = Semlib.shuffle st !found in
  let extra = Semlib.shuffle st (List.filter (fun a -> not (List.mem a base)) shifted) in
  (* mostly real instances, one or two neighbours *)
  let k_real = max 1 (cap - 1 - (if cap >= 4 then 1 else 0)) in
  let chosen = Semlib.take k_real base in
  let chosen = chosen @ Semlib.take (cap - List.length chosen) extra in
  let chosen = if List.length chosen < cap then chosen @ Semlib.take (cap - List.length chosen) (List.filter (fun a -> not (List.mem a chosen)) base) else chosen in
  Semlib.dedup chosen

let of_atoms = Semlib.of_fpint

(* ------------------------------------------------------------------------------------------
   The oracle of a run.  sem_tau_star uses anthem's OWN reading of / and \ (Model/EvalAsp.v =
   Sem/AspRef.v: positive divisors only, floor).  sem_tau_star_ag / sem_tau_star_clingo evaluate the
   same implementation output against the PUBLISHED readings (Model/EvalAspGringo.v: Abstract Gringo
   = floor for every divisor <> 0; clingo = truncation) - finding F24.  A disagreement on a rule
   that is IN the class of F24 (its evaluation over the window, in the published reading, applies /
   or \ to a negative divisor - clingo: or to a negative dividend; extracted test
   EvalAspGringo.rule_in_class) is the recorded deviation: the plain ops count it
   (`in-class-deviations`), the `_strict` ops report it as `(cex ... (class F24))` (that is how
   bin/check replays the known finding).  A disagreement OUTSIDE the class is a counterexample for
   both kinds of op; by Proofs/DivisionDeviation.ref_rule_eval_ag_outside /
   ref_rule_eval_clingo_outside the published oracle returns anthem's verdict there, so such a
   counterexample is one of sem_tau_star too.
   `wide`: the window must contain the numerals of the rule (7/(0-2) needs 7 and -4), so windows
   [-m,m] with m = largest numeral (<= 10) are tried first. *)
type oracle = {
  oname : string;
  eval_ref : window -> fpint -> fpint -> rule -> bool;
  in_class : window -> rule -> bool;
  strict : bool;
  wide : bool;
}
let own_oracle = {
  oname = "anthem";
  eval_ref = (fun w h t r -> M.EvalAsp.ref_rule_eval w h t r);
  in_class = (fun _ _ -> false);
  strict = true;
  wide = false;
}
let published_oracle name mode badb strict = {
  oname = name;
  eval_ref = (fun w h t r -> M.EvalAspGringo.ref_rule_eval_m mode w h t r);
  in_class = (fun w r -> M.EvalAspGringo.rule_in_class mode badb w r);
  strict;
  wide = true;
}

let rec term_maxnum acc = function
  | TPre (PNum z) -> max acc (Stdlib.abs (try Z.to_int (Conv.z_of_coqz z) with _ -> max_int))
  | TPre _ | TVar _ -> acc
  | TUn t -> term_maxnum acc t
  | TBin (_, l, r) -> term_maxnum (term_maxnum acc l) r
let rule_maxnum (r : rule) =
  let atom acc (a : atom) = List.fold_left term_maxnum acc a.aterms in
  let acc = match r.rhead with HBasic a | HChoice a -> atom 0 a | HFalsity -> 0 in
  List.fold_left (fun acc b -> match b with
      | BLit l -> atom acc l.latom
      | BCmp c -> term_maxnum (term_maxnum acc c.clhs) c.crhs) acc r.rbody

(* compare one formula (or a conjunction) with one rule (or several) *)
let check_group ?(oracle = own_oracle) ?(inclass = ref 0) ?(deviations = ref 0) st (rules : rule list) (fs : formula list) (count : int ref) (skipped : int ref) (artefacts : int ref) : Sexp.t option =
  let nodes = List.map annotate fs in
  let nv = List.fold_left (fun acc (r : rule) ->
      max acc (List.length (rule_vars r) + Conv.int_of_nat (head_arity r.rhead))) 0 rules in
  let syms = Semlib.take 1 (List.fold_left (fun acc r -> List.fold_left (fun acc s -> if List.mem s acc then acc else acc @ [ s ]) acc (rule_syms r)) [] rules) in
  let g m = 2 * m + 1 + 2 + List.length syms in
  (* cost model of the memoising evaluator: a quantified node is evaluated once per valuation of
     its free variables and then enumerates its block; predicate-free nodes once per case, the
     others once per (H,T) *)
  let dsize m (v : var) = match v.vsort with SGeneral -> g m | SInteger -> 2 * m + 1 | SSymbol -> max 1 (List.length syms) in
  let rec costs m n : int * int =   (* (predicate-free, others) *)
    match n with
    | NAtom _ -> (0, 0)
    | NNot x -> costs m x
    | NBin (_, l, r) -> let (a, b) = costs m l and (c, d) = costs m r in (min 1_000_000_000 (a + c), min 1_000_000_000 (b + d))
    | NQ (_, pf, fv, _, vs, x) ->
      let here = List.fold_left (fun acc v -> min 1_000_000_000 (acc * dsize m v)) 1 (fv @ vs) in
      let (a, b) = costs m x in
      if pf then (min 1_000_000_000 (a + here), b) else (a, min 1_000_000_000 (b + here)) in
  let total m k =
    let (a, b) = List.fold_left (fun (a, b) n -> let (c, d) = costs m n in (min 1_000_000_000 (a + c), min 1_000_000_000 (b + d))) (0, 0) nodes in
    let refc = ipow (g m) nv in
    a + (min 1_000_000_000 (b + refc)) * ipow 3 k in
  (* pick (m, number of atoms) within the budget *)
  let options = [ (3, 5); (3, 4); (2, 5); (2, 4); (3, 3); (2, 3); (1, 4); (1, 3); (2, 2); (1, 2); (1, 1) ] in
  let maxnum = List.fold_left (fun acc r -> max acc (rule_maxnum r)) 0 rules in
  let options =
    if oracle.wide && maxnum > 3 && maxnum <= 10 then [ (maxnum, 3); (maxnum, 2); (maxnum, 1) ] @ options
    else options in
  let pick = List.find_opt (fun (m, k) -> total m k <= 1_500_000) options in
  (* upper bound of what the extracted (non-memoising) evaluator would do on formula f *)
  let rec slow_cost m (f : formula) : int =
    match f with
    | FAtomic _ -> 1
    | FNot x -> slow_cost m x
    | FBin (_, l, r) -> min 1_000_000_000 (slow_cost m l + slow_cost m r)
    | FQ (_, vs, x) -> List.fold_left (fun acc v -> min 1_000_000_000 (acc * dsize m v)) (slow_cost m x) vs in
  match pick with
  | None -> incr skipped; None
  | Some (m, k) ->
    let w = mk_window m syms in
    let atoms = List.fold_left (fun acc r ->
        List.fold_left (fun acc a -> if List.mem a acc then acc else acc @ [ a ]) acc (relevant_atoms st w r k)) [] rules in
    let atoms = Semlib.take k (Semlib.shuffle st atoms) in
    let ctx = new_ctx w in
    let result = ref None in
    let eval_impl ctx h t = List.for_all (fun n -> hev ctx h t [] n) nodes in
    let eval_ref w h t = List.for_all (fun r -> oracle.eval_ref w h t r) rules in
    let in_class w = List.exists (fun r -> oracle.in_class w r) rules in
    if in_class w then incr inclass;
    let deviated = ref false in
    (* one point of the doubled window: all predicate-free nodes once, the others once *)
    let point_cost m = let (a, b) = List.fold_left (fun (a, b) n -> let (c, d) = costs m n in (min 1_000_000_000 (a + c), min 1_000_000_000 (b + d))) (0, 0) nodes in
      min 1_000_000_000 (a + b + ipow (g m) nv) in
    let cross = ref 0 in
    List.iter (fun t ->
        if !result = None then begin
          Hashtbl.reset ctx.t_tbl;
          List.iter (fun h ->
              if !result = None then begin
                Hashtbl.reset ctx.h_tbl;
                incr count;
                let lhs = eval_impl ctx h t in
                let rhs = eval_ref w h t in
                (* sanity: the memoising evaluator against the extracted Model/Eval.heval (cheap cases only) *)
                if !cross < 2 && List.for_all (fun f -> slow_cost m f < 100_000) fs then begin
                  incr cross;
                  let slow = List.for_all (fun f -> heval w [] h t [] f) fs in
                  if slow <> lhs then
                    result := Some (L [ A "driver-error"; S "memoising evaluator disagrees with Model/Eval.heval" ])
                end;
                if !result = None && lhs <> rhs then begin
                  (* re-check with the window doubled (published oracles, whose windows can be wide: only when one
                     point of the doubled window is affordable) *)
                  let affordable = (not oracle.wide) || point_cost (2 * m) <= (if oracle.strict then 40_000_000 else 4_000_000) in
                  let w2 = if affordable then mk_window (2 * m) syms else w in
                  let (lhs2, rhs2) =
                    if affordable then begin
                      let ctx2 = new_ctx w2 in
                      (eval_impl ctx2 h t, eval_ref w2 h t)
                    end else (lhs, rhs) in
                  if lhs2 <> rhs2 then begin
                    let cls = in_class w || in_class w2 in
                    if cls && not oracle.strict then deviated := true
                    else
                    result := Some (L ([ A "cex";
                                        L [ A "rules"; of_program rules ];
                                        L [ A "formulas"; of_theory fs ];
                                        L [ A "H"; of_atoms h ]; L [ A "T"; of_atoms t ];
                                        L [ A "window"; Semlib.of_window w ];
                                        L [ A "ht-satisfies-implementation-formulas"; of_boolv lhs ];
                                        L [ A (if oracle.wide then "ht-satisfies-rules-reference-semantics-" ^ oracle.oname else "ht-satisfies-rules-reference-semantics"); of_boolv rhs ];
                                        L ([ A "doubled-window" ] @ (if oracle.wide then [ A (if affordable then "evaluated" else "too-large") ] else []) @ [ of_boolv lhs2; of_boolv rhs2 ]) ]
                                       @ (if oracle.wide then [ L [ A "class"; A (if cls then "F24" else "none") ] ] else [])))
                  end
                  else incr artefacts
                end
              end) (Semlib.subsets t)
        end) (Semlib.subsets atoms);
    if !deviated then incr deviations;
    !result

let sem_tau_star (e : Sexp.t) : Sexp.t =
  match e with
  | L [ p; g ] ->
    let p = program p and g = theory g in
    let st = Semlib.rng_of (Semlib.hash_sexp e) in
    let count = ref 0 and skipped = ref 0 and artefacts = ref 0 in
    counter := 0;
    let groups =
      if List.length p = List.length g then List.map2 (fun r f -> ([ r ], [ f ])) p g
      else [ (p, g) ] in
    let res = List.fold_left (fun acc (rs, fs) ->
        match acc with Some _ -> acc | None -> check_group st rs fs count skipped artefacts) None groups in
    (match res with
     | Some r -> r
     | None -> L [ A "ok"; A (string_of_int !count); A "skipped-rules"; A (string_of_int !skipped);
                   A "window-artefacts"; A (string_of_int !artefacts) ])
  | _ -> bad "sem_tau_star: %s" (to_string e)

(* the implementation's tau* output against a PUBLISHED reading of / and \ (finding F24) *)
let sem_tau_star_published (oracle : oracle) (e : Sexp.t) : Sexp.t =
  match e with
  | L [ p; g ] ->
    let p = program p and g = theory g in
    let st = Semlib.rng_of (Semlib.hash_sexp e) in
    let count = ref 0 and skipped = ref 0 and artefacts = ref 0 and inclass = ref 0 and deviations = ref 0 in
    counter := 0;
    let groups =
      if List.length p = List.length g then List.map2 (fun r f -> ([ r ], [ f ])) p g
      else [ (p, g) ] in
    let res = List.fold_left (fun acc (rs, fs) ->
        match acc with Some _ -> acc | None -> check_group ~oracle ~inclass ~deviations st rs fs count skipped artefacts) None groups in
    (match res with
     | Some r -> r
     | None -> L [ A "ok"; A (string_of_int !count); A "skipped-rules"; A (string_of_int !skipped);
                   A "window-artefacts"; A (string_of_int !artefacts);
                   A "in-class-F24"; A (string_of_int !inclass);
                   A "in-class-deviations"; A (string_of_int !deviations) ])
  | _ -> bad "sem_tau_star_%s: %s" oracle.oname (to_string e)

let ag strict = published_oracle "abstract-gringo" M.EvalAspGringo.DGringo M.EvalAspGringo.neg_divisor_b strict
let clingo strict = published_oracle "clingo" M.EvalAspGringo.DClingo M.EvalAspGringo.neg_operand_b strict

let () =
  Ops.register "sem_tau_star_ag" (sem_tau_star_published (ag false));
  Ops.register "sem_tau_star_ag_strict" (sem_tau_star_published (ag true));
  Ops.register "sem_tau_star_clingo" (sem_tau_star_published (clingo false));
  Ops.register "sem_tau_star_clingo_strict" (sem_tau_star_published (clingo true));
  Ops.register "tau_star" tau_star;
  Ops.register "tau_star_small" tau_star;
  Ops.register "tau_star_val" tau_star;
  Ops.register "sem_tau_star" sem_tau_star
let init () = ()
