(* Model driver: reads one request per line "<op>\t<sexp>", prints one result sexp per line.
   Model-side exceptions are printed as (driver-error "...") so that a line count mismatch can
   never hide a case. *)
let () =
  All_ops.init ();
  let b = Buffer.create 4096 in
  (try
     while true do
       let line = input_line stdin in
       Buffer.clear b;
       (match String.index_opt line '\t' with
        | None -> Buffer.add_string b "(driver-error \"no tab\")"
        | Some i ->
          let op = String.sub line 0 i in
          let arg = String.sub line (i + 1) (String.length line - i - 1) in
          (match Hashtbl.find_opt Ops.table op with
           | None -> Buffer.add_string b (Printf.sprintf "(driver-error \"unknown op %s\")" op)
           | Some f ->
             (try Sexp.print b (f (Sexp.parse arg)) with
              | Conv.Bad m -> Buffer.clear b; Sexp.print b (Sexp.L [Sexp.A "driver-error"; Sexp.S ("bad input: " ^ m)])
              | Sexp.Parse_error m -> Buffer.clear b; Sexp.print b (Sexp.L [Sexp.A "driver-error"; Sexp.S ("parse: " ^ m)])
              | Stack_overflow -> Buffer.clear b; Buffer.add_string b "(driver-error \"stack overflow\")"
              | ex -> Buffer.clear b; Sexp.print b (Sexp.L [Sexp.A "driver-error"; Sexp.S (Printexc.to_string ex)]))));
       Buffer.add_char b '\n';
       print_string (Buffer.contents b)
     done
   with End_of_file -> ());
  flush stdout
