(* C10: model side of status extraction and of Vampire::prove's output handling. *)
open Sexp
open Conv
open M.Prover

let of_status_result = function
  | SOk st -> L [ A "ok"; A (string_of_cl (status_word st)) ]
  | SMissing -> L [ A "err"; S "Missing" ]
  | SUnknown w -> L [ A "err"; S "Unknown"; of_str w ]

let unhex = function
  | A t when String.length t >= 1 && t.[0] = 'x' ->
    let n = (String.length t - 1) / 2 in
    List.init n (fun i -> Char.chr (int_of_string ("0x" ^ String.sub t (1 + 2 * i) 2)))
  | e -> bad "hex atom expected: %s" (to_string e)

let of_error = function
  | Spawn -> "Spawn" | Write -> "Write" | Wait -> "Wait" | ConvertOutput -> "ConvertOutput"

let of_run_result = function
  | Reported r -> L [ A "reported"; of_status_result r ]
  | Failed e -> L [ A "failed"; S (of_error e) ]

let outcome = function
  | L [ A "exited"; out; err; code ] -> Exited (unhex out, unhex err, natv code)
  | L [ A "notstarted" ] -> NotStarted
  | L [ A "pipebroke" ] -> PipeBroke
  | e -> bad "outcome: %s" (to_string e)

(* fan_in: (n (k outcome)...) = the arrivals in the order in which the loop received them.
   Answer: (<final flag> <result of each arrival>...) *)
let fan_in_op = function
  | L (n :: evs) ->
    let evs = List.map (function L [ k; o ] -> (natv k, prove (outcome o)) | e -> bad "event: %s" (to_string e)) evs in
    L (of_boolv (fan_in evs (natv n)) :: List.map (fun (_, r) -> of_run_result r) evs)
  | e -> bad "fan_in: %s" (to_string e)

(* verify_end (C10, run level; Model/VerdictRun.v):
     (pool n (k outcome)...)     the arrivals in the order received, n problems submitted
     (seq fate...)               fate = outcome | (died): `prove` panics for that problem
   Answer: (end (count "<line>")|(nocount) (verdict "<line>")|(noverdict) <exit status> <results printed>) *)
let of_run_end (e : M.VerdictRun.run_end) =
  let open M.VerdictRun in
  let printed = match e with Finished (r, _, _) -> r | Panicked r -> r in
  L [ A "end";
      (match count_line e with Some l -> L [ A "count"; of_str l ] | None -> L [ A "nocount" ]);
      (match verdict_line e with Some l -> L [ A "verdict"; of_str l ] | None -> L [ A "noverdict" ]);
      of_natv (exit_status e); of_natv printed ]

let verify_end_op = function
  | L (A "pool" :: n :: evs) ->
    let evs = List.map (function L [ k; o ] -> (natv k, prove (outcome o)) | e -> bad "event: %s" (to_string e)) evs in
    of_run_end (M.VerdictRun.pool_end evs (natv n))
  | L (A "seq" :: fates) ->
    let fate = function L [ A "died" ] -> None | o -> Some (prove (outcome o)) in
    of_run_end (M.VerdictRun.sequential_end (List.map fate fates))
  | e -> bad "verify_end: %s" (to_string e)

(* prover_config: (time_limit instances cores ncpu), decimal numerals of any size.
   Answer: (rejected) when a value is not a usize (clap refuses it), (panic), or
   (ok <instances> seq|pool (<argv>...)) *)
let prover_config_op = function
  | L [ t; i; c; ncpu ] ->
    let open M.VerdictRun in
    let o = { time_limit = nint t; prover_instances = nint i; prover_cores = nint c } in
    if not (options_ok o) then L [ A "rejected" ]
    else (
      match (instances o (nint ncpu), is_sequential o (nint ncpu)) with
      | Some k, Some sq ->
        L [ A "ok"; of_nint k; A (if sq then "seq" else "pool"); of_list of_str (prover_argv o (nint ncpu)) ]
      | _ -> L [ A "panic" ])
  | e -> bad "prover_config: %s" (to_string e)

let () =
  Ops.register "verify_end" verify_end_op;
  Ops.register "prover_config" prover_config_op;
  Ops.register "fan_in" fan_in_op;
  Ops.register "status_from_str" (fun e -> of_status_result (status_of_stdout (str e)));
  Ops.register "prover_output" (function
      | L [ out; err; code ] -> of_run_result (prove (Exited (unhex out, unhex err, natv code)))
      | e -> bad "prover_output: %s" (to_string e))
let init () = ()
