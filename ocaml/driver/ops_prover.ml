(* C10: model side of status extraction and of Vampire::prove's output handling. *)
open Sexp
open Conv
open M.Prover

let of_status_result = function
  | SOk st -> L [ A "ok"; A (string_of_cl (status_word st)) ]
  | SMissing -> L [ A "err"; S "Missing" ]
  | SUnknown w -> L [ A "err"; S "Unknown"; of_str w ]

let unhex = function
  | A t when String.length t >= 1 && t.[0] = 'x' ->
    let n = (String.length t - 1) / 2 in
    List.init n (fun i -> Char.chr (int_of_string ("0x" ^ String.sub t (1 + 2 * i) 2)))
  | e -> bad "hex atom expected: %s" (to_string e)

let of_error = function
  | Spawn -> "Spawn" | Write -> "Write" | Wait -> "Wait" | ConvertOutput -> "ConvertOutput"

let of_run_result = function
  | Reported r -> L [ A "reported"; of_status_result r ]
  | Failed e -> L [ A "failed"; S (of_error e) ]

let outcome = function
  | L [ A "exited"; out; err; code ] -> Exited (unhex out, unhex err, natv code)
  | L [ A "notstarted" ] -> NotStarted
  | L [ A "pipebroke" ] -> PipeBroke
  | e -> bad "outcome: %s" (to_string e)

(* fan_in: (n (k outcome)...) = the arrivals in the order in which the loop received them.
   Answer: (<final flag> <result of each arrival>...) *)
let fan_in_op = function
  | L (n :: evs) ->
    let evs = List.map (function L [ k; o ] -> (natv k, prove (outcome o)) | e -> bad "event: %s" (to_string e)) evs in
    L (of_boolv (fan_in evs (natv n)) :: List.map (fun (_, r) -> of_run_result r) evs)
  | e -> bad "fan_in: %s" (to_string e)

let () =
  Ops.register "fan_in" fan_in_op;
  Ops.register "status_from_str" (fun e -> of_status_result (status_of_stdout (str e)));
  Ops.register "prover_output" (function
      | L [ out; err; code ] -> of_run_result (prove (Exited (unhex out, unhex err, natv code)))
      | e -> bad "prover_output: %s" (to_string e))
let init () = ()
