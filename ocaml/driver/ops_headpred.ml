(* Cluster `headpred` (C19ext): role stability of external equivalence under simplification.
   external_roles     the 8 flag combinations of one external task, computed entirely in the model
                      (Model/ExternalFull.external_decompose_full, no component tables)
   sem_roles_stable   (task families): on the IMPLEMENTATION's output
     R1 (= C19_roles_stable) for every eq-break / decomposition setting the families with and
        without simplification have the same problem names and, problem by problem, the same list
        of (formula name, role): control_translate gives every formula the same name and role
        whether or not the theory was simplified;
     R2 every problem of every family contains, for each private predicate of either side (the
        program side's copy renamed `_p` when shared), an AXIOM that head_predicate recognises as
        its completed definition: private definitions are assumptions of both directions. *)
open Sexp
open Conv

let none = L [ A "none" ]
let is_skipped = function L (A "skipped" :: _) -> true | _ -> false

let external_roles e =
  if is_skipped e then none else
  let t0 = Ops_tasks.ext_task e in
  let rec go acc = function
    | [] -> L (A "families" :: List.rev acc)
    | (s, b, d) :: rest ->
      (match M.ExternalFull.external_decompose_full M.ExternalFull.full_fuel
               { t0 with M.External.et_simplify = s; et_break = b; et_decomposition = d } with
       | M.ExternalFull.XOk (_, ps) ->
         go (L (A "family" :: Ops_tasks.of_flags (s, b, d) :: List.map of_problem ps) :: acc) rest
       | M.ExternalFull.XErr err -> Ops_tasks.ext_error_sexp err
       | M.ExternalFull.XPanic -> L [ A "panic" ]
       | M.ExternalFull.XNonterminating -> L [ A "nonterminating" ]) in
  go [] Ops_tasks.family_flags

let ok n = L [ A "ok"; A (string_of_int n) ]

let sem_roles_stable (e : Sexp.t) : Sexp.t =
  let open M.Problem in
  match e with
  | L [ _; L [ A "none" ] ] | L [ _; L (A "err" :: _) ] | L [ _; L [ A "panic" ] ] | L [ _; L [ A "nonterminating" ] ] -> ok 0
  | L [ task; fams ] ->
    let t = Ops_tasks.ext_task task in
    let fams = Ops_tasks_sem.families fams in
    let profile (p : problem) =
      (string_of_cl p.pb_name, List.map (fun a -> (string_of_cl a.pf_name, a.pf_role)) p.pb_formulas) in
    let fam s b d =
      List.find_opt (fun (flags, _) -> flags = Ops_tasks.of_flags (s, b, d)) fams in
    let result = ref None and count = ref 0 in
    (* R1 *)
    List.iter (fun (b, d) ->
        match fam true b d, fam false b d with
        | Some (f1, ps1), Some (f0, ps0) ->
          incr count;
          if !result = None && List.map profile ps1 <> List.map profile ps0 then begin
            let bad_pair =
              let rec first l1 l0 = match l1, l0 with
                | p1 :: r1, p0 :: r0 -> if profile p1 <> profile p0 then Some (p1, p0) else first r1 r0
                | _ -> None in
              first ps1 ps0 in
            result := Some (L ([ A "cex"; S "names or roles of the emitted formulas depend on the simplify flag";
                                 L [ A "family"; f1 ]; L [ A "family"; f0 ] ]
                               @ (match bad_pair with
                                   | Some (p1, p0) -> [ L [ A "simplified"; of_problem p1 ]; L [ A "unsimplified"; of_problem p0 ] ]
                                   | None -> [ L [ A "problems"; A (string_of_int (List.length ps1)); A (string_of_int (List.length ps0)) ] ])))
          end
        | _ -> ())
      [ (true, M.Problem.DSequential); (true, M.Problem.DIndependent); (false, M.Problem.DSequential); (false, M.Problem.DIndependent) ];
    (* R2 *)
    let spec_priv = M.External.task_spec_private t and prog_priv = M.External.task_prog_private t in
    let shared = List.filter (fun p -> List.mem p prog_priv) spec_priv in
    let renamed (p : M.Fol.pred) : M.Fol.pred =
      if List.mem p shared then { p with M.Fol.psym = cl_of_string (string_of_cl p.M.Fol.psym ^ "_p") } else p in
    let expected =
      (match t.M.External.et_specification with M.Datatypes.Coq_inl _ -> spec_priv | M.Datatypes.Coq_inr _ -> [])
      @ List.map renamed prog_priv in
    List.iter (fun (flags, ps) ->
        List.iter (fun (p : problem) ->
            incr count;
            if !result = None then
              match List.find_opt (fun q ->
                  not (List.exists (fun a -> a.pf_role = PAxiom && M.External.head_predicate a.pf_formula = Some q) p.pb_formulas))
                  expected with
              | Some q ->
                result := Some (L [ A "cex"; S "the completed definition of a private predicate is not an axiom of an emitted problem";
                                    of_pred q; L [ A "family"; flags ]; of_problem p ])
              | None -> ()) ps) fams;
    (match !result with Some r -> r | None -> ok !count)
  | _ -> bad "sem_roles_stable: %s" (to_string e)

let () =
  Ops.register "external_roles" external_roles;
  Ops.register "sem_roles_stable" sem_roles_stable
let init () = ()
