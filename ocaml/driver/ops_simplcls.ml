(* C07, classic half: model-side operations and the semantic check of the implementation's output. *)
open Sexp
open Conv
open M.Fol
open M.Eval
open M.Domain

let fixpoint_fuel = nat_of_int 25          (* = FIXPOINT_FUEL of harness/src/ext/simplcls.rs *)

let of_opt_formula = function Some g -> of_formula g | None -> L [ A "panic" ]

let strategy = function
  | A "shallow" -> Some M.StrategyCls.Shallow
  | A "recursive" -> Some M.StrategyCls.Recursive
  | A "fixpoint" -> Some M.StrategyCls.Fixpoint_
  | _ -> None

let simplify_cls (e : Sexp.t) : Sexp.t =
  match e with
  | L [ sn; f ] ->
    (match strategy sn with
     | Some s ->
       (match M.StrategyCls.run_strategy_opt fixpoint_fuel M.SimplClassic.coq_CLASSIC_opt s (formula f) with
        | M.StrategyCls.RDone g -> L [ sn; of_formula g ]
        | M.StrategyCls.RPanic -> L [ A "panic" ]
        | M.StrategyCls.RNonterminating -> L [ A "nonterminating" ])
     | None -> bad "simplify_cls: strategy: %s" (to_string e))
  | _ -> bad "simplify_cls: %s" (to_string e)

(* the CLI's classic portfolio INTUITIONISTIC ++ HT ++ CLASSIC (Model/ClsTerm.portfolio_classic_opt =
   the portfolio of Model/Cli.v and of Model/ExternalFull.v) under a strategy, at tree level *)
let simplify_full_classic (e : Sexp.t) : Sexp.t =
  match e with
  | L [ sn; f ] ->
    (match strategy sn with
     | Some s ->
       (match M.StrategyCls.run_strategy_opt fixpoint_fuel M.ClsTerm.portfolio_classic_opt s (formula f) with
        | M.StrategyCls.RDone g -> L [ sn; of_formula g ]
        | M.StrategyCls.RPanic -> L [ A "panic" ]
        | M.StrategyCls.RNonterminating -> L [ A "nonterminating" ])
     | None -> bad "simplify_full_classic: strategy: %s" (to_string e))
  | _ -> bad "simplify_full_classic: %s" (to_string e)

(* ------------------------------------------------------------------------------------------
   sem_simplify_cls: input ((strategy F) (strategy G)) or (F G), G = the implementation's output.
   1. free_variables G must be a subset of free_variables F (syntactic).
   2. On sampled finite classical interpretations, placeholder interpretations and assignments,
      [ceval] of F and of G over a finite window (standard integer arithmetic, quantifiers over the
      window) must agree.
   The rules replace bound variables by terms and change quantifier sorts, so a finite window
   produces artefacts (exists X$i (X$i = Y$i*2 ..) is false in a window that lacks the value of
   Y$i*2 while its simplification is true).  A difference is therefore reported only if it
     (a) persists when the window is doubled, and
     (b) persists in an EXACT finite structure of the same signature: integers = the window's
         range with wrap-around arithmetic, same order, same sorts.  Every rewrite of the three
         portfolios is a validity of sorted first-order logic with a total order (none uses an
         arithmetic fact), so (b) can never differ for a correct implementation: no false alarms.
   Unconfirmed differences are counted and printed after the point count: (ok <points> artefacts <n>). *)

let zt = Conv.z_of_coqz
let cz = Conv.coqz_of_z

(* contiguous integer range lo..hi *)
let range lo hi = List.init (hi - lo + 1) (fun i -> cz (Z.of_int (lo + i)))

(* the symbols of a window: ALL symbols occurring in the formulas (they are the values of constants:
   a structure that lacks one of them is not a structure of the signature, and
   [exists X$s (X$s = b)] would be false in it), padded to [n] with fresh ones *)
let syms_for (fs : formula list) (n : int) : char list list =
  let dedup = List.fold_left (fun acc s -> if List.mem s acc then acc else acc @ [ s ]) [] in
  let occ = dedup (List.concat_map symbols fs) in
  if List.length occ >= n then occ
  else Semlib.take n (dedup (occ @ [ Semlib.cl "a"; Semlib.cl "zz"; Semlib.cl "zy" ]))

(* cost of one evaluation: number of atomic evaluations, quantifiers ranging over the window *)
let rec cost (w : window) (f : formula) : float =
  match f with
  | FAtomic _ -> 1.
  | FNot f -> cost w f
  | FBin (_, l, r) -> cost w l +. cost w r
  | FQ (_, vs, f) ->
    List.fold_left (fun acc v -> acc *. float_of_int (max 1 (List.length (w_sort w v.vsort)))) 1. vs *. cost w f

(* exact finite structure: integer sort = lo..hi with wrap-around arithmetic *)
let weval (w : window) (fi : ffint) (i : fpint) (env : fenv) (f : formula) : bool =
  let ints = List.map zt w.w_ints in
  let lo = List.fold_left Z.min (List.hd ints) ints in
  let m = Z.of_int (List.length ints) in
  let norm z = Z.add lo (Z.erem (Z.sub z lo) m) in
  let rec ev_i env t =
    match t with
    | INum z -> norm (zt z)
    | IFun c -> norm (zt (as_int (fclookup fi { fcname = c; fcsort = SInteger })))
    | IVar x -> norm (zt (as_int (flookup env { vname = x; vsort = SInteger })))
    | IUn t -> norm (Z.neg (ev_i env t))
    | IBin (BAdd, l, r) -> norm (Z.add (ev_i env l) (ev_i env r))
    | IBin (BSub, l, r) -> norm (Z.sub (ev_i env l) (ev_i env r))
    | IBin (BMul, l, r) -> norm (Z.mul (ev_i env l) (ev_i env r)) in
  let ev_g env t = match t with GInt t -> VNum (cz (ev_i env t)) | t -> eev_g fi env t in
  let rec chain env l gs =
    match gs with
    | [] -> true
    | g :: gs' -> let v = ev_g env g.gterm_of in rel_sat g.grel l v && chain env v gs' in
  let asat env a =
    match a with
    | ATrue -> true
    | AFalse -> false
    | AAtom (p, ts) -> fholds i p (List.map (ev_g env) ts)
    | ACmp (t, gs) -> chain env (ev_g env t) gs in
  let rec qs q vs k env =
    match vs with
    | [] -> k env
    | v :: vs' ->
      let dom = w_sort w v.vsort in
      (match q with
       | QForall -> List.for_all (fun d -> qs q vs' k ((v, d) :: env)) dom
       | QExists -> List.exists (fun d -> qs q vs' k ((v, d) :: env)) dom) in
  let rec ev env f =
    match f with
    | FAtomic a -> asat env a
    | FNot f -> not (ev env f)
    | FBin (CAnd, l, r) -> ev env l && ev env r
    | FBin (COr, l, r) -> ev env l || ev env r
    | FBin (CImp, l, r) -> (not (ev env l)) || ev env r
    | FBin (CRimp, l, r) -> (not (ev env r)) || ev env l
    | FBin (CIff, l, r) -> ev env l = ev env r
    | FQ (q, vs, f) -> qs q vs (fun e -> ev e f) env in
  ev env f

let budget = 60000.
let confirm_budget = 4000000.

let sem_check (f : formula) (g : formula) (seed : int) : Sexp.t =
  let fvf = free_variables f and fvg = free_variables g in
  let extra = List.filter (fun v -> not (List.mem v fvf)) fvg in
  if extra <> [] then
    L [ A "cex"; L [ A "free-variables-of-result-not-in-input"; of_list of_var extra ] ]
  else begin
    let st = Semlib.rng_of seed in
    (* window levels: (lo, hi, #symbols) *)
    let mk (lo, hi, ns) = { w_ints = range lo hi; w_syms = syms_for [ f; g ] ns } in
    let levels = [ ((-2, 3, 2), (-4, 6, 3)); ((-1, 2, 1), (-2, 4, 2)); ((0, 1, 1), (-1, 2, 2)) ] in
    let fits w = cost w f +. cost w g <= budget in
    match List.find_opt (fun (p, _) -> fits (mk p)) levels with
    | None -> L [ A "ok"; A "0"; A "too-costly" ]
    | Some (p, p2) ->
      let w = mk p and w2 = mk p2 in
      let preds = List.sort_uniq compare (predicates f @ predicates g) in
      let vals = Semlib.take 5 (Semlib.shuffle st (Semlib.general_values w)) in
      let atoms = Semlib.ground_atoms st preds vals 10 in
      let fcs = List.sort_uniq compare (function_constants f @ function_constants g) in
      let count = ref 0 and artefacts = ref 0 and result = ref None in
      let n_points = 24 in
      for k = 1 to n_points do
        if !result = None then begin
          (* the first two points are the empty and the full interpretation *)
          let i = if k = 1 then [] else if k = 2 then atoms else Semlib.random_subset st atoms in
          let env = Semlib.random_env st w fvf in
          let fi = Semlib.random_ffint st w fcs in
          incr count;
          let a = ceval w fi i env f and b = ceval w fi i env g in
          if a <> b then begin
            let confirmed =
              (* (b) exact finite structure *)
              weval w fi i env f <> weval w fi i env g
              (* (a) doubled window *)
              && (cost w2 f +. cost w2 g > confirm_budget
                  || ceval w2 fi i env f <> ceval w2 fi i env g) in
            if confirmed then
              result := Some (L [ A "cex"; L [ A "I"; Semlib.of_fpint i ]; L [ A "env"; Semlib.of_fenv env ];
                                  L [ A "placeholders"; Semlib.of_ffint fi ]; L [ A "window"; Semlib.of_window w ];
                                  L [ A "doubled-window"; Semlib.of_window w2 ];
                                  L [ A "input-true"; of_boolv a ]; L [ A "output-true"; of_boolv b ] ])
            else incr artefacts
          end
        end
      done;
      match !result with
      | Some r -> r
      | None -> L [ A "ok"; A (string_of_int !count); A "artefacts"; A (string_of_int !artefacts) ]
  end

(* the idempotence oracle of C18 on the implementation's output of the fixpoint strategy: one more
   post-order pass of the (model's) composed portfolio must leave it unchanged *)
let not_a_fixpoint portfolio (g : formula) : Sexp.t option =
  match M.StrategyCls.run_strategy_opt (nat_of_int 1) portfolio M.StrategyCls.Recursive g with
  | M.StrategyCls.RDone g' when g' <> g ->
    Some (L [ A "cex"; L [ A "result-of-the-fixpoint-strategy-is-not-a-fixpoint"; L [ A "result"; of_formula g ];
                           L [ A "simplified-again"; of_formula g' ] ] ])
  | _ -> None

let sem_simplify_cls portfolio (e : Sexp.t) : Sexp.t =
  match e with
  | L [ _; L [ A "panic" ] ] | L [ _; L [ A "nonterminating" ] ] -> L [ A "ok"; A "0" ]
  | L [ L [ A "fixpoint"; f ]; L [ A ("fixpoint" | "apply-fixpoint-differs"); g ] ] ->
    (match not_a_fixpoint portfolio (formula g) with
     | Some cex -> cex
     | None -> sem_check (formula f) (formula g) (Semlib.hash_sexp e))
  | L [ L [ s; f ]; L [ s'; g ] ] when strategy s <> None && s = s' -> sem_check (formula f) (formula g) (Semlib.hash_sexp e)
  | L [ f; g ] -> sem_check (formula f) (formula g) (Semlib.hash_sexp e)
  | _ -> bad "sem_simplify_cls: %s" (to_string e)

let () =
  let module C = M.SimplClassic in
  Ops.register "sc_remove_double_negation" (fun e -> of_formula (C.remove_double_negation (formula e)));
  Ops.register "sc_substitute_defined_variables" (fun e -> of_opt_formula (C.substitute_defined_variables_opt (formula e)));
  Ops.register "sc_restrict_quantifier_domain" (fun e -> of_opt_formula (C.restrict_quantifier_domain_opt (formula e)));
  Ops.register "sc_extend_quantifier_scope" (fun e -> of_formula (C.extend_quantifier_scope (formula e)));
  Ops.register "sc_simplify_transitive_equality" (fun e -> of_opt_formula (C.simplify_transitive_equality_opt (formula e)));
  Ops.register "simplify_cls" simplify_cls;
  (* hand-built trees outside the parser's image, kept apart from the ops on real formulas:
     (which F), which = rdn|sdv|rqd|eqs|ste or a strategy name *)
  Ops.register "sc_outside_parser" (fun e ->
      match e with
      | L [ A "rdn"; f ] -> of_formula (C.remove_double_negation (formula f))
      | L [ A "sdv"; f ] -> of_opt_formula (C.substitute_defined_variables_opt (formula f))
      | L [ A "rqd"; f ] -> of_opt_formula (C.restrict_quantifier_domain_opt (formula f))
      | L [ A "eqs"; f ] -> of_formula (C.extend_quantifier_scope (formula f))
      | L [ A "ste"; f ] -> of_opt_formula (C.simplify_transitive_equality_opt (formula f))
      | _ -> simplify_cls e);
  Ops.register "simplify_full_classic" simplify_full_classic;
  Ops.register "simplify_full_classic_shallow" simplify_full_classic;
  Ops.register "simplify_full_classic_recursive" simplify_full_classic;
  Ops.register "sem_simplify_cls" (sem_simplify_cls M.SimplClassic.coq_CLASSIC_opt);
  Ops.register "sem_simplify_full_classic" (sem_simplify_cls M.ClsTerm.portfolio_classic_opt)
let init () = ()
