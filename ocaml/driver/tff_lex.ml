(* A small lexer for the TPTP text anthem emits: words (maximal runs of letters, digits, '_', '$'
   not starting with a digit), unsigned decimal numerals, punctuation and the connectives
   ~ & | => <= <=> = != ! ?.  White space separates tokens and is otherwise ignored; '%' starts a
   comment up to the end of the line.  Anything else is a lexical error. *)
open M.Tff

exception Lex_error of string

let is_word_char c =
  (c >= 'a' && c <= 'z') || (c >= 'A' && c <= 'Z') || (c >= '0' && c <= '9') || c = '_' || c = '$'
let is_digit c = c >= '0' && c <= '9'

(* problem-level tokens: formula tokens plus '.', '*' and '>' (statement end, type products/arrows) *)
type ptoken = T of token | Dot | Star | Gt

let ptokens (s : string) : ptoken list =
  let n = String.length s in
  let out = ref [] in
  let pushp t = out := t :: !out in
  let push t = pushp (T t) in
  let i = ref 0 in
  let starts p = let l = String.length p in !i + l <= n && String.sub s !i l = p in
  while !i < n do
    let c = s.[!i] in
    if c = ' ' || c = '\n' || c = '\t' || c = '\r' then incr i
    else if c = '%' then (while !i < n && s.[!i] <> '\n' do incr i done)
    else if is_digit c then begin
      let j = ref !i in
      while !j < n && is_digit s.[!j] do incr j done;
      (* a numeral must not run into a word: 12ab is an error *)
      if !j < n && is_word_char s.[!j] then raise (Lex_error (Printf.sprintf "numeral runs into a word at %d" !i));
      push (KNum (Conv.coqn_of_z (Z.of_string (String.sub s !i (!j - !i)))));
      i := !j
    end
    else if is_word_char c then begin
      let j = ref !i in
      while !j < n && is_word_char s.[!j] do incr j done;
      push (KWord (Conv.cl_of_string (String.sub s !i (!j - !i))));
      i := !j
    end
    else if starts "<=>" then (push KIff; i := !i + 3)
    else if starts "=>" then (push KImp; i := !i + 2)
    else if starts "<=" then (push KRimp; i := !i + 2)
    else if starts "!=" then (push KNeq; i := !i + 2)
    else begin
      (match c with
       | '(' -> push KLPar | ')' -> push KRPar | '[' -> push KLBrack | ']' -> push KRBrack
       | ',' -> push KComma | ':' -> push KColon | '~' -> push KNot | '&' -> push KAnd
       | '|' -> push KOr | '=' -> push KEq | '!' -> push KAll | '?' -> push KEx
       | '.' -> pushp Dot | '*' -> pushp Star | '>' -> pushp Gt
       | c -> raise (Lex_error (Printf.sprintf "illegal character %C at %d" c !i)));
      incr i
    end
  done;
  List.rev !out

(* formula-level lexer: no '.', '*', '>' *)
let tokens (s : string) : token list =
  List.map (function T t -> t | _ -> raise (Lex_error "'.', '*' or '>' inside a formula")) (ptokens s)
