(* Reader for the TFF problem files anthem emits: a sequence of statements
     tff(<name>, type, <ident>: <signature>).      <signature> ::= $tType | $o | <type>
                                                              | (<type> * .. * <type>) > ($o | <type>)
                                                              | <type> > ($o | <type>)
     tff(<name>, axiom|conjecture, <formula>).
   Formula bodies are read by the EXTRACTED specification reader M.TptpPrint.tff_read.
   Result: M.Tff.tff_problem, or an error naming the offending statement. *)
open M.Tff
open Tff_lex

exception Read_error of string
let err fmt = Printf.ksprintf (fun s -> raise (Read_error s)) fmt

let word = function T (KWord w) -> Conv.string_of_cl w | _ -> err "word expected"

let ty_of_word = function
  | "$int" -> TyInt | "general" -> TyGeneral | "symbol" -> TySymbol
  | w -> err "unknown type %s" w

let signature (toks : ptoken list) : tff_sig =
  match toks with
  | [ T (KWord w) ] ->
    (match Conv.string_of_cl w with
     | "$tType" -> SigType
     | "$o" -> SigPred []
     | w -> SigFun ([], ty_of_word w))
  | [ T (KWord a); Gt; T (KWord res) ] ->          (* `t > r`: tptp4X prints unary signatures bare *)
    let a = [ ty_of_word (Conv.string_of_cl a) ] in
    (match Conv.string_of_cl res with "$o" -> SigPred a | r -> SigFun (a, ty_of_word r))
  | T KLPar :: rest ->
    let rec args acc = function
      | T (KWord w) :: Star :: r -> args (ty_of_word (Conv.string_of_cl w) :: acc) r
      | T (KWord w) :: T KRPar :: Gt :: [ T (KWord res) ] ->
        let a = List.rev (ty_of_word (Conv.string_of_cl w) :: acc) in
        (match Conv.string_of_cl res with "$o" -> SigPred a | r -> SigFun (a, ty_of_word r))
      | _ -> err "malformed signature" in
    args [] rest
  | _ -> err "malformed signature"

(* split at '.' *)
let statements (toks : ptoken list) : ptoken list list =
  let rec go cur acc = function
    | [] -> if cur = [] then List.rev acc else err "unterminated statement"
    | Dot :: r -> go [] (List.rev cur :: acc) r
    | t :: r -> go (t :: cur) acc r in
  go [] [] toks

let rec drop_last = function [] -> err "empty statement" | [ x ] -> ([], x) | x :: r -> let (l, y) = drop_last r in (x :: l, y)

let read (text : string) : tff_problem =
  let toks = try ptokens text with Lex_error m -> err "lexical error: %s" m in
  let decls = ref [] and formulas = ref [] in
  List.iter (fun st ->
      match st with
      | T (KWord tff) :: T KLPar :: T (KWord name) :: T KComma :: T (KWord role) :: T KComma :: body
        when Conv.string_of_cl tff = "tff" ->
        let name = Conv.string_of_cl name in
        let (body, last) = drop_last body in
        if last <> T KRPar then err "%s: ')' expected before '.'" name;
        (match Conv.string_of_cl role with
         | "type" ->
           (match body with
            | T (KWord ident) :: T KColon :: sg ->
              let sg = try signature sg with Read_error m -> err "%s: %s" name m in
              decls := { d_name = Conv.cl_of_string name; d_ident = ident; d_sig = sg } :: !decls
            | _ -> err "%s: `ident: signature` expected" name)
         | ("axiom" | "conjecture") as r ->
           let ftoks = List.map (function T t -> t | _ -> err "%s: '.', '*' or '>' inside a formula" name) body in
           (match M.TptpPrint.tff_read ftoks with
            | Some f ->
              formulas := { n_name = Conv.cl_of_string name;
                            n_role = (if r = "axiom" then RoleAxiom else RoleConjecture);
                            n_formula = f } :: !formulas
            | None -> err "%s: not a TFF formula" name)
         | r -> err "%s: unknown role %s" name r)
      | _ -> err "statement does not start with tff(name, role,") (statements toks);
  { tp_decls = List.rev !decls; tp_formulas = List.rev !formulas }
