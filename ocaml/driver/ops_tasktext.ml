(* Cluster `tasktext` (C09tasks, audit B8): the TEXT of every problem a verification task emits.

   task_emit_strong / task_emit_external: the end-to-end models (Model/StrongFull.v,
   Model/ExternalFull.v) followed by the model of `impl Display for Problem`
   (Model/ProblemPrint.problem_display): (texts ("name" "text") ..) | (none) | (panic); compared
   byte for byte with what the real task emits.

   sem_task_wt_strong / sem_task_wt_external: input (<task> <implementation output>).  Every
   IMPLEMENTATION text is read by the extracted specification reader (cross-checked with the
   OCaml reader) and checked with the extracted wt_problem, component by component:
     - number of problems, names: always compared with the model;
     - exactly one conjecture, unique names, declared types: ALWAYS required
       (C09_*_task_one_conjecture_names: no premise);
     - the identifier components: excused when the model's problem is in IdentClass;
     - formula typing / readability: excused when the task is outside the decidable task premise
       of Properties/C09tasks.v (M.TaskPremises.strong_task_ok / ext_task_ok: free variables in a
       specification or user-guide assumption, a program variable with an empty name) or in IdentClass;
     - outside both classes the text read back must equal [emit] of the model
       (C09_*_task_reads_as_emit).
   The `_strict` variants excuse nothing (replay of known findings). *)
open Sexp
open Conv

let panic = L [ A "panic" ]
let none = L [ A "none" ]

let texts_of (ps : M.Problem.problem list) : Sexp.t =
  L (A "texts" :: List.map (fun (p : M.Problem.problem) ->
      L [ S (string_of_cl p.M.Problem.pb_name);
          (match M.ProblemPrint.problem_display p with Some t -> S (string_of_cl t) | None -> panic) ]) ps)

let strong_task_of = function
  | L [ L [ r; dir; dec; simplify; brk ]; left; right ] ->
    Ops_tasks.strong_task (Ops_tasks.frepr r) (direction dir) (decomposition dec) (boolv simplify) (boolv brk)
      (program left) (program right)
  | e -> bad "task_emit_strong: %s" (to_string e)

let strong_problems e =
  match M.StrongFull.strong_decompose_full (strong_task_of e) with
  | M.StrongFull.SOk ps -> Ok ps
  | M.StrongFull.SPanic -> Error panic
  | M.StrongFull.SNonterminating -> Error none

let is_skipped = function L (A "skipped" :: _) -> true | _ -> false
let external_problems e =
  if is_skipped e then Error none else
  match M.ExternalFull.external_decompose_full M.ExternalFull.full_fuel (Ops_tasks.ext_task e) with
  | M.ExternalFull.XOk (_, ps) -> Ok ps
  | M.ExternalFull.XPanic -> Error panic
  | M.ExternalFull.XErr _ | M.ExternalFull.XNonterminating -> Error none

let task_emit problems e = match problems e with Ok ps -> texts_of ps | Error r -> r

(* ---------- the semantic check ---------- *)
let sem_task_wt ~(strict : bool) problems (premise : Sexp.t -> bool) (e : Sexp.t) : Sexp.t =
  match e with
  | L [ _; L [ A "none" ] ] | L [ _; L [ A "panic" ] ] -> L [ A "ok"; A "0" ]
  | L [ task; L (A "texts" :: outs) ] ->
    (match problems task with
     | Error _ -> L [ A "ok"; A "0" ]       (* the correspondence reports the disagreement *)
     | Ok models ->
       if List.length models <> List.length outs then
         L [ A "cex"; L [ A "number-of-problems"; A (string_of_int (List.length outs)); A (string_of_int (List.length models)) ] ]
       else begin
         let in_premise = premise task in
         let checked = ref 0 and result = ref None in
         List.iteri (fun i ((m : M.Problem.problem), o) ->
             if !result = None then begin
               let name, text = match o with L [ S n; S t ] -> n, t | _ -> bad "sem_task_wt: (name text) expected" in
               let fail what = result := Some (L [ A "cex"; L [ A "problem"; S name ]; what ]) in
               if name <> string_of_cl m.M.Problem.pb_name then fail (L [ A "problem-name"; S (string_of_cl m.M.Problem.pb_name) ])
               else begin
                 let in_class = not (M.ProblemPrint.ident_ok m) in
                 let excuse_ident = (not strict) && in_class in
                 let excuse_typing = (not strict) && (in_class || not in_premise) in
                 match (try Ops_tptp.read_text text with Ops_tptp.Readers_disagree msg -> fail (L [ A "readers-disagree"; S msg ]); Error msg) with
                 | Error _ when !result <> None -> ()
                 | Error msg -> if not excuse_typing then fail (L [ A "unreadable"; S msg ])
                 | Ok tp ->
                   let fails = List.filter (fun (_, okc, _, _) -> not okc) (Ops_tptp.wt_components tp) in
                   let fails = List.filter (fun (label, _, excusable, _) ->
                       if label = "ill-typed-undeclared-or-unbound-in-formula" then not excuse_typing
                       else not (excusable && excuse_ident)) fails in
                   (match fails with
                    | (label, _, _, detail) :: _ -> fail (L [ A label; S (detail ()) ])
                    | [] ->
                      if M.TffWt.wt_problem tp then begin
                        incr checked;
                        if in_premise && (not in_class) && tp <> M.ProblemPrint.emit m then
                          fail (L [ A "text-reads-differently-from-model-structure" ])
                      end
                      else if in_premise && not in_class then fail (L [ A "wt_problem-false" ]))
               end
             end) (List.combine models outs);
         match !result with Some r -> r | None -> L [ A "ok"; A (string_of_int !checked) ]
       end)
  | _ -> bad "sem_task_wt: %s" (to_string e)

let strong_premise e = M.TaskPremises.strong_task_ok (strong_task_of e)
let external_premise e = (not (is_skipped e)) && M.TaskPremises.ext_task_ok (Ops_tasks.ext_task e)

let () =
  Ops.register "task_emit_strong" (task_emit strong_problems);
  Ops.register "task_emit_external" (task_emit external_problems);
  Ops.register "sem_task_wt_strong" (sem_task_wt ~strict:false strong_problems strong_premise);
  Ops.register "sem_task_wt_external" (sem_task_wt ~strict:false external_problems external_premise);
  Ops.register "sem_task_wt_strong_strict" (sem_task_wt ~strict:true strong_problems strong_premise);
  Ops.register "sem_task_wt_external_strict" (sem_task_wt ~strict:true external_problems external_premise)
let init () = ()
