(* S-expressions: the wire format shared with the Rust harness. *)
type t = A of string | S of string | L of t list
(* A = bare atom, S = quoted string *)

exception Parse_error of string

let parse (s : string) : t =
  let n = String.length s in
  let pos = ref 0 in
  let peek () = if !pos < n then Some s.[!pos] else None in
  let rec skip () = match peek () with
    | Some (' ' | '\t' | '\n' | '\r') -> incr pos; skip ()
    | _ -> () in
  let rec expr () =
    skip ();
    match peek () with
    | None -> raise (Parse_error "eof")
    | Some '(' ->
      incr pos;
      let items = ref [] in
      let rec loop () =
        skip ();
        match peek () with
        | Some ')' -> incr pos
        | None -> raise (Parse_error "unclosed")
        | _ -> items := expr () :: !items; loop () in
      loop ();
      L (List.rev !items)
    | Some ')' -> raise (Parse_error "unexpected )")
    | Some '"' ->
      incr pos;
      let b = Buffer.create 16 in
      let rec loop () =
        match peek () with
        | None -> raise (Parse_error "unclosed string")
        | Some '"' -> incr pos
        | Some '\\' ->
          incr pos;
          (match peek () with
           | Some 'x' ->
             let h = String.sub s (!pos + 1) 2 in
             Buffer.add_char b (Char.chr (int_of_string ("0x" ^ h)));
             pos := !pos + 3
           | Some c -> Buffer.add_char b c; incr pos
           | None -> raise (Parse_error "bad escape"));
          loop ()
        | Some c -> Buffer.add_char b c; incr pos; loop () in
      loop ();
      S (Buffer.contents b)
    | Some _ ->
      let start = !pos in
      let rec loop () =
        match peek () with
        | Some (' ' | '\t' | '\n' | '\r' | '(' | ')' | '"') | None -> ()
        | _ -> incr pos; loop () in
      loop ();
      A (String.sub s start (!pos - start)) in
  let e = expr () in
  skip ();
  if !pos <> n then raise (Parse_error "trailing input");
  e

let rec print (b : Buffer.t) (e : t) : unit =
  match e with
  | A a -> Buffer.add_string b a
  | S s ->
    Buffer.add_char b '"';
    String.iter (fun c ->
        if c = '"' || c = '\\' then (Buffer.add_char b '\\'; Buffer.add_char b c)
        else if Char.code c < 32 || Char.code c > 126 then
          Buffer.add_string b (Printf.sprintf "\\x%02x" (Char.code c))
        else Buffer.add_char b c) s;
    Buffer.add_char b '"'
  | L l ->
    Buffer.add_char b '(';
    List.iteri (fun i x -> if i > 0 then Buffer.add_char b ' '; print b x) l;
    Buffer.add_char b ')'

let to_string e = let b = Buffer.create 256 in print b e; Buffer.contents b
