open Sexp
open Conv
open M.Fol
open M.Eval
open M.Domain

let parse_case = function
  | L [ f; x; t ] -> (formula f, var x, gterm t)
  | e -> bad "substitute: %s" (to_string e)

(* sem_substitute: input ((F x t) R) where R is the implementation's result `(some G)`.
   Checks on sampled interpretations/assignments in a finite window:
     I,e |= G   iff   I,e[x := value of t under e] |= F      (skipped when t's value leaves the
   window for quantifier purposes - the evaluation itself is exact for the assignment), and
     fv(G) = (fv(F) \ {x}) U (fv(t) if x in fv(F)). *)
let sem_substitute (e : Sexp.t) : Sexp.t =
  match e with
  | L [ c; L [ A "some"; g ] ] ->
    let f, x, t = parse_case c in
    let g = formula g in
    if not (M.Subst.sort_ok x t) then L [ A "ok"; A "0" ]
    else begin
      (* free variables *)
      let fvf = free_variables f and fvg = free_variables g and tv = gterm_vars t in
      let expected = List.filter (fun v -> v <> x) fvf @ (if List.mem x fvf then tv else []) in
      let same_set a b = List.for_all (fun v -> List.mem v b) a && List.for_all (fun v -> List.mem v a) b in
      if not (same_set fvg expected) then
        L [ A "cex"; L [ A "free-variables-of-result"; of_list of_var fvg ]; L [ A "expected"; of_list of_var expected ] ]
      else begin
        let st = Semlib.rng_of (Semlib.hash_sexp e) in
        let w = Semlib.window_of ~max_ints:4 ~max_syms:2 [ f; g ] in
        let atoms = Semlib.ground_atoms st (predicates f) (Semlib.take 4 (Semlib.shuffle st (Semlib.general_values w))) 6 in
        let fcs = List.sort_uniq compare (function_constants f @ gterm_fconsts t) in
        let fvs = List.sort_uniq compare (fvf @ tv @ [ x ] @ fvg) in
        let count = ref 0 and result = ref None in
        for _ = 1 to 40 do
          if !result = None then begin
            let i = Semlib.random_subset st atoms in
            let env = Semlib.random_env st w fvs in
            let fi = Semlib.random_ffint st w fcs in
            let tval = eev_g fi env t in
            incr count;
            let lhs = ceval w fi i env g in
            let rhs = ceval w fi i ((x, tval) :: env) f in
            if lhs <> rhs then
              result := Some (L [ A "cex"; L [ A "I"; Semlib.of_fpint i ]; L [ A "env"; Semlib.of_fenv env ];
                                  L [ A "placeholders"; Semlib.of_ffint fi ]; L [ A "window"; Semlib.of_window w ];
                                  L [ A "result-true"; of_boolv lhs ]; L [ A "original-with-x-updated-true"; of_boolv rhs ] ])
          end
        done;
        match !result with Some r -> r | None -> L [ A "ok"; A (string_of_int !count) ]
      end
    end
  | L [ _; L [ A "panic" ] ] | L [ _; L [ A "none" ] ] -> L [ A "ok"; A "0" ]
  | _ -> bad "sem_substitute: %s" (to_string e)

let () =
  Ops.register "substitute" (fun e ->
      let f, x, t = parse_case e in
      match M.Subst.substitute f x t with
      | Some g -> L [ A "some"; of_formula g ]
      | None -> L [ A "panic" ]);
  Ops.register "sem_substitute" sem_substitute
let init () = ()
