(* `anthem verify` end to end -- model side of the op `cli_verify` (audit finding B6):
     input    (verify (equivalence strong|external) (decomposition none|independent|sequential)
                      (direction none|universal|forward|backward) (repr none|mu|tau-star)
                      (bypass b) (no-simplify b) (no-eq-break b) (no-proof-search b)
                      (save none|"dir") (files <node>..))
       <node> = (file "name" "text") | (special "name") | (dir "name" <node>..)
              | (link "name" (file "text")|special|dangling|loop) | (link "name" (dir <node>..))
     result   (exit0 (warnings "Kind"..) (files ("dir/name.p" "bytes")..)) | (error 1) | (panic) | (out-of-fuel)
   = the extracted [CliVerify.run_verify_tree] followed by [CliVerify.dir_state] (one entry per path, sorted).
   The implementation side (harness/src/ops/cliverify.rs) creates the trees, runs the real binary with
   that argument vector and lists the save directory. *)
open Sexp
open Conv
open M.CliVerify

(* the link kinds of `files_sort` (ops_files.ml), a link to a regular file carrying the text read through it *)
let rec cnode = function
  | L [ A "file"; n; t ] -> CFile (str n, str t)
  | L [ A "special"; n ] -> CSpecial (str n)
  | L (A "dir" :: n :: cs) -> CDir (str n, List.map cnode cs)
  | L [ A "link"; n; L [ A "file"; t ] ] -> CLink (str n, CTFile (str t))
  | L [ A "link"; n; A "special" ] -> CLink (str n, CTSpecial)
  | L [ A "link"; n; A "dangling" ] -> CLink (str n, CTDangling)
  | L [ A "link"; n; A "loop" ] -> CLink (str n, CTLoop)
  | L [ A "link"; n; L (A "dir" :: cs) ] -> CLinkDir (str n, List.map cnode cs)
  | e -> bad "node: %s" (to_string e)

let one tag = function
  | L [ A t; v ] when t = tag -> v
  | e -> bad "cli_verify: (%s _) expected: %s" tag (to_string e)

let opt f = function A "none" -> None | v -> Some (f v)

let argv_and_files = function
  | L [ A "verify"; eq; dec; dir; repr; byp; ns; nb; nps; save; L (A "files" :: nodes) ] ->
    let a : verify_argv =
      { a_equivalence = (match one "equivalence" eq with
            | A "strong" -> Strong | A "external" -> External
            | e -> bad "equivalence: %s" (to_string e));
        a_decomposition = opt decomposition (one "decomposition" dec);
        a_direction = opt direction (one "direction" dir);
        a_formula_representation = opt Ops_tasks.frepr (one "repr" repr);
        a_bypass_tightness = boolv (one "bypass" byp);
        a_no_simplify = boolv (one "no-simplify" ns);
        a_no_eq_break = boolv (one "no-eq-break" nb);
        a_no_proof_search = boolv (one "no-proof-search" nps);
        a_save_problems = (match one "save" save with A "none" -> None | S d -> Some (cl_of_string d)
                                                    | e -> bad "save: %s" (to_string e));
        a_files = [] } in
    (a, List.map cnode nodes)
  | e -> bad "cli_verify: %s" (to_string e)

let of_files l = L (A "files" :: List.map (fun (p, t) -> L [ of_str p; of_str t ]) l)

let of_result (r : verify_result) : Sexp.t =
  match r with
  | VExit0 (ws, writes) ->
    L [ A "exit0"; L (A "warnings" :: List.map (fun w -> S (Ops_tasks.ext_warning_name w)) ws); of_files (dir_state writes) ]
  | VError -> L [ A "error"; A "1" ]
  | VPanic -> L [ A "panic" ]
  | VOutOfFuel -> L [ A "out-of-fuel" ]

let cli_verify e =
  let a, nodes = argv_and_files e in
  of_result (run_verify_tree a nodes)

(* the same command line with some flags changed: (flip <what> <case>) for the sensitivity table of
   props/CLIverify.py (which slips of procedures.rs would this case have exposed?) *)
let cli_verify_variant = function
  | L [ A what; e ] ->
    let a, nodes = argv_and_files e in
    let c = clap_parse (with_files a nodes) in
    let read = lookup (file_system nodes) in
    let other_dec = function M.Problem.DIndependent -> M.Problem.DSequential | M.Problem.DSequential -> M.Problem.DIndependent in
    let c' = match what with
      | "no-simplify" -> { c with v_no_simplify = not c.v_no_simplify }
      | "no-eq-break" -> { c with v_no_eq_break = not c.v_no_eq_break }
      | "decomposition" -> { c with v_decomposition = other_dec c.v_decomposition }
      | "bypass" -> { c with v_bypass_tightness = not c.v_bypass_tightness }
      | "direction-universal" -> { c with v_direction = M.Fol.DUniversal }
      | "direction-forward" -> { c with v_direction = M.Fol.DForward }
      | "direction-backward" -> { c with v_direction = M.Fol.DBackward }
      | "repr" -> { c with v_formula_representation =
                             (match c.v_formula_representation with M.Strong.ReprMu -> M.Strong.ReprTauStar | M.Strong.ReprTauStar -> M.Strong.ReprMu) }
      | "equivalence" -> { c with v_equivalence = (match c.v_equivalence with Strong -> External | External -> Strong) }
      | "files-reversed" -> { c with v_files = List.rev c.v_files }
      | w -> bad "cli_verify_variant: %s" w in
    of_result (run_verify read c')
  | e -> bad "cli_verify_variant: %s" (to_string e)

let () =
  Ops.register "cli_verify" cli_verify;
  Ops.register "cli_verify_strong" cli_verify;
  Ops.register "cli_verify_external" cli_verify;
  Ops.register "cli_verify_variant" cli_verify_variant
let init () = ()
