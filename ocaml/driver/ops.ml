(* Registry of model operations: name -> (argument sexp -> result sexp).
   Each ops_*.ml file registers its operations at module initialisation. *)
let table : (string, Sexp.t -> Sexp.t) Hashtbl.t = Hashtbl.create 64
let register (name : string) (f : Sexp.t -> Sexp.t) : unit = Hashtbl.replace table name f
