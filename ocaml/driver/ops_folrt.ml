open Sexp
open Conv
open M.Fol

(* C15 model operations (see harness/src/ops/folrt.rs for the wire format of each op). *)

let text = function S s -> cl_of_string s | e -> bad "quoted text expected: %s" (to_string e)
let of_text (l : char list) : Sexp.t = S (string_of_cl l)

let presult (conv : 'a -> Sexp.t) (r : 'a M.FolParse.presult) : Sexp.t =
  match r with
  | M.FolParse.PR_ok t -> L [ A "ok"; conv t ]
  | M.FolParse.PR_err -> L [ A "err" ]
  | M.FolParse.PR_panic -> L [ A "panic" ]
  | M.FolParse.PR_oof -> bad "model parser ran out of fuel"

(* parse(print t) = t, print idempotent: computed with the model's own printer, lexer and parser *)
let roundtrip (show : 'a -> char list) (parse : char list -> 'a M.FolParse.presult) (conv : 'a -> Sexp.t) (t : 'a) : Sexp.t =
  let printed = show t in
  match parse printed with
  | M.FolParse.PR_err -> L [ A "cex"; A "rejected"; of_text printed ]
  | M.FolParse.PR_panic -> L [ A "panic" ]
  | M.FolParse.PR_oof -> bad "model parser ran out of fuel"
  | M.FolParse.PR_ok t2 ->
    if t2 <> t then L [ A "cex"; A "changed"; of_text printed; conv t2 ]
    else if show t2 <> printed then L [ A "cex"; A "not-idempotent"; of_text printed; of_text (show t2) ]
    else L [ A "ok" ]

let rt_formula = roundtrip M.FolPrint.show_formula M.FolParse.parse_formula_str of_formula
let rt_theory = roundtrip M.FolPrint.show_theory M.FolParse.parse_theory_str of_theory
let rt_spec = roundtrip M.FolPrint.show_spec M.FolParse.parse_spec_str of_specification
let rt_ug = roundtrip M.FolPrint.show_ug M.FolParse.parse_ug_str of_user_guide

let rt_text_of parse rt t =
  match parse (text t) with
  | M.FolParse.PR_ok x -> rt x
  | M.FolParse.PR_err -> L [ A "skip" ]
  | M.FolParse.PR_panic -> L [ A "panic" ]
  | M.FolParse.PR_oof -> bad "model parser ran out of fuel"

let rt_text = function
  | L [ A "formula"; t ] -> rt_text_of M.FolParse.parse_formula_str rt_formula t
  | L [ A "theory"; t ] -> rt_text_of M.FolParse.parse_theory_str rt_theory t
  | L [ A "spec"; t ] -> rt_text_of M.FolParse.parse_spec_str rt_spec t
  | L [ A "ug"; t ] -> rt_text_of M.FolParse.parse_ug_str rt_ug t
  | e -> bad "fol_roundtrip_text: %s" (to_string e)

(* user guide with arities kept as N (no unary nat is built for a 20-digit arity) *)
let of_raw_entry = function
  | M.FolParse.REInput (p, n) -> L [ A "input"; L [ of_str p; of_nint n ] ]
  | M.FolParse.REOutput (p, n) -> L [ A "output"; L [ of_str p; of_nint n ] ]
  | M.FolParse.REPlaceholder (c, s) -> L [ A "placeholder"; of_str c; of_sort s ]
  | M.FolParse.REFormula a -> of_annot a
let of_raw_ug l = L (A "ug" :: List.map of_raw_entry l)

let of_class = function
  | Some c -> L [ A "known"; of_str c ]
  | None -> L [ A "none" ]

(* sem_fol_roundtrip_<k>: input (<input of fol_roundtrip_<k>> <implementation output>).
   (ok 1): the implementation's round trip succeeded;  (ok 0): it failed on a tree of a known class
   (F7b / C15-RIMP, decided by the Coq predicates of Model/FolClass.v) or the case was skipped;
   (cex ..): it failed on a tree outside the known classes. *)
let sem_rt (cls : Sexp.t -> char list option) = function
  | L [ input; out ] ->
    (match out with
     | L [ A "ok" ] -> L [ A "ok"; A "1" ]
     | L [ A "skip" ] -> L [ A "ok"; A "0" ]
     | L (A "cex" :: _) ->
       (match cls input with
        | Some _ -> L [ A "ok"; A "0" ]
        | None -> L [ A "cex"; L [ A "round-trip-failure-outside-the-known-classes"; out ] ])
     | L [ A "panic" ] -> L [ A "cex"; L [ A "implementation-panics-on-its-own-output" ] ]
     | e -> bad "sem_fol_roundtrip: unexpected implementation output %s" (to_string e))
  | e -> bad "sem_fol_roundtrip: %s" (to_string e)

let class_of_text = function
  | L [ A "formula"; t ] -> (match M.FolParse.parse_formula_str (text t) with M.FolParse.PR_ok x -> M.FolClass.known_class_alone x | _ -> None)
  | L [ A "theory"; t ] -> (match M.FolParse.parse_theory_str (text t) with M.FolParse.PR_ok x -> M.FolClass.known_class_theory x | _ -> None)
  | L [ A "spec"; t ] -> (match M.FolParse.parse_spec_str (text t) with M.FolParse.PR_ok x -> M.FolClass.known_class_spec x | _ -> None)
  | L [ A "ug"; t ] -> (match M.FolParse.parse_ug_str (text t) with M.FolParse.PR_ok x -> M.FolClass.known_class_ug x | _ -> None)
  | e -> bad "fol_roundtrip_text: %s" (to_string e)

let () =
  Ops.register "fol_print_formula" (fun e -> of_text (M.FolPrint.show_formula (formula e)));
  Ops.register "fol_print_theory" (fun e -> of_text (M.FolPrint.show_theory (theory e)));
  Ops.register "fol_print_spec" (fun e -> of_text (M.FolPrint.show_spec (specification e)));
  Ops.register "fol_print_ug" (fun e -> of_text (M.FolPrint.show_ug (user_guide e)));
  Ops.register "fol_parse_formula" (fun e -> presult of_formula (M.FolParse.parse_formula_str (text e)));
  Ops.register "fol_parse_theory" (fun e -> presult of_theory (M.FolParse.parse_theory_str (text e)));
  Ops.register "fol_parse_spec" (fun e -> presult of_specification (M.FolParse.parse_spec_str (text e)));
  Ops.register "fol_parse_ug" (fun e -> presult of_raw_ug (M.FolParse.parse_ug_raw_str (text e)));
  Ops.register "fol_roundtrip_formula" (fun e -> rt_formula (formula e));
  Ops.register "fol_roundtrip_theory" (fun e -> rt_theory (theory e));
  Ops.register "fol_roundtrip_spec" (fun e -> rt_spec (specification e));
  Ops.register "fol_roundtrip_ug" (fun e -> rt_ug (user_guide e));
  Ops.register "fol_roundtrip_text" rt_text;
  Ops.register "sem_fol_roundtrip_formula" (sem_rt (fun e -> M.FolClass.known_class_alone (formula e)));
  Ops.register "sem_fol_roundtrip_theory" (sem_rt (fun e -> M.FolClass.known_class_theory (theory e)));
  Ops.register "sem_fol_roundtrip_spec" (sem_rt (fun e -> M.FolClass.known_class_spec (specification e)));
  Ops.register "sem_fol_roundtrip_ug" (sem_rt (fun e -> M.FolClass.known_class_ug (user_guide e)));
  Ops.register "sem_fol_roundtrip_text" (sem_rt class_of_text);
  (* fol_known_class: (theory ..) -> (known "F7b") | (known "C15-RIMP") | (none); also wf *)
  Ops.register "fol_known_class" (fun e -> of_class (M.FolClass.known_class_theory (theory e)));
  Ops.register "fol_wf_theory" (fun e -> of_boolv (M.FolClass.wf_theory (theory e)))
let init () = ()
