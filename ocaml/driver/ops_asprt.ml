(* C14: mini-gringo print/parse round trip -- model-side operations.
     asp_print            program -> "text"                      (model: render (print_program p))
     asp_parse            "text"  -> (ok program) | (err) | (panic)
     asp_roundtrip        program -> (rt "printed" R "printed again"|(none))   R = parse of "printed"
     asp_roundtrip_text   "text"  -> (skip err|panic) | (rt (ok program) "printed" R "printed again"|(none))
   The same four are implemented on the real code by harness/src/ops/asprt.rs; outputs must be
   byte-identical.  The property itself is decided on the IMPLEMENTATION's output by
     sem_asp_roundtrip / sem_asp_roundtrip_text     (ok 1) | (ok 0) [keyword-identifier class F7] | (cex ...)
     sem_asp_roundtrip_strict / ..._text_strict     the same without the F7 exclusion (known-finding replay) *)
open Sexp
open Conv
open M.AspParse

let text_of e = match e with S s | A s -> cl_of_string s | e -> bad "text expected: %s" (to_string e)

let of_pres (r : M.Asp.rule list pres) : Sexp.t =
  match r with
  | POk p -> L [ A "ok"; of_program p ]
  | PFail -> L [ A "err" ]
  | PPanic -> L [ A "panic" ]

let roundtrip_tail (printed : char list) : Sexp.t list =
  let r = parse_program_text printed in
  let again = match r with POk q -> of_str (M.AspPrint.display_program q) | _ -> L [ A "none" ] in
  [ of_str printed; of_pres r; again ]

let asp_roundtrip (e : Sexp.t) : Sexp.t =
  let p = program e in
  L (A "rt" :: roundtrip_tail (M.AspPrint.display_program p))

let asp_roundtrip_text (e : Sexp.t) : Sexp.t =
  match parse_program_text (text_of e) with
  | PFail -> L [ A "skip"; A "err" ]
  | PPanic -> L [ A "skip"; A "panic" ]
  | POk p -> L (A "rt" :: L [ A "ok"; of_program p ] :: roundtrip_tail (M.AspPrint.display_program p))

(* the round trip, judged on what the implementation returned *)
let judge ~(strict : bool) (p : Sexp.t) (printed : Sexp.t) (r : Sexp.t) (again : Sexp.t) : Sexp.t =
  let in_class = (not strict) && (try M.AspPrint.keyword_ident (program p) with _ -> false) in
  if in_class then L [ A "ok"; A "0" ]
  else
    match r with
    | L [ A "ok"; q ] ->
      if q <> p then L [ A "cex"; L [ A "printed"; printed ]; L [ A "parses-to-a-different-tree"; q ]; L [ A "original"; p ] ]
      else if again <> printed then L [ A "cex"; L [ A "printed"; printed ]; L [ A "printed-again"; again ] ]
      else L [ A "ok"; A "1" ]
    | _ -> L [ A "cex"; L [ A "printed"; printed ]; L [ A "is-rejected-by-the-parser"; r ]; L [ A "original"; p ] ]

let sem_roundtrip ~strict (e : Sexp.t) : Sexp.t =
  match e with
  | L [ p; L [ A "rt"; printed; r; again ] ] -> judge ~strict p printed r again
  | _ -> bad "sem_asp_roundtrip: %s" (to_string e)

let sem_roundtrip_text ~strict (e : Sexp.t) : Sexp.t =
  match e with
  | L [ _; L [ A "skip"; _ ] ] -> L [ A "ok"; A "0" ]
  | L [ _; L [ A "rt"; L [ A "ok"; p ]; printed; r; again ] ] -> judge ~strict p printed r again
  | _ -> bad "sem_asp_roundtrip_text: %s" (to_string e)

let () =
  Ops.register "asp_print" (fun e -> of_str (M.AspPrint.display_program (program e)));
  Ops.register "asp_parse" (fun e -> of_pres (parse_program_text (text_of e)));
  Ops.register "asp_roundtrip" asp_roundtrip;
  Ops.register "asp_roundtrip_text" asp_roundtrip_text;
  Ops.register "sem_asp_roundtrip" (sem_roundtrip ~strict:false);
  Ops.register "sem_asp_roundtrip_text" (sem_roundtrip_text ~strict:false);
  Ops.register "sem_asp_roundtrip_strict" (sem_roundtrip ~strict:true);
  Ops.register "sem_asp_roundtrip_text_strict" (sem_roundtrip_text ~strict:true)
let init () = ()
