(* C20: model side of `files_sort`.
   node = (file "n") | (special "n") | (dir "n" node..) | (link "n" file|special|dangling|loop) | (link "n" (dir node..)) *)
open Sexp
open Conv
open M.Files

let rec node = function
  | L [ A "file"; n ] -> File (str n)
  | L [ A "special"; n ] -> Special (str n)
  | L (A "dir" :: n :: cs) -> Dir (str n, List.map node cs)
  | L [ A "link"; n; A "file" ] -> Link (str n, LFile)
  | L [ A "link"; n; A "special" ] -> Link (str n, LSpecial)
  | L [ A "link"; n; A "dangling" ] -> Link (str n, LDangling)
  | L [ A "link"; n; A "loop" ] -> Link (str n, LLoop)
  | L [ A "link"; n; L (A "dir" :: cs) ] -> LinkDir (str n, List.map node cs)
  | e -> bad "node: %s" (to_string e)

let paths l = L (List.map of_str l)
let files_sort e =
  let args = list_of node e in
  match sort args with
  | WErr (EIo p) -> L [ A "err"; L [ A "io"; of_str p ] ]
  | WErr (ELoop p) -> L [ A "err"; L [ A "loop"; of_str p ] ]
  | WOk f ->
  let o = of_opt of_str in
  let spec = match specification f with
    | None -> L [ A "none" ]
    | Some (Coq_inl p) -> L [ A "some"; L [ A "program"; of_str p ] ]
    | Some (Coq_inr p) -> L [ A "some"; L [ A "spec"; of_str p ] ] in
  L [ A "files";
      L [ A "specifications"; paths f.specifications ]; L [ A "programs"; paths f.programs ];
      L [ A "user_guides"; paths f.user_guides ]; L [ A "proof_outlines"; paths f.proof_outlines ];
      L [ A "other"; paths f.other ];
      L [ A "left"; o (left f) ]; L [ A "right"; o (right f) ]; L [ A "specification"; spec ];
      L [ A "program"; o (program f) ]; L [ A "user_guide"; o (user_guide f) ];
      L [ A "proof_outline"; o (proof_outline f) ] ]

let () = Ops.register "files_sort" files_sort
let init () = ()
