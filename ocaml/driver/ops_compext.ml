(* Model-side operations of the composition cluster `compext` (C04full, C02full): the completion
   path and the external-equivalence pipeline computed ENTIRELY in the model
   (Model/ExternalFull.v: TauStar.tau_star, Outline.rp_theory, Completion.completion, the
   INTUITIONISTIC ++ HT ++ CLASSIC fixpoint with explicit fuel, Tightness.is_tight,
   PrivRec.has_private_recursion, External.external_decompose) - no component tables. *)
open Sexp
open Conv

let is_skipped = function L (A "skipped" :: _) -> true | _ -> false
let none = L [ A "none" ]

(* tau_star_completion_full: ((program ..) ((p n)..)) -> (some (theory ..)) | (none) | (panic) *)
let tau_star_completion_full = function
  | L [ p; ins ] ->
    (match M.ExternalFull.tau_star_completion (program p) (list_of pred ins) with
     | M.Outline.Ok r -> of_opt of_theory r
     | M.Outline.Err () -> bad "tau_star_completion: impossible"
     | M.Outline.Panic -> L [ A "panic" ])
  | e -> bad "tau_star_completion_full: %s" (to_string e)

(* external_decompose_full: (external spec program ug outline dec dir repr bypass simplify break)
   -> (ok (warnings ..) (problems ..)) | (err "Variant" ..) | (panic) | (nonterminating) *)
let external_decompose_full e =
  if is_skipped e then none else
  match M.ExternalFull.external_decompose_full M.ExternalFull.full_fuel (Ops_tasks.ext_task e) with
  | M.ExternalFull.XOk (ws, ps) ->
    L [ A "ok"; L (A "warnings" :: List.map (fun w -> S (Ops_tasks.ext_warning_name w)) ws); Ops_tasks.of_problems ps ]
  | M.ExternalFull.XErr err -> Ops_tasks.ext_error_sexp err
  | M.ExternalFull.XPanic -> L [ A "panic" ]
  | M.ExternalFull.XNonterminating -> L [ A "nonterminating" ]

let () =
  Ops.register "tau_star_completion_full" tau_star_completion_full;
  Ops.register "external_decompose_full" external_decompose_full
let init () = ()
