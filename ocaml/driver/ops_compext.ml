(* Model-side operations of the composition cluster `compext` (C04full, C02full): the completion
   path and the external-equivalence pipeline computed ENTIRELY in the model
   (Model/ExternalFull.v: TauStar.tau_star, Outline.rp_theory, Completion.completion, the
   INTUITIONISTIC ++ HT ++ CLASSIC fixpoint with explicit fuel, Tightness.is_tight,
   PrivRec.has_private_recursion, External.external_decompose) - no component tables. *)
open Sexp
open Conv

let is_skipped = function L (A "skipped" :: _) -> true | _ -> false
let none = L [ A "none" ]

(* tau_star_completion_full: ((program ..) ((p n)..)) -> (some (theory ..)) | (none) | (panic) *)
let tau_star_completion_full = function
  | L [ p; ins ] ->
    (match M.ExternalFull.tau_star_completion (program p) (list_of pred ins) with
     | M.Outline.Ok r -> of_opt of_theory r
     | M.Outline.Err () -> bad "tau_star_completion: impossible"
     | M.Outline.Panic -> L [ A "panic" ])
  | e -> bad "tau_star_completion_full: %s" (to_string e)

(* external_decompose_full: (external spec program ug outline dec dir repr bypass simplify break)
   -> (ok (warnings ..) (problems ..)) | (err "Variant" ..) | (panic) | (nonterminating) *)
let external_decompose_full e =
  if is_skipped e then none else
  match M.ExternalFull.external_decompose_full M.ExternalFull.full_fuel (Ops_tasks.ext_task e) with
  | M.ExternalFull.XOk (ws, ps) ->
    L [ A "ok"; Ops_tasks.ext_warnings_sexp ws; Ops_tasks.of_problems ps ]
  | M.ExternalFull.XErr err -> Ops_tasks.ext_error_sexp err
  | M.ExternalFull.XPanic -> L [ A "panic" ]
  | M.ExternalFull.XNonterminating -> L [ A "nonterminating" ]

(* ------------------------------------------------------------------------------------------
   sem_fages: input (((program ..) (inputs)) R), R the implementation's program.tau_star().completion(inputs).
   The oracle of C04 itself (not Clark's characterisation): for a program that is tight, whose
   head predicates are not inputs and that is arithmetic-free (so that evaluation over the
   window of its own constants is exact), and for EVERY interpretation T over a few ground atoms
   of the program's and the input predicates:
        T |= every formula of R     iff     T is a stable model of P + (T restricted to inputs)
   Stable models by brute force from the executable reference semantics (Model/EvalAspTasks.v):
   (T,T) |= P and no H strictly between T's input facts and T has (H,T) |= P. *)
let sem_fages (e : Sexp.t) : Sexp.t =
  let open M.Fol in
  let ok n = L [ A "ok"; A (string_of_int n) ] in
  match e with
  | L [ _; L [ A "panic" ] ] | L [ _; L [ A "none" ] ] -> ok 0
  | L [ L [ p; ins ]; L [ A "some"; d ] ] ->
    let prog = program p and ins = list_of pred ins and d = theory d in
    let heads = M.Asp.program_head_preds prog in
    if M.EvalAspTasks.program_has_arith prog || not (M.Tightness.is_tight prog)
       || List.exists (fun q -> List.mem q heads) ins then ok 0
    else begin
      let consts = List.map (fun s -> FAtomic (AAtom (Semlib.cl "c", [ GSym (SSym s) ]))) (M.Asp.program_fconsts prog) in
      let nums = List.concat_map (fun (r : M.Asp.rule) ->
          List.concat_map (fun t -> match t with M.Asp.TPre (M.Asp.PNum z) -> [ FAtomic (AAtom (Semlib.cl "c", [ GInt (INum z) ])) ] | _ -> [])
            (M.Asp.rule_terms r)) prog in
      match Ops_tasks_sem.exact_window (d @ consts @ nums) with
      | None -> ok 0
      | Some w ->
        let nvals = List.length (M.Eval.w_general w) in
        let depth = List.fold_left (fun k f -> max k (Ops_tasks_sem.qdepth f)) 0 d in
        let nvars = List.fold_left (fun k (r : M.Asp.rule) -> max k (List.length (M.Asp.rule_vars r))) 0 prog in
        if float_of_int nvals ** float_of_int (min depth 6) > 60000. || depth > 8 || nvars > 3 then ok 0
        else begin
          let st = Semlib.rng_of (Semlib.hash_sexp p) in
          let preds = List.fold_left (fun acc q -> if List.mem q acc then acc else acc @ [ q ]) (M.Asp.program_preds prog) ins in
          let vals = Semlib.shuffle st (M.Eval.w_general w) in
          let atoms = Semlib.ground_atoms st preds vals 6 in
          let cands = M.Eval.w_general w in
          let is_input (name, args) = List.exists (fun (q : pred) -> q.psym = name && Conv.int_of_nat q.parity = List.length args) ins in
          let count = ref 0 and result = ref None in
          List.iter (fun t ->
              if !result = None then begin
                incr count;
                let holds = Ops_tasks_sem.make_holds w [] t in
                let models = List.for_all holds d in
                let facts = List.filter is_input t in
                let stable =
                  M.EvalAspTasks.ref_eval cands t t prog
                  && List.for_all (fun h ->
                      List.length h = List.length t
                      || not (List.for_all (fun a -> List.mem a h) facts)
                      || not (M.EvalAspTasks.ref_eval cands h t prog)) (Semlib.subsets t) in
                if models <> stable then
                  result := Some (L [ A "cex"; L [ A "T"; Semlib.of_fpint t ]; L [ A "window"; Semlib.of_window w ];
                                      L [ A "T-satisfies-the-completion"; of_boolv models ];
                                      L [ A "T-is-a-stable-model-of-the-program-with-its-input-facts"; of_boolv stable ] ])
              end) (Semlib.subsets atoms);
          match !result with Some r -> r | None -> ok !count
        end
    end
  | _ -> bad "sem_fages: %s" (to_string e)

(* brute-force stable models of P + (T restricted to the input predicates), reference semantics *)
let is_stable cands (ins : M.Fol.pred list) (prog : M.Asp.program) (t : M.Eval.fpint) : bool =
  let is_input (name, args) = List.exists (fun (q : M.Fol.pred) -> q.psym = name && Conv.int_of_nat q.parity = List.length args) ins in
  let facts = List.filter is_input t in
  M.EvalAspTasks.ref_eval cands t t prog
  && List.for_all (fun h ->
      List.length h = List.length t
      || not (List.for_all (fun a -> List.mem a h) facts)
      || not (M.EvalAspTasks.ref_eval cands h t prog)) (Semlib.subsets t)

(* ------------------------------------------------------------------------------------------
   sem_c02_behaviour: input ((external ..) R), R the implementation's decompose() result.
   The statement of C02_modulo_private_uniqueness as an executable test, on accepted
   program-vs-program tasks without proof outline and placeholders whose programs are tight and
   arithmetic-free (evaluation over the window of the task's own constants is exact), outside
   the known class F9 and under validated_no_clash (no symbol equal to a 0-ary predicate): for EVERY interpretation M over a few ground atoms of the input, output and
   private predicates (the program's private predicates under their renamed names) that satisfies
   the user-guide assumptions and the completed definitions of the private predicates,
      some emitted forward problem is refuted by M
        iff  M|voc(L) is a stable model of L + its input facts  and  (M read through the renaming)|voc(R)
             is not a stable model of R + its input facts
   and symmetrically for the backward problems.  Stable models by brute force.

   VOCABULARY OF THE TASK (audit A4, finding F17 - repaired by /repo 70e6ace, refined by 18b2e85).  The
   behaviour of a program is read on its own predicates, the input predicates and the output
   predicates of the user guide that occur on SOME side of the task (= Proofs/C02Full.ext_voc): an
   output predicate that does not occur in a program but on the other side is empty in every
   external stable model of it (F17 stays detected: the t17 witness in the corpus).  An output
   predicate that occurs on NEITHER side is outside the vocabulary of both sides - since 18b2e85 no
   emitted formula mentions it, M refutes a problem whatever extent it gives to it, and M is cut to
   the vocabulary before the stable-model test; the window of ground atoms still ranges over such
   predicates, so these M are tried.  (With such a predicate in the vocabulary the test reports
   e.g. `r. out2 :- r.` vs the empty program, `output: out/1. output: out2/0.`, M = {r, out(sup)}:
   backward_problem refuted, M stable on neither side.)  Until the repair the
   regular op excused exactly that class (an output predicate missing from a program was left out
   of THAT program's vocabulary) and the strict variant `sem_c02_behaviour_outputs` replayed the
   recorded finding.  Now the side that lacks an output predicate carries its empty completed
   definition, the class is no longer excused, and both names run the same (strict) test: on a
   tree without the repair the witness of F17 (corpus) is reported as a counterexample.

   RENAMED CONSTANTS (audit A2, finding F8c).  If a symbolic constant s equals a 0-ary predicate of
   the task, rename_conflicting_symbols prints it `s__s`.  The regular op reads `s__s` as the
   constant s it stands for (un-renames the problems; skipped only when a constant `s__s` exists
   besides s), so other violations inside the class are still reported, and leaves the
   symbol_order chain - false for those constants, C12_chain_refuted_after_rename - out of account.
   [strict_symbols = true] takes the printed names at face value, as the prover does (the chain makes
   them distinct constants in byte order): that is the recorded finding F8c. *)
let sem_c02_behaviour ~(strict_symbols : bool) (e : Sexp.t) : Sexp.t =
  let open M.Fol in
  let open M.Problem in
  let ok n = L [ A "ok"; A (string_of_int n) ] in
  match e with
  | L [ task; L [ A "ok"; _; L (A "problems" :: pbs) ] ] ->
    let t = Ops_tasks.ext_task task in
    (match t.et_specification with
     | M.Datatypes.Coq_inr _ -> ok 0
     | M.Datatypes.Coq_inl left ->
       let right = t.et_program in
       let ug = t.et_user_guide in
       let public = M.External.ug_public_predicates ug and ins = M.External.ug_input_predicates ug in
       let sp = M.External.task_spec_private t and pp = M.External.task_prog_private t in
       let both = M.External.iset_inter pred_dec sp pp in
       let renamed (p : pred) = if List.mem p both then { p with psym = p.psym @ Semlib.cl "_p" } else p in
       let right_private = List.map renamed pp in
       let privates = sp @ right_private in
       let clash = List.exists (fun p -> let r = renamed p in List.mem r sp || List.mem r pp || List.mem r public) both in
       (* the side condition validated_no_clash of the theorem: no symbol equal to a 0-ary predicate
          (otherwise rename_conflicting_symbols renames the symbol to s__s in the problems) *)
       let syms = M.Asp.program_fconsts left @ M.Asp.program_fconsts right
                  @ List.concat_map (fun (a : aformula_annot) -> M.Fol.symbols a.an_formula) (M.External.ug_formulas ug) in
       let clash_syms = List.filter (fun s ->
           List.exists (fun (q : pred) -> Conv.int_of_nat q.parity = 0 && q.psym = s)
             (public @ privates @ M.Asp.program_preds left @ M.Asp.program_preds right))
           (List.sort_uniq compare syms) in
       let ambiguous = List.exists (fun s -> List.mem (s @ Ops_tasks_sem.suffix_s) syms) clash_syms in
       if t.et_proof_outline <> [] || M.External.ug_placeholders ug <> [] || clash || ((not strict_symbols) && ambiguous)
          || M.EvalAspTasks.program_has_arith left || M.EvalAspTasks.program_has_arith right
          || not (M.Tightness.is_tight left) || not (M.Tightness.is_tight right)
          || pbs = [] (* the private definitions are read off the problems' stable premises *) then ok 0
       else begin
         let pbs = List.map problem pbs in
         let pbs = if strict_symbols then pbs else List.map (Ops_tasks_sem.unrename_problem clash_syms) pbs in
         let all_formulas = List.concat_map Ops_tasks_sem.problem_formulas pbs in
         let term_consts (prog : M.Asp.program) =
           List.concat_map (fun (r : M.Asp.rule) ->
               List.concat_map (fun tm -> match tm with
                   | M.Asp.TPre (M.Asp.PNum z) -> [ FAtomic (AAtom (Semlib.cl "c", [ GInt (INum z) ])) ]
                   | M.Asp.TPre (M.Asp.PSym s) -> [ FAtomic (AAtom (Semlib.cl "c", [ GSym (SSym s) ])) ]
                   | _ -> []) (M.Asp.rule_terms r)) prog in
         match Ops_tasks_sem.exact_window (all_formulas @ term_consts left @ term_consts right) with
         | None -> ok 0
         | Some w ->
           let nvals = List.length (M.Eval.w_general w) in
           let depth = List.fold_left (fun d f -> max d (Ops_tasks_sem.qdepth f)) 0 all_formulas in
           let nvars = List.fold_left (fun d (r : M.Asp.rule) -> max d (List.length (M.Asp.rule_vars r))) 0 (left @ right) in
           if float_of_int nvals ** float_of_int (min depth 6) > 60000. || depth > 8 || nvars > 3 then ok 0
           else begin
             let st = Semlib.rng_of (Semlib.hash_sexp task) in
             let uniq l = List.fold_left (fun acc x -> if List.mem x acc then acc else acc @ [ x ]) [] l in
             let vocab = uniq (public @ privates) in
             let vals = Semlib.shuffle st (M.Eval.w_general w) in
             let atoms = Semlib.ground_atoms st vocab vals 7 in
             let cands = M.Eval.w_general w in
             let in_voc (voc : pred list) (name, args) =
               List.exists (fun (q : pred) -> q.psym = name && Conv.int_of_nat q.parity = List.length args) voc in
             let occurring = M.External.task_occurring_predicates t in
             let outs = List.filter (fun q -> List.mem q occurring) (M.External.ug_output_predicates ug) in
             let voc_of (prog : M.Asp.program) =
               let ps = M.Asp.program_preds prog in
               uniq (ps @ ins @ outs) in
             let voc_l = voc_of left and voc_r = voc_of right in
             (* M read through the renaming, on R's vocabulary: p(args) holds iff M has renamed(p)(args) *)
             let side_r (m : M.Eval.fpint) : M.Eval.fpint =
               List.concat_map (fun (q : pred) ->
                   let q' = renamed q in
                   List.filter_map (fun (name, args) ->
                       if name = q'.psym && List.length args = Conv.int_of_nat q.parity && (q' = q || List.mem q both)
                       then Some (q.psym, args) else None) m) voc_r in
             let ug_assumptions = List.filter_map (fun (a : aformula_annot) ->
                 match a.an_role with RAssumption -> Some a.an_formula | _ -> None) (M.External.ug_formulas ug) in
             let private_defs = List.concat_map (fun (p : problem) ->
                 List.filter_map (fun (a : pformula) ->
                     if a.pf_role = PAxiom && Ops_tasks_sem.find_sub (string_of_cl a.pf_name) "completed_definition_of_" <> None then
                       (match M.External.head_predicate a.pf_formula with
                        | Some hp when List.mem hp privates && not (List.mem hp public) -> Some a.pf_formula
                        | _ -> None)
                     else None) p.pb_formulas) pbs in
             let count = ref 0 and result = ref None in
             List.iter (fun m ->
                 if !result = None then begin
                   let holds = Ops_tasks_sem.make_holds w [] m in
                   if List.for_all holds ug_assumptions && List.for_all holds private_defs then begin
                     incr count;
                     let tl = List.filter (in_voc voc_l) m and trr = side_r m in
                     let sl = is_stable cands ins left tl and sr = is_stable cands ins right trr in
                     let check side enabled expected =
                       let actual = List.exists (fun p -> Ops_tasks_sem.starts_with side (Ops_tasks_sem.name_of p) && Ops_tasks_sem.refutes holds p) pbs in
                       let expected = enabled && expected in
                       if actual <> expected && !result = None then
                         result := Some (L [ A "cex"; L [ A "direction"; A side ]; L [ A "M"; Semlib.of_fpint m ];
                                             L [ A "window"; Semlib.of_window w ];
                                             L [ A "some-problem-refuted"; of_boolv actual ];
                                             L [ A "specification-side-stable"; of_boolv sl ]; L [ A "program-side-stable"; of_boolv sr ] ]) in
                     let fw = (match t.et_direction with DUniversal | DForward -> true | DBackward -> false)
                     and bw = (match t.et_direction with DUniversal | DBackward -> true | DForward -> false) in
                     check "forward" fw (sl && not sr);
                     check "backward" bw (sr && not sl)
                   end
                 end) (Semlib.subsets atoms);
             match !result with Some r -> r | None -> ok !count
           end
       end)
  | L [ _; _ ] -> ok 0
  | _ -> bad "sem_c02_behaviour: %s" (to_string e)

let () =
  Ops.register "sem_c02_behaviour" (sem_c02_behaviour ~strict_symbols:false);
  (* former strict variant (replay oracle of finding F17); now the same test *)
  Ops.register "sem_c02_behaviour_outputs" (sem_c02_behaviour ~strict_symbols:false);
  Ops.register "sem_c02_behaviour_symbols" (sem_c02_behaviour ~strict_symbols:true);
  Ops.register "external_decompose_small" external_decompose_full;
  Ops.register "tau_star_completion_small" tau_star_completion_full;
  Ops.register "sem_fages" sem_fages;
  Ops.register "tau_star_completion_full" tau_star_completion_full;
  Ops.register "external_decompose_full" external_decompose_full
let init () = ()
