open Sexp
open Conv
open M.Fol
open M.Eval

let of_string_result = function Some s -> S (string_of_cl s) | None -> L [ A "panic" ]

(* sem_tptp: input (F "text") where text is the implementation's Format(&F).
   Lexes the IMPLEMENTATION's text, reads it with the extracted TPTP reader (tff_read), and
   compares the truth value of the formula read (tff_eval, standard structure) with ceval of F on
   sampled finite interpretations.  A lexical error, an unreadable text or a different truth
   value is a (cex ..).  Formulas outside wf_tptp (identifier shapes of C09's IdentClass, empty
   chains/binders) are answered (ok 0). *)
let sem_tptp (e : Sexp.t) : Sexp.t =
  match e with
  | L [ f; S text ] ->
    let f = formula f in
    if not (M.TptpPrint.wf_tptp f) then L [ A "ok"; A "0" ]
    else begin
      match (try Ok (Tff_lex.tokens text) with Tff_lex.Lex_error m -> Error m) with
      | Error m -> L [ A "cex"; L [ A "lexical-error"; S m ]; S text ]
      | Ok toks ->
        match M.TptpPrint.tff_read toks with
        | None -> L [ A "cex"; L [ A "not-a-tff-formula" ]; S text ]
        | Some g ->
          let st = Semlib.rng_of (Semlib.hash_sexp e) in
          let w = Semlib.window_of ~max_ints:4 ~max_syms:3 [ f ] in
          let vals = Semlib.take 4 (Semlib.shuffle st (Semlib.general_values w)) in
          let atoms = Semlib.ground_atoms st (predicates f) vals 6 in
          let fvs = free_variables f in
          let fcs = function_constants f in
          let count = ref 0 in
          let result = ref None in
          for _ = 1 to 12 do
            if !result = None then begin
              let i = Semlib.random_subset st atoms in
              let env = Semlib.random_env st w fvs in
              let fi = Semlib.random_ffint st w fcs in
              incr count;
              let lhs = ceval w fi i env f in
              let rhs = M.TffEval.tff_eval w fi i env g in
              if lhs <> rhs then
                result := Some (L [ A "cex"; L [ A "I"; Semlib.of_fpint i ]; L [ A "env"; Semlib.of_fenv env ];
                                    L [ A "placeholders"; Semlib.of_ffint fi ]; L [ A "window"; Semlib.of_window w ];
                                    L [ A "formula-true"; of_boolv lhs ]; L [ A "tptp-text-true"; of_boolv rhs ]; S text ])
            end
          done;
          (match !result with Some r -> r | None -> L [ A "ok"; A (string_of_int !count) ])
    end
  | L [ _; L [ A "panic" ] ] -> L [ A "ok"; A "0" ]
  | _ -> bad "sem_tptp: %s" (to_string e)

let problem_pipeline (e : Sexp.t) : Sexp.t =
  match e with
  | L [ p; d ] ->
    let raw = problem p in
    let open M.Problem in
    let p = create_unique_formula_names (rename_conflicting_symbols (add_annotated_formulas (with_name raw.pb_name) raw.pb_formulas)) in
    L (List.map of_problem (decompose p (decomposition d)))
  | _ -> bad "problem_pipeline: %s" (to_string e)

let strong_transition (e : Sexp.t) : Sexp.t =
  match e with
  | L [ l; r ] -> of_theory (M.Transition.transition_axioms (program l) (program r))
  | _ -> bad "strong_transition: %s" (to_string e)

let () =
  Ops.register "problem_display" (fun e -> of_string_result (M.ProblemPrint.problem_display (problem e)));
  Ops.register "problem_pipeline" problem_pipeline;
  Ops.register "strong_transition" strong_transition;
  Ops.register "tptp_format" (fun e -> of_string_result (M.TptpPrint.tptp_format (formula e)));
  Ops.register "sem_tptp" sem_tptp
let init () = ()
