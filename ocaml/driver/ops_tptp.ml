open Sexp
open Conv
open M.Fol
open M.Eval
let pred_dec_ = M.Fol.pred_dec

let of_string_result = function Some s -> S (string_of_cl s) | None -> L [ A "panic" ]

(* sem_tptp: input (F "text") where text is the implementation's Format(&F).
   Lexes the IMPLEMENTATION's text, reads it with the extracted TPTP reader (tff_read), and
   compares the truth value of the formula read (tff_eval, standard structure) with ceval of F on
   sampled finite interpretations.  A lexical error, an unreadable text or a different truth
   value is a (cex ..).  Formulas outside wf_tptp (identifier shapes of C09's IdentClass, empty
   chains/binders) are answered (ok 0). *)
let sem_tptp (e : Sexp.t) : Sexp.t =
  match e with
  | L [ f; S text ] ->
    let f = formula f in
    if not (M.TptpPrint.wf_tptp f) then L [ A "ok"; A "0" ]
    else begin
      match (try Ok (Tff_lex.tokens text) with Tff_lex.Lex_error m -> Error m) with
      | Error m -> L [ A "cex"; L [ A "lexical-error"; S m ]; S text ]
      | Ok toks ->
        match M.TptpPrint.tff_read toks with
        | None -> L [ A "cex"; L [ A "not-a-tff-formula" ]; S text ]
        | Some g when
            (* sorts survive: g type-checks against the declarations anthem would emit for F
               (preamble + predicates/constants of F), free variables typed by their sort *)
            (let pb = { M.Problem.pb_name = cl_of_string "f";
                        pb_formulas = [ { M.Problem.pf_name = cl_of_string "f"; pf_role = M.Problem.PConjecture; pf_formula = f } ] } in
             M.ProblemPrint.ident_ok pb
             && not (M.TffWt.wt_formula (M.TffWt.decl_sigs (M.ProblemPrint.emit pb))
                       (List.map M.TptpPrint.tff_of_var (free_variables f)) g)) ->
          L [ A "cex"; L [ A "ill-typed-tff-formula" ]; S text ]
        | Some g ->
          let st = Semlib.rng_of (Semlib.hash_sexp e) in
          let w = Semlib.window_of ~max_ints:4 ~max_syms:3 [ f ] in
          let vals = Semlib.take 4 (Semlib.shuffle st (Semlib.general_values w)) in
          let atoms = Semlib.ground_atoms st (predicates f) vals 6 in
          let fvs = free_variables f in
          let fcs = function_constants f in
          let count = ref 0 in
          let result = ref None in
          for _ = 1 to 12 do
            if !result = None then begin
              let i = Semlib.random_subset st atoms in
              let env = Semlib.random_env st w fvs in
              let fi = Semlib.random_ffint st w fcs in
              incr count;
              let lhs = ceval w fi i env f in
              let rhs = M.TffEval.tff_eval [] w fi i env g in
              if lhs <> rhs then
                result := Some (L [ A "cex"; L [ A "I"; Semlib.of_fpint i ]; L [ A "env"; Semlib.of_fenv env ];
                                    L [ A "placeholders"; Semlib.of_ffint fi ]; L [ A "window"; Semlib.of_window w ];
                                    L [ A "formula-true"; of_boolv lhs ]; L [ A "tptp-text-true"; of_boolv rhs ]; S text ])
            end
          done;
          (match !result with Some r -> r | None -> L [ A "ok"; A (string_of_int !count) ])
    end
  | L [ _; L [ A "panic" ] ] -> L [ A "ok"; A "0" ]
  | _ -> bad "sem_tptp: %s" (to_string e)

(* ---------- C09 / C12: the IMPLEMENTATION's .p text ---------- *)
(* The text is read by the EXTRACTED specification reader M.TffText.read_problem (the reader of
   C09_display_reads_as_emit / C09_text / C06_text).  The hand-written OCaml reader
   (tff_problem_read.ml) is run as well: it supplies the error message, and whenever both readers
   accept, their results must be equal (an independent implementation validating the
   specification reader on every case). *)
exception Readers_disagree of string
let read_text (text : string) : (M.Tff.tff_problem, string) result =
  let spec = M.TffText.read_problem (cl_of_string text) in
  let hand = try Ok (Tff_problem_read.read text) with Tff_problem_read.Read_error msg -> Error msg in
  match spec, hand with
  | Some a, Ok b -> if a = b then Ok a else raise (Readers_disagree "both readers accept the text but read different problems")
  | Some _, Error m -> raise (Readers_disagree ("the specification reader accepts a text the OCaml reader rejects: " ^ m))
  | None, Ok _ ->
    (* the specification reader is stricter (no comments, operators separated from `!`): not an
       error of the implementation unless the text is anthem's *)
    Error "rejected by the specification reader M.TffText.read_problem (accepted by the OCaml reader)"
  | None, Error m -> Error m

let model_pipeline raw d =
  let open M.Problem in
  decompose (create_unique_formula_names (rename_conflicting_symbols (add_annotated_formulas (with_name raw.pb_name) raw.pb_formulas))) d

let str_of cl = string_of_cl cl

(* first duplicate of a list *)
let rec first_dup = function
  | [] -> None
  | x :: r -> if List.mem x r then Some x else first_dup r

(* components of wt_problem in checking order:
   (label, check, excusable inside IdentClass, detail) *)
let wt_components (tp : M.Tff.tff_problem) =
  let open M.TffWt in
  let sg = decl_sigs tp in
  [ ("identifier-not-a-lower-word", wt_idents tp, true,
     (fun () -> match List.find_opt (fun d -> not (M.Tff.is_lower_word d.M.Tff.d_ident)) tp.M.Tff.tp_decls with
        | Some d -> str_of d.M.Tff.d_ident | None -> ""));
    ("identifier-declared-twice", wt_decl_once tp, true,
     (fun () -> match first_dup (List.map (fun d -> str_of d.M.Tff.d_ident) tp.M.Tff.tp_decls) with Some x -> x | None -> ""));
    ("undeclared-type-in-signature", wt_decl_types tp, false, (fun () -> ""));
    ("formula-name-not-a-lower-word", wt_names tp, true, (fun () -> ""));
    ("formula-names-not-unique", wt_names_unique tp, false,
     (fun () -> match first_dup (List.map (fun d -> str_of d.M.Tff.d_name) tp.M.Tff.tp_decls
                                 @ List.map (fun a -> str_of a.M.Tff.n_name) tp.M.Tff.tp_formulas) with Some x -> x | None -> ""));
    ("ill-typed-undeclared-or-unbound-in-formula", wt_formulas tp, true,
     (fun () -> match List.find_opt (fun a -> not (wt_formula sg [] a.M.Tff.n_formula)) tp.M.Tff.tp_formulas with
        | Some a -> str_of a.M.Tff.n_name | None -> ""));
    ("not-exactly-one-conjecture", wt_one_conjecture tp, false, (fun () -> "")) ]

(* sem_problem_wt: input ((raw d) ("text" ..)) = problem_emit's input and the implementation's
   output.  Parses each IMPLEMENTATION text with the TFF problem reader, runs the extracted
   wt_problem on it; answers (ok <problems checked>) or (cex <first failing check> <detail>).
   A problem whose model counterpart lies in IdentClass (ident_ok = false) is excused for the
   identifier-related components only (the recorded witnesses are replayed through
   known_findings.jsonl with the strict variant); formulas with free variables in the input excuse
   the formula typing (the property speaks of closed formulas). *)
let sem_problem_wt ~(strict : bool) (e : Sexp.t) : Sexp.t =
  match e with
  | L [ L [ p; d ]; L texts ] ->
    let raw = problem p in
    let models = model_pipeline raw (decomposition d) in
    let closed = List.for_all (fun a -> free_variables a.M.Problem.pf_formula = []) raw.M.Problem.pb_formulas in
    if List.length models <> List.length texts then
      L [ A "cex"; L [ A "number-of-problems"; A (string_of_int (List.length texts)); A (string_of_int (List.length models)) ] ]
    else begin
      let checked = ref 0 in
      let result = ref None in
      List.iteri (fun i (m, t) ->
          if !result = None then begin
            let text = match t with S x -> x | _ -> bad "sem_problem_wt: string expected" in
            let in_class = not (M.ProblemPrint.ident_ok m) in
            let excuse excusable = (not strict) && excusable && in_class in
            match (try read_text text with Readers_disagree msg ->
                     result := Some (L [ A "cex"; L [ A "problem"; A (string_of_int i) ]; L [ A "readers-disagree"; S msg ] ]);
                     Error msg) with
            | Error _ when !result <> None -> ()
            | Error msg ->
              (* an input formula with free variables is outside the property's premise *)
              if not (excuse true) && (strict || closed) then
                result := Some (L [ A "cex"; L [ A "problem"; A (string_of_int i) ]; L [ A "unreadable"; S msg ] ])
            | Ok tp ->
              let fails = List.filter (fun (_, okc, _, _) -> not okc) (wt_components tp) in
              let fails = List.filter (fun (label, _, excusable, _) ->
                  not (excuse excusable)
                  && not ((not strict) && (not closed) && label = "ill-typed-undeclared-or-unbound-in-formula")) fails in
              (match fails with
               | (label, _, _, detail) :: _ ->
                 result := Some (L [ A "cex"; L [ A "problem"; A (string_of_int i) ]; L [ A label; S (detail ()) ] ])
               | [] ->
                 if M.TffWt.wt_problem tp then begin
                   incr checked;
                   (* the text, read back, is the structure the model emits *)
                   if List.for_all (fun a -> M.TptpPrint.wf_lex a.M.Problem.pf_formula) m.M.Problem.pb_formulas
                   && tp <> M.ProblemPrint.emit m then
                     result := Some (L [ A "cex"; L [ A "problem"; A (string_of_int i) ]; L [ A "text-reads-differently-from-model-structure" ] ])
                 end)
          end) (List.combine models texts);
      match !result with Some r -> r | None -> L [ A "ok"; A (string_of_int !checked) ]
    end
  | _ -> bad "sem_problem_wt: %s" (to_string e)

(* sem_problem_meaning (C06_in_problem / C06_text): input ((raw d) ("text" ..)).  For every emitted
   problem outside IdentClass whose formulas are lexically in the parser image: the IMPLEMENTATION's
   text is read by the specification reader; the constant signature is taken from the
   declarations IN THE TEXT (csig_of_decls: type_symbol_i = symbolic constant,
   type_function_constant_i = placeholder); every source formula must occur (same name) and its
   reading, evaluated under that signature (tff_eval), must have the truth value ceval gives the
   source formula, on sampled finite interpretations.  Symbolic constants that end in _g/_i/_s
   (renamed p__s included) are covered: they are declared. *)
let sem_problem_meaning (e : Sexp.t) : Sexp.t =
  match e with
  | L [ L [ p; d ]; L texts ] ->
    let raw = problem p in
    let models = model_pipeline raw (decomposition d) in
    if List.length models <> List.length texts then L [ A "ok"; A "0" ] (* reported by sem_problem_wt *)
    else begin
      let count = ref 0 in
      let result = ref None in
      let fail i what = if !result = None then result := Some (L [ A "cex"; L [ A "problem"; A (string_of_int i) ]; what ]) in
      List.iteri (fun i (m, t) ->
          let text = match t with S x -> x | _ -> bad "sem_problem_meaning: string expected" in
          if !result = None && M.ProblemPrint.ident_ok m
             && List.for_all (fun a -> M.TptpPrint.wf_lex a.M.Problem.pf_formula) m.M.Problem.pb_formulas then
            match M.TffText.read_problem (cl_of_string text) with
            | None -> fail i (L [ A "unreadable-by-the-specification-reader" ])
            | Some tp ->
              let k = M.TffSem.csig_of_decls tp.M.Tff.tp_decls in
              if k <> M.ProblemPrint.problem_csig m then fail i (L [ A "declared-constant-signature-differs-from-the-model" ]);
              let st = Semlib.rng_of (Semlib.hash_sexp (L [ e; A (string_of_int i) ])) in
              let fs = List.map (fun a -> a.M.Problem.pf_formula) m.M.Problem.pb_formulas in
              let w = Semlib.window_of ~max_ints:3 ~max_syms:3 fs in
              let vals = Semlib.take 3 (Semlib.shuffle st (Semlib.general_values w)) in
              let preds = List.fold_left (fun acc f -> M.ISet.iset_extend pred_dec_ acc (predicates f)) [] fs in
              let atoms = Semlib.ground_atoms st preds vals 6 in
              List.iter (fun a ->
                  let f = a.M.Problem.pf_formula in
                  match List.find_opt (fun nf -> nf.M.Tff.n_name = a.M.Problem.pf_name) tp.M.Tff.tp_formulas with
                  | None -> fail i (L [ A "formula-missing-from-the-text"; S (str_of a.M.Problem.pf_name) ])
                  | Some nf ->
                    for _ = 1 to 4 do
                      if !result = None then begin
                        let it = Semlib.random_subset st atoms in
                        let env = Semlib.random_env st w (free_variables f) in
                        let fi = Semlib.random_ffint st w (function_constants f) in
                        incr count;
                        let lhs = ceval w fi it env f in
                        let rhs = M.TffEval.tff_eval k w fi it env nf.M.Tff.n_formula in
                        if lhs <> rhs then
                          fail i (L [ A "different-truth-value"; S (str_of a.M.Problem.pf_name);
                                      L [ A "I"; Semlib.of_fpint it ]; L [ A "env"; Semlib.of_fenv env ];
                                      L [ A "placeholders"; Semlib.of_ffint fi ]; L [ A "window"; Semlib.of_window w ];
                                      L [ A "formula-true"; of_boolv lhs ]; L [ A "text-true"; of_boolv rhs ] ])
                      end
                    done) m.M.Problem.pb_formulas
          ) (List.combine models texts);
      match !result with Some r -> r | None -> L [ A "ok"; A (string_of_int !count) ]
    end
  | _ -> bad "sem_problem_meaning: %s" (to_string e)

(* sem_chain (C12): input ((raw d) ("text" ..)).  In each implementation text: every
   symbol_order_i axiom must be TRUE in the standard structure for the printed names (symbolic
   constants denote themselves: C12_chain_true), the axioms must form a chain a1 < a2, a2 < a3, ..
   and the chain must contain every declared symbolic constant (type_symbol_i).
   Moreover (audit A2) every axiom must be true for the constants the printed names STAND FOR: a
   constant s of the raw problem that equals a 0-ary predicate of it is printed `s__s`
   (rename_conflicting_symbols); the axiom `x < y` is judged for all constants s1, s2 of the raw
   problem printed as x, y.  [sem_chain_all] reports every such axiom that is false
   (C12_chain_refuted_after_rename: findings F8c / F8b); the regular [sem_chain] excuses exactly the
   recorded class - an axiom one of whose two constants was renamed by rename_conflicting_symbols -
   and reports everything else. *)
let sem_chain_gen ~(all : bool) (e : Sexp.t) : Sexp.t =
  match e with
  | L [ L [ p; d ]; L texts ] ->
    let raw = problem p in
    let models = model_pipeline raw (decomposition d) in
    let pre = M.Problem.add_annotated_formulas (M.Problem.with_name raw.M.Problem.pb_name) raw.M.Problem.pb_formulas in
    let preds0 = List.filter (fun (q : M.Fol.pred) -> Conv.int_of_nat q.M.Fol.parity = 0) (M.Problem.problem_predicates pre) in
    let originals = M.Problem.problem_symbols pre in
    let is_renamed s = List.exists (fun (q : M.Fol.pred) -> q.M.Fol.psym = s) preds0 in
    let printed s = if is_renamed s then s @ cl_of_string "__s" else s in
    let denoted x = List.filter (fun s -> printed s = x) originals in
    let count = ref 0 in
    let result = ref None in
    let fail i what = if !result = None then result := Some (L [ A "cex"; L [ A "problem"; A (string_of_int i) ]; what ]) in
    List.iteri (fun i t ->
        let text = match t with S x -> x | _ -> bad "sem_chain: string expected" in
        let in_class = match List.nth_opt models i with Some m -> not (M.ProblemPrint.ident_ok m) | None -> false in
        match (try read_text text with Readers_disagree msg -> Error msg) with
        | Error _ -> ()              (* an unreadable text is C09's business (sem_problem_wt) *)
        | Ok _ when in_class -> ()   (* identifier clashes (C09 IdentClass): constants do not denote themselves *)
        | Ok tp ->
          let starts pre s = String.length s >= String.length pre && String.sub s 0 (String.length pre) = pre in
          let chain = List.filter (fun a -> starts "symbol_order_" (str_of a.M.Tff.n_name)) tp.M.Tff.tp_formulas in
          let syms = List.filter_map (fun dcl -> if starts "type_symbol_" (str_of dcl.M.Tff.d_name) then Some dcl.M.Tff.d_ident else None) tp.M.Tff.tp_decls in
          (* shape: p__less__(f__symbolic__(a), f__symbolic__(b)), consecutive *)
          let pairs = List.map (fun a ->
              match a.M.Tff.n_formula with
              | M.Tff.TPred (_, [ M.Tff.TApp (_, [ M.Tff.TApp (x, []) ]); M.Tff.TApp (_, [ M.Tff.TApp (y, []) ]) ]) -> Some (x, y)
              | _ -> None) chain in
          if List.exists (fun x -> x = None) pairs then fail i (L [ A "symbol-order-axiom-of-unexpected-shape" ])
          else begin
            let pairs = List.filter_map (fun x -> x) pairs in
            (* truth in the standard structure: symbolic constants denote themselves and are ordered
               by the lexicographic byte order of their names *)
            List.iter2 (fun a (x, y) ->
                incr count;
                if not (compare (str_of x) (str_of y) < 0) then
                  fail i (L [ A "symbol-order-axiom-false-in-the-standard-interpretation"; S (str_of a.M.Tff.n_name);
                              S (str_of x); S (str_of y) ]);
                (* ... and for the constants the printed names stand for *)
                List.iter (fun s1 -> List.iter (fun s2 ->
                    if not (compare (str_of s1) (str_of s2) < 0) && (all || not (is_renamed s1 || is_renamed s2)) then
                      fail i (L [ A "symbol-order-axiom-false-for-the-constants-the-printed-names-stand-for";
                                  S (str_of a.M.Tff.n_name); L [ A "printed"; S (str_of x); S (str_of y) ];
                                  L [ A "stand-for"; S (str_of s1); S (str_of s2) ] ])) (denoted y)) (denoted x)) chain pairs;
            let rec linked = function (_, b) :: ((c, _) :: _ as r) -> b = c && linked r | _ -> true in
            if not (linked pairs) then fail i (L [ A "symbol-order-axioms-do-not-form-a-chain" ]);
            let mentioned = List.concat_map (fun (a, b) -> [ a; b ]) pairs in
            if List.length syms >= 2 then
              List.iter (fun s0 -> if not (List.mem s0 mentioned) then
                            fail i (L [ A "symbolic-constant-missing-from-the-chain"; S (str_of s0) ])) syms
          end) texts;
    (match !result with Some r -> r | None -> L [ A "ok"; A (string_of_int !count) ])
  | _ -> bad "sem_chain: %s" (to_string e)
let sem_chain = sem_chain_gen ~all:false
let sem_chain_all = sem_chain_gen ~all:true

(* sem_transition (C12): input ((L R) (theory f..)) = the implementation's transition axioms.
   Each must be true in merge(H,T) for every H subset-of T sampled over ground atoms of the
   programs' predicates, and there must be one axiom per predicate of L and R. *)
let sem_transition (e : Sexp.t) : Sexp.t =
  match e with
  (* no problem was emitted (a right program without rules has no conjecture): nothing to judge *)
  | L [ _; L [ A "none" ] ] -> L [ A "ok"; A "0" ]
  | L [ L [ l; r ]; th ] ->
    let l = program l and r = program r in
    let fs = theory th in
    let preds = M.ISet.iset_extend pred_dec_ (M.Asp.program_preds l) (M.Asp.program_preds r) in
    if List.length fs <> List.length preds then
      L [ A "cex"; L [ A "number-of-transition-axioms"; A (string_of_int (List.length fs)); A (string_of_int (List.length preds)) ] ]
    else begin
      let st = Semlib.rng_of (Semlib.hash_sexp e) in
      let w = { w_ints = List.map Semlib.z_of_int [ 0; 1 ]; w_syms = [ cl_of_string "a" ] } in
      let vals = Semlib.take 3 (Semlib.shuffle st (Semlib.general_values w)) in
      let atoms = Semlib.ground_atoms st preds vals 5 in
      let count = ref 0 in
      let result = ref None in
      List.iter (fun t ->
          List.iter (fun h ->
              List.iter (fun f ->
                  if !result = None then begin
                    incr count;
                    (* closed formulas: empty assignment; the quantifiers range over the window *)
                    if not (ceval w [] (fmerge h t) [] f) then
                      result := Some (L [ A "cex"; L [ A "H"; Semlib.of_fpint h ]; L [ A "T"; Semlib.of_fpint t ];
                                          L [ A "transition-axiom-false-although-H-subset-of-T"; of_formula f ] ])
                  end) fs) (Semlib.subsets t)) (Semlib.subsets atoms);
      match !result with Some r -> r | None -> L [ A "ok"; A (string_of_int !count) ]
    end
  | _ -> bad "sem_transition: %s" (to_string e)

(* same_reading: ("text1" "text2") -> both texts are read as the same TFF problem (used to validate
   the specification reader against tptp4X's re-print of an emitted file) *)
let rec flatten_assoc (f : M.Tff.tff_formula) : M.Tff.tff_formula =
  let open M.Tff in
  let rec operands c g = match g with
    | TBin (c', l, r) when c' = c && (c = CAnd || c = COr) -> operands c l @ operands c r
    | g -> [ flatten_assoc g ] in
  match f with
  | TBin (c, l, r) when c = CAnd || c = COr ->
    (match operands c f with
     | x :: rest -> List.fold_left (fun acc y -> TBin (c, acc, y)) x rest
     | [] -> f)
  | TBin (c, l, r) -> TBin (c, flatten_assoc l, flatten_assoc r)
  | TNot (TEq (l, r)) -> TNeq (l, r)      (* tptp4X re-prints ~ a = b as a != b *)
  | TNot g -> TNot (flatten_assoc g)
  | TQ (q, vs, g) ->
    (* tptp4X also merges ![A]: ![B]: F into ![A,B]: F *)
    (match flatten_assoc g with
     | TQ (q', vs', g') when q' = q -> TQ (q, vs @ vs', g')
     | g' -> TQ (q, vs, g'))
  | g -> g
(* tptp4X re-prints (A & B) & (C & D) as A & B & C & D and merges nested blocks of one quantifier:
   readings are compared modulo the associativity of & and |, the merging of blocks and
   ~ a = b  ==  a != b *)
let flatten_problem (p : M.Tff.tff_problem) : M.Tff.tff_problem =
  let open M.Tff in
  { p with tp_formulas = List.map (fun a -> { a with n_formula = flatten_assoc a.n_formula }) p.tp_formulas }

let same_reading (e : Sexp.t) : Sexp.t =
  match e with
  | L [ S t1; S t2 ] ->
    (match (try Ok (Tff_problem_read.read t1, Tff_problem_read.read t2) with Tff_problem_read.Read_error m -> Error m) with
     | Error m -> L [ A "cex"; L [ A "unreadable"; S m ] ]
     | Ok (a, b) ->
       let a = flatten_problem a and b = flatten_problem b in
       if a = b then L [ A "ok"; A "1" ]
       else begin
         let open M.Tff in
         let bad = List.find_opt (fun (x, y) -> x <> y) (try List.combine a.tp_formulas b.tp_formulas with _ -> []) in
         L [ A "cex"; L [ A "different-reading"; S (match bad with Some (x, _) -> string_of_cl x.n_name | None -> "declarations or number of formulas") ] ]
       end)
  | _ -> bad "same_reading: %s" (to_string e)

let problem_emit (e : Sexp.t) : Sexp.t =
  match e with
  | L [ p; d ] ->
    L (List.map (fun m -> of_string_result (M.ProblemPrint.problem_display m)) (model_pipeline (problem p) (decomposition d)))
  | _ -> bad "problem_emit: %s" (to_string e)

let problem_pipeline (e : Sexp.t) : Sexp.t =
  match e with
  | L [ p; d ] ->
    let raw = problem p in
    let open M.Problem in
    let p = create_unique_formula_names (rename_conflicting_symbols (add_annotated_formulas (with_name raw.pb_name) raw.pb_formulas)) in
    L (List.map of_problem (decompose p (decomposition d)))
  | _ -> bad "problem_pipeline: %s" (to_string e)

let strong_transition (e : Sexp.t) : Sexp.t =
  match e with
  | L [ l; r ] ->
    (* the implementation side runs the whole StrongEquivalenceTask::decompose (tau-star, forward,
       independent, no simplification) and reads the transition axioms off the first problem: tau* of
       the left, then of the right program may panic (global counter overflow, F11), and a right program
       without rules yields no problem at all *)
    let l = program l and r = program r in
    (match M.TauStar.tau_star l, M.TauStar.tau_star r with
     | Some _, Some _ -> if r = [] then L [ A "none" ] else of_theory (M.Transition.transition_axioms l r)
     | _ -> L [ A "panic" ])
  | _ -> bad "strong_transition: %s" (to_string e)

let () =
  Ops.register "problem_display" (fun e -> of_string_result (M.ProblemPrint.problem_display (problem e)));
  Ops.register "problem_pipeline" problem_pipeline;
  Ops.register "problem_emit" problem_emit;
  Ops.register "same_reading" same_reading;
  Ops.register "sem_problem_wt" (sem_problem_wt ~strict:false);
  Ops.register "sem_problem_wt_strict" (sem_problem_wt ~strict:true);
  Ops.register "sem_problem_meaning" sem_problem_meaning;
  Ops.register "sem_chain" sem_chain;
  Ops.register "sem_chain_all" sem_chain_all;
  Ops.register "sem_transition" sem_transition;
  Ops.register "strong_transition" strong_transition;
  Ops.register "tptp_format" (fun e -> of_string_result (M.TptpPrint.tptp_format (formula e)));
  Ops.register "sem_tptp" sem_tptp
let init () = ()
