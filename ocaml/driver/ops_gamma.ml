open Sexp
open Conv
open M.Fol
open M.Eval

(* sem_gamma: input (F G) where G is the implementation's gamma(F).
   Searches H subset-of T (all pairs over <= 5 ground atoms, then random), placeholder
   interpretations and assignments in a finite window for a point where
   (H,T),e |= F  differs from  merge(H,T),e |= G.  Answer: (ok <evaluations>) or (cex ...). *)
let sem_gamma (e : Sexp.t) : Sexp.t =
  match e with
  | L [ f; g ] ->
    let f = formula f and g = formula g in
    let st = Semlib.rng_of (Semlib.hash_sexp e) in
    let w = Semlib.window_of ~max_ints:4 ~max_syms:2 [ f ] in
    let atoms = Semlib.ground_atoms st (predicates f) (Semlib.take 4 (Semlib.shuffle st (Semlib.general_values w))) 5 in
    let fvs = free_variables f in
    let fcs = function_constants f in
    let count = ref 0 in
    let result = ref None in
    let try_pair h t =
      if !result = None then
        for _ = 1 to 3 do
          if !result = None then begin
            let env = Semlib.random_env st w fvs in
            let fi = Semlib.random_ffint st w fcs in
            incr count;
            let lhs = heval w fi h t env f in
            let rhs = ceval w fi (fmerge h t) env g in
            if lhs <> rhs then
              result := Some (L [ A "cex"; L [ A "H"; Semlib.of_fpint h ]; L [ A "T"; Semlib.of_fpint t ];
                                  L [ A "env"; Semlib.of_fenv env ]; L [ A "placeholders"; Semlib.of_ffint fi ];
                                  L [ A "window"; Semlib.of_window w ];
                                  L [ A "ht-satisfies-F"; of_boolv lhs ]; L [ A "classical-satisfies-gamma-F"; of_boolv rhs ] ])
          end
        done in
    List.iter (fun t -> List.iter (fun h -> try_pair h t) (Semlib.subsets t)) (Semlib.subsets atoms);
    (match !result with Some r -> r | None -> L [ A "ok"; A (string_of_int !count) ])
  | _ -> bad "sem_gamma: %s" (to_string e)

let () =
  Ops.register "gamma" (fun e -> of_formula (M.Gamma.gamma (formula e)));
  Ops.register "gamma_theory" (fun e -> of_theory (M.Gamma.gamma_theory (theory e)));
  Ops.register "sem_gamma" sem_gamma
let init () = ()
