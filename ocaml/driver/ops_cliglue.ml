(* CLI glue -- model side of the op `cli_run`:
     input    (<command> "input text")
       <command> = (analyze regularity|tightness)
                 | (parse program|theory|specification|user-guide)
                 | (simplify intuitionistic|ht|classic shallow|recursive|fixpoint)
                 | (translate tau-star|mu|natural|gamma|completion)
     result   (stdout "<bytes>") | (error 1) | (panic) | (out-of-fuel)
   = the extracted [Cli.run_cli].  The implementation side (harness/src/ops/cliglue.rs) runs the
   real binary on a file with that text and classifies its exit status the same way. *)
open Sexp
open Conv
open M.Cli

let command (e : Sexp.t) : command =
  match e with
  | L [ A "analyze"; A "regularity" ] -> Analyze Regularity
  | L [ A "analyze"; A "tightness" ] -> Analyze Tightness
  | L [ A "parse"; A "program" ] -> Parse Program
  | L [ A "parse"; A "theory" ] -> Parse Theory
  | L [ A "parse"; A "specification" ] -> Parse Specification
  | L [ A "parse"; A "user-guide" ] -> Parse UserGuide
  | L [ A "simplify"; A pf; A st ] ->
    let pf = match pf with
      | "classic" -> Classic | "ht" -> Ht | "intuitionistic" -> Intuitionistic
      | _ -> bad "portfolio: %s" pf in
    let st = match st with
      | "shallow" -> Shallow | "recursive" -> Recursive | "fixpoint" -> Fixpoint_
      | _ -> bad "strategy: %s" st in
    Simplify (pf, st)
  | L [ A "translate"; A w ] ->
    Translate (match w with
        | "completion" -> Completion | "gamma" -> Gamma | "mu" -> Mu | "natural" -> Natural
        | "tau-star" -> TauStar
        | _ -> bad "translation: %s" w)
  | e -> bad "command: %s" (to_string e)

let of_result (r : cli_result) : Sexp.t =
  match r with
  | Stdout out -> L [ A "stdout"; of_str out ]
  | Error -> L [ A "error"; A "1" ]
  | Panic -> L [ A "panic" ]
  | OutOfFuel -> L [ A "out-of-fuel" ]

let cli_run (e : Sexp.t) : Sexp.t =
  match e with
  | L [ c; (S _ as t) ] -> of_result (run_cli (command c) (str t))
  | e -> bad "cli_run: %s" (to_string e)

let () = Ops.register "cli_run" cli_run
let init () = ()
