(* DESIGN-PHASE EXPERIMENT (not part of any check): the unbounded `while taken.contains(candidate)`
   search of choose_fresh_variable_names / Variable::sequence as recursion on fuel = |taken|, with the
   proof (pigeonhole + injectivity of the decimal printer) that the fuel never runs out.  Axiom-free. *)
From Coq Require Import List Ascii String ZArith NArith Bool Lia DecimalString DecimalN.
Import ListNotations.
Open Scope string_scope.

Definition nat_str (n : N) : string := NilEmpty.string_of_uint (N.to_uint n).

Lemma nat_str_inj n m : nat_str n = nat_str m -> n = m.
Proof.
  unfold nat_str; intros H.
  assert (E : NilEmpty.uint_of_string (NilEmpty.string_of_uint (N.to_uint n)) =
              NilEmpty.uint_of_string (NilEmpty.string_of_uint (N.to_uint m))) by (rewrite H; reflexivity).
  rewrite !NilEmpty.usu in E. inversion E as [E'].
  apply (f_equal N.of_uint) in E'. rewrite !DecimalN.Unsigned.of_to in E'. exact E'.
Qed.

Lemma app_inj_l (a b c : string) : a ++ b = a ++ c -> b = c.
Proof. induction a; cbn; intros H; [exact H|]. inversion H; auto. Qed.

Fixpoint find_fresh (fuel : nat) (variant : string) (taken : list string) (m : N) : option string :=
  let c := variant ++ nat_str m in
  if in_dec string_dec c taken then
    match fuel with O => None | S f => find_fresh f variant taken (N.succ m) end
  else Some c.

Lemma find_fresh_sound fuel v taken m c : find_fresh fuel v taken m = Some c -> ~ In c taken.
Proof.
  revert m; induction fuel as [|f IH]; intros m; cbn; destruct (in_dec _ _ _); try discriminate;
  try (intros [= <-]; assumption). apply IH.
Qed.

Fixpoint cands (v : string) (m : N) (k : nat) : list string :=
  match k with O => [] | S k' => (v ++ nat_str m) :: cands v (N.succ m) k' end.

Lemma cands_in v m k x : In x (cands v m k) -> exists j, (m <= j)%N /\ x = v ++ nat_str j.
Proof.
  revert m; induction k as [|k IH]; intros m; cbn; [tauto|].
  intros [<-|H]; [exists m; split; [lia|reflexivity]|].
  destruct (IH _ H) as [j [Hj ->]]. exists j; split; [lia|reflexivity].
Qed.

Lemma cands_nodup v m k : NoDup (cands v m k).
Proof.
  revert m; induction k as [|k IH]; intros m; cbn; constructor; auto.
  intros H. destruct (cands_in _ _ _ _ H) as [j [Hj E]].
  apply app_inj_l, nat_str_inj in E. lia.
Qed.

Lemma find_fresh_none fuel v taken m :
  find_fresh fuel v taken m = None -> incl (cands v m (S fuel)) taken.
Proof.
  revert m; induction fuel as [|f IH]; intros m; cbn; destruct (in_dec _ _ _) as [Hin|]; try discriminate.
  - intros _ x [<-|[]]; assumption.
  - intros H x [<-|Hx]; [assumption|]. apply (IH _ H). exact Hx.
Qed.

Theorem find_fresh_total v taken m : exists c, find_fresh (List.length taken) v taken m = Some c.
Proof.
  destruct (find_fresh (List.length taken) v taken m) eqn:E; [eauto|].
  apply find_fresh_none in E.
  pose proof (NoDup_incl_length (cands_nodup v m (S (List.length taken))) E) as L.
  assert (List.length (cands v m (S (List.length taken))) = S (List.length taken)).
  { clear. generalize (S (List.length taken)). intros k. revert m. induction k; cbn; auto. }
  lia.
Qed.
Print Assumptions find_fresh_total.
Eval vm_compute in find_fresh 5 "Z" ["Z"; "Z1"; "Z3"] 1.
