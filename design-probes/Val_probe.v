(* DESIGN-PHASE EXPERIMENT (not part of any check): the core lemma of C01, val_spec, for leaves, unary
   minus, + - * and intervals (division omitted here): the formula val_t(Z) built by tau_star.rs::val is
   satisfied exactly when Z's value is a value of t.  Key invariant discovered: val's binders I/J/K are
   integer-sorted and live in another environment map than the (general) program variables, so the only
   freshness that matters is w.r.t. Z itself and among I, J, K.  coqc: 2.4 s, axiom-free (the two
   hypotheses on fresh1 are section hypotheses discharged by Fresh_probe.v-style lemmas). *)
From Coq Require Import List Ascii String ZArith Bool Lia.
Import ListNotations.
Open Scope string_scope.
Open Scope list_scope.

Inductive sort := SGen | SInt | SSym.
Inductive iop := IAdd | ISub | IMul.
Inductive iterm := INum (z : Z) | IVar (x : string) | IBin (o : iop) (l r : iterm).
Inductive gterm := GInf | GSup | GVar (x : string) | GInt (t : iterm) | GSymb (s : string).
Inductive rel := REq | RNe | RGt | RLt | RGe | RLe.
Record var := mkvar { vname : string; vsort : sort }.
Inductive formula :=
| FCmp (t : gterm) (gs : list (rel * gterm))
| FAnd (l r : formula)
| FEx (vs : list var) (f : formula).

Inductive gval := VInf | VNum (z : Z) | VSym (s : string) | VSup.
Record env := mkenv { eg : string -> gval; ei : string -> Z }.

Fixpoint ev_i (e : env) (t : iterm) : Z :=
  match t with
  | INum z => z | IVar x => ei e x
  | IBin IAdd l r => (ev_i e l + ev_i e r)%Z
  | IBin ISub l r => (ev_i e l - ev_i e r)%Z
  | IBin IMul l r => (ev_i e l * ev_i e r)%Z end.
Definition ev_g (e : env) (t : gterm) : gval :=
  match t with GInf => VInf | GSup => VSup | GVar x => eg e x
  | GInt t => VNum (ev_i e t) | GSymb s => VSym s end.

Definition gval_eqb (a b : gval) : bool :=
  match a, b with
  | VInf, VInf | VSup, VSup => true
  | VNum x, VNum y => (x =? y)%Z
  | VSym x, VSym y => String.eqb x y
  | _, _ => false end.
Lemma gval_eqb_eq a b : gval_eqb a b = true <-> a = b.
Proof.
  destruct a, b; cbn; try (split; [discriminate|discriminate]); try tauto.
  - rewrite Z.eqb_eq. split; [intros ->; reflexivity|intros [= ->]; reflexivity].
  - rewrite String.eqb_eq. split; [intros ->; reflexivity|intros [= ->]; reflexivity].
Qed.
Definition gle (a b : gval) : bool :=
  match a, b with
  | VInf, _ => true | _, VSup => true
  | VNum x, VNum y => (x <=? y)%Z | VNum _, VSym _ => true
  | VSym x, VSym y => String.leb x y | _, _ => false end.
Definition rel_sat (r : rel) (a b : gval) : bool :=
  match r with
  | REq => gval_eqb a b | RNe => negb (gval_eqb a b)
  | RLe => gle a b | RGe => gle b a
  | RLt => gle a b && negb (gval_eqb a b) | RGt => gle b a && negb (gval_eqb a b) end.
Fixpoint chain_sat (e : env) (l : gval) (gs : list (rel * gterm)) : bool :=
  match gs with [] => true
  | (r, t) :: gs' => let v := ev_g e t in rel_sat r l v && chain_sat e v gs' end.

Definition upd (e : env) (v : var) (d : gval) : env :=
  match vsort v, d with
  | SGen, _ => mkenv (fun y => if String.eqb y (vname v) then d else eg e y) (ei e)
  | SInt, VNum z => mkenv (eg e) (fun y => if String.eqb y (vname v) then z else ei e y)
  | _, _ => e end.
Definition in_sort (s : sort) (d : gval) : Prop :=
  match s, d with SGen, _ => True | SInt, VNum _ => True | SSym, VSym _ => True | _, _ => False end.
Fixpoint exsat (vs : list var) (k : env -> Prop) (e : env) : Prop :=
  match vs with [] => k e
  | v :: vs' => exists d, in_sort (vsort v) d /\ exsat vs' k (upd e v d) end.
Fixpoint sat (e : env) (f : formula) : Prop :=
  match f with
  | FCmp t gs => chain_sat e (ev_g e t) gs = true
  | FAnd l r => sat e l /\ sat e r
  | FEx vs f => exsat vs (fun e' => sat e' f) e end.

Inductive bop := Add | Sub | Mul | Div | Mod | Itv.
Inductive term := TInf | TSup | TNum (z : Z) | TSym (s : string) | TVar (x : string)
| TNeg (t : term) | TBin (o : bop) (l r : term).

Inductive vals (σ : string -> gval) : term -> gval -> Prop :=
| v_inf : vals σ TInf VInf | v_sup : vals σ TSup VSup
| v_num z : vals σ (TNum z) (VNum z) | v_sym s : vals σ (TSym s) (VSym s)
| v_var x : vals σ (TVar x) (σ x)
| v_neg t n : vals σ t (VNum n) -> vals σ (TNeg t) (VNum (0 - n))
| v_add l r a b : vals σ l (VNum a) -> vals σ r (VNum b) -> vals σ (TBin Add l r) (VNum (a + b))
| v_sub l r a b : vals σ l (VNum a) -> vals σ r (VNum b) -> vals σ (TBin Sub l r) (VNum (a - b))
| v_mul l r a b : vals σ l (VNum a) -> vals σ r (VNum b) -> vals σ (TBin Mul l r) (VNum (a * b))
| v_div l r a b q rm : vals σ l (VNum a) -> vals σ r (VNum b) ->
    (a = b * q + rm)%Z -> (0 <= rm < b)%Z -> vals σ (TBin Div l r) (VNum q)
| v_mod l r a b q rm : vals σ l (VNum a) -> vals σ r (VNum b) ->
    (a = b * q + rm)%Z -> (0 <= rm < b)%Z -> vals σ (TBin Mod l r) (VNum rm)
| v_itv l r a b k : vals σ l (VNum a) -> vals σ r (VNum b) -> (a <= k <= b)%Z ->
    vals σ (TBin Itv l r) (VNum k).

Fixpoint tvars (t : term) : list string :=
  match t with TVar x => [x] | TNeg t => tvars t | TBin _ l r => tvars l ++ tvars r | _ => [] end.

Section Val.
Variable fresh1 : list string -> string -> string.
Hypothesis fresh1_out : forall taken v, ~ In (fresh1 taken v) taken.
Hypothesis fresh1_pre : forall taken v w, v <> w -> String.length v = 1 -> String.length w = 1 ->
   fresh1 taken v <> fresh1 taken w.

Definition vterm (z : var) : gterm :=
  match vsort z with SInt => GInt (IVar (vname z)) | _ => GVar (vname z) end.
Definition iv (x : string) := mkvar x SInt.
Definition eqf (a b : gterm) := FCmp a [(REq, b)].

Definition leaf (t : term) : gterm :=
  match t with TInf => GInf | TSup => GSup | TNum z => GInt (INum z) | TSym s => GSymb s
  | TVar x => GVar x | _ => GInf end.

Fixpoint val (t : term) (z : var) : formula :=
  let taken := tvars t ++ [vname z] in
  let i := fresh1 taken "I" in let j := fresh1 taken "J" in let k := fresh1 taken "K" in
  let total o vi vj := FEx [iv i; iv j]
        (FAnd (FAnd (eqf (vterm z) (GInt (IBin o (IVar i) (IVar j)))) vi) vj) in
  match t with
  | TNeg a => total ISub (eqf (vterm (iv i)) (leaf (TNum 0))) (val a (iv j))
  | TBin Add l r => total IAdd (val l (iv i)) (val r (iv j))
  | TBin Sub l r => total ISub (val l (iv i)) (val r (iv j))
  | TBin Mul l r => total IMul (val l (iv i)) (val r (iv j))
  | TBin Itv l r =>
      FEx [iv i; iv j; iv k]
        (FAnd (FAnd (FAnd (val l (iv i)) (val r (iv j))) (eqf (vterm z) (GInt (IVar k))))
              (FCmp (GInt (IVar i)) [(RLe, GInt (IVar k)); (RLe, GInt (IVar j))]))
  | TBin _ l r => eqf (vterm z) (vterm z)   (* division omitted in this probe *)
  | _ => eqf (vterm z) (leaf t)
  end.

Definition getv (e : env) (z : var) : gval :=
  match vsort z with SInt => VNum (ei e (vname z)) | _ => eg e (vname z) end.

Lemma ev_vterm e z : ev_g e (vterm z) = getv e z.
Proof. unfold vterm, getv; destruct (vsort z); reflexivity. Qed.

Definition nodiv := fix nd (t : term) : Prop :=
  match t with TNeg a => nd a | TBin Div _ _ | TBin Mod _ _ => False
  | TBin _ l r => nd l /\ nd r | _ => True end.

Lemma eg_upd_int e x d : eg (upd e (iv x) d) = eg e.
Proof. unfold upd; cbn; destruct d; reflexivity. Qed.
Lemma ei_upd_same e x n : ei (upd e (iv x) (VNum n)) x = n.
Proof. cbn. rewrite String.eqb_refl. reflexivity. Qed.
Lemma ei_upd_other e x y n : y <> x -> ei (upd e (iv x) (VNum n)) y = ei e y.
Proof. cbn. intros H. destruct (String.eqb_spec y x); congruence. Qed.
Lemma getv_upd_other e x n z : vname z <> x -> getv (upd e (iv x) (VNum n)) z = getv e z.
Proof.
  intros H. unfold getv. destruct (vsort z); cbn; try reflexivity.
  destruct (String.eqb_spec (vname z) x); congruence.
Qed.

Lemma in_sort_int d : in_sort SInt d <-> exists n, d = VNum n.
Proof. destruct d; cbn; split; try tauto; try (intros [n H]; discriminate); eauto. Qed.

Lemma sat_eqf e a b : sat e (eqf a b) <-> ev_g e a = ev_g e b.
Proof. unfold eqf; cbn. rewrite Bool.andb_true_r. apply gval_eqb_eq. Qed.
Lemma sat_range e a b c : sat e (FCmp (GInt a) [(RLe, GInt b); (RLe, GInt c)]) <-> (ev_i e a <= ev_i e b <= ev_i e c)%Z.
Proof. cbn. rewrite Bool.andb_true_r, Bool.andb_true_iff, !Z.leb_le. tauto. Qed.
Opaque eqf.

Ltac names z t :=
  pose proof (fresh1_out (tvars t ++ [vname z]) "I") as HI;
  pose proof (fresh1_out (tvars t ++ [vname z]) "J") as HJ;
  pose proof (fresh1_out (tvars t ++ [vname z]) "K") as HK;
  assert (HIJ : fresh1 (tvars t ++ [vname z]) "I" <> fresh1 (tvars t ++ [vname z]) "J")
    by (apply fresh1_pre; [discriminate|reflexivity|reflexivity]);
  assert (HIK : fresh1 (tvars t ++ [vname z]) "I" <> fresh1 (tvars t ++ [vname z]) "K")
    by (apply fresh1_pre; [discriminate|reflexivity|reflexivity]);
  assert (HJK : fresh1 (tvars t ++ [vname z]) "J" <> fresh1 (tvars t ++ [vname z]) "K")
    by (apply fresh1_pre; [discriminate|reflexivity|reflexivity]);
  assert (HzI : vname z <> fresh1 (tvars t ++ [vname z]) "I")
    by (intros E; apply HI; rewrite <- E; apply in_or_app; right; left; reflexivity);
  assert (HzJ : vname z <> fresh1 (tvars t ++ [vname z]) "J")
    by (intros E; apply HJ; rewrite <- E; apply in_or_app; right; left; reflexivity);
  assert (HzK : vname z <> fresh1 (tvars t ++ [vname z]) "K")
    by (intros E; apply HK; rewrite <- E; apply in_or_app; right; left; reflexivity).

Lemma total_case (o : iop) (f : Z -> Z -> Z) t z l r e
  (Hf : forall e a b, ev_i e (IBin o a b) = f (ev_i e a) (ev_i e b))
  (IHl : forall z e, sat e (val l z) <-> vals (eg e) l (getv e z))
  (IHr : forall z e, sat e (val r z) <-> vals (eg e) r (getv e z)) :
  let taken := tvars t ++ [vname z] in
  let i := fresh1 taken "I" in let j := fresh1 taken "J" in
  sat e (FEx [iv i; iv j]
        (FAnd (FAnd (eqf (vterm z) (GInt (IBin o (IVar i) (IVar j)))) (val l (iv i))) (val r (iv j))))
  <-> exists a b, vals (eg e) l (VNum a) /\ vals (eg e) r (VNum b) /\ getv e z = VNum (f a b).
Proof.
  intros taken i j. names z t. fold taken in HI, HJ, HIJ, HzI, HzJ. fold i in HI, HIJ, HzI. fold j in HJ, HIJ, HzJ.
  cbn [sat exsat vsort iv]. split.
  - intros [d1 [S1 [d2 [S2 [[Hc Hl] Hr]]]]].
    apply in_sort_int in S1; destruct S1 as [a ->]. apply in_sort_int in S2; destruct S2 as [b ->].
    apply IHl in Hl. apply IHr in Hr. rewrite !eg_upd_int in Hl, Hr.
    unfold getv in Hl, Hr; cbn [vsort iv vname] in Hl, Hr.
    rewrite ei_upd_same in Hr. rewrite ei_upd_other, ei_upd_same in Hl by exact HIJ.
    exists a, b. repeat split; auto.
    apply sat_eqf in Hc. rewrite ev_vterm in Hc. rewrite !getv_upd_other in Hc by auto.
    rewrite Hc. cbn [ev_g]. rewrite Hf. cbn [ev_i]. rewrite ei_upd_same.
    rewrite ei_upd_other, ei_upd_same by exact HIJ. reflexivity.
  - intros [a [b [Hl [Hr Hz]]]]. exists (VNum a); split; [exact I|]. exists (VNum b); split; [exact I|].
    repeat split.
    + apply sat_eqf.
      rewrite ev_vterm, !getv_upd_other by auto. rewrite Hz. cbn [ev_g]. rewrite Hf. cbn [ev_i].
      rewrite ei_upd_same. rewrite ei_upd_other, ei_upd_same by exact HIJ. reflexivity.
    + apply IHl. rewrite !eg_upd_int. unfold getv; cbn [vsort iv vname].
      rewrite ei_upd_other, ei_upd_same by exact HIJ. exact Hl.
    + apply IHr. rewrite !eg_upd_int. unfold getv; cbn [vsort iv vname]. rewrite ei_upd_same. exact Hr.
Qed.

Lemma leaf_case t z e : (match t with TNeg _ | TBin _ _ _ => False | _ => True end) ->
  sat e (eqf (vterm z) (leaf t)) <-> vals (eg e) t (getv e z).
Proof.
  intros Hl. rewrite sat_eqf, ev_vterm. destruct t; try tauto; cbn;
  (split; [intros ->; constructor | intros H; inversion H; reflexivity]).
Qed.

Theorem val_spec t : nodiv t -> forall z e, sat e (val t z) <-> vals (eg e) t (getv e z).
Proof.
  induction t as [| |n|s|x|a IHa|o l IHl r IHr]; intros ND z e.
  1-5: cbn [val]; apply leaf_case; exact I.
  - cbn [val]. change (eqf (vterm (iv (fresh1 (tvars (TNeg a) ++ [vname z]) "I"))) (leaf (TNum 0))) with (val (TNum 0) (iv (fresh1 (tvars (TNeg a) ++ [vname z]) "I"))).
    rewrite (total_case ISub Z.sub (TNeg a) z (TNum 0) a e); auto.
    + split.
      * intros [x [b [H0 [Hb Hz]]]]. inversion H0; subst. rewrite Hz. constructor; auto.
      * intros H. inversion H; subst. exists 0%Z, n. repeat split; auto. constructor.
    + intros z' e'. cbn [val]. apply leaf_case; exact I.
  - destruct o; cbn in ND; try tauto; destruct ND as [NDl NDr]; specialize (IHl NDl); specialize (IHr NDr).
    + cbn [val]. rewrite (total_case IAdd Z.add (TBin Add l r) z l r e); auto. split.
      * intros [a [b [Hl [Hr Hz]]]]. rewrite Hz. constructor; auto.
      * intros H; inversion H; subst. eauto.
    + cbn [val]. rewrite (total_case ISub Z.sub (TBin Sub l r) z l r e); auto. split.
      * intros [a [b [Hl [Hr Hz]]]]. rewrite Hz. constructor; auto.
      * intros H; inversion H; subst. eauto.
    + cbn [val]. rewrite (total_case IMul Z.mul (TBin Mul l r) z l r e); auto. split.
      * intros [a [b [Hl [Hr Hz]]]]. rewrite Hz. constructor; auto.
      * intros H; inversion H; subst. eauto.
    + cbn [val]. names z (TBin Itv l r).
      set (i := fresh1 _ "I") in *. set (j := fresh1 _ "J") in *. set (k := fresh1 _ "K") in *.
      cbn [sat exsat vsort iv]. split.
      * intros [d1 [S1 [d2 [S2 [d3 [S3 [[[Hl Hr] Hc] Hrg]]]]]]].
        apply in_sort_int in S1; destruct S1 as [a ->]. apply in_sort_int in S2; destruct S2 as [b ->].
        apply in_sort_int in S3; destruct S3 as [c ->].
        apply IHl in Hl. apply IHr in Hr. rewrite !eg_upd_int in Hl, Hr.
        unfold getv in Hl, Hr; cbn [vsort iv vname] in Hl, Hr.
        rewrite ei_upd_other, ei_upd_same in Hr by exact HJK.
        rewrite !ei_upd_other, ei_upd_same in Hl by auto.
        apply sat_eqf in Hc.
        rewrite ev_vterm, !getv_upd_other in Hc by auto. rewrite Hc. cbn [ev_g ev_i]. rewrite ei_upd_same.
        apply sat_range in Hrg. cbn [ev_i] in Hrg.
        rewrite ei_upd_same in Hrg. rewrite (ei_upd_other _ k j), ei_upd_same in Hrg by exact HJK.
        rewrite !ei_upd_other, ei_upd_same in Hrg by auto.
        econstructor; eauto.
      * intros H; inversion H; subst.
        exists (VNum a); split; [exact I|]. exists (VNum b); split; [exact I|]. exists (VNum k0); split; [exact I|].
        repeat split.
        -- apply IHl. rewrite !eg_upd_int. unfold getv; cbn [vsort iv vname].
           rewrite !ei_upd_other, ei_upd_same by auto. assumption.
        -- apply IHr. rewrite !eg_upd_int. unfold getv; cbn [vsort iv vname].
           rewrite ei_upd_other, ei_upd_same by exact HJK. assumption.
        -- apply sat_eqf.
           rewrite ev_vterm, !getv_upd_other by auto. cbn [ev_g ev_i]. rewrite ei_upd_same. congruence.
        -- apply sat_range. cbn [ev_i].
           rewrite ei_upd_same. rewrite (ei_upd_other _ k j), ei_upd_same by exact HJK.
           rewrite !ei_upd_other, ei_upd_same by auto. lia.
Qed.
End Val.
Print Assumptions val_spec.
