(* DESIGN-PHASE EXPERIMENT (not part of any check): the abstract core of C04 (Fages' theorem for
   possibly infinite sets of *semantic ground rules* as mini-gringo's multi-valued terms produce them):
   under a rank that strictly decreases along positive body atoms, an interpretation is an equilibrium
   model of the rules (plus its own input facts) iff it is a supported model.  Classical logic is used
   only for the direction stable => supported. *)
From Coq Require Import List Arith Lia Classical_Prop.
Import ListNotations.

Section Fages.
Variable atom : Type.
Variable pred : Type.
Variable pred_of : atom -> pred.
Variable atom_eq_dec : forall a b : atom, {a = b} + {a <> b}.

Definition interp := atom -> Prop.
Definition sub (H T : interp) := forall a, H a -> T a.

(* a body item: a set of atoms of which some member must be in the world / not in T / in T, or a
   world-independent condition (comparison) *)
Inductive item :=
| Pos (A : atom -> Prop) | NegT (A : atom -> Prop) | NNegT (A : atom -> Prop) | Cond (P : Prop).
Inductive hkind := Basic | Choice | Constraint.
Record grule := { kind : hkind; hatoms : atom -> Prop; body : list item }.

Definition item_holds (W T : interp) (i : item) : Prop :=
  match i with
  | Pos A => exists a, A a /\ W a
  | NegT A => exists a, A a /\ ~ T a
  | NNegT A => exists a, A a /\ T a
  | Cond P => P end.
Definition body_holds (W T : interp) (r : grule) := Forall (item_holds W T) (body r).
Definition head_holds (W T : interp) (r : grule) : Prop :=
  match kind r with
  | Basic => forall a, hatoms r a -> W a
  | Choice => forall a, hatoms r a -> W a \/ ~ T a
  | Constraint => False end.
(* HT satisfaction of  body -> head  *)
Definition rule_sat (H T : interp) (r : grule) :=
  (body_holds H T r -> head_holds H T r) /\ (body_holds T T r -> head_holds T T r).

Variable prog : grule -> Prop.              (* the (infinite) set of ground instances *)
Variable input : atom -> Prop.              (* atoms of input predicates *)
Hypothesis input_not_head : forall r a, prog r -> hatoms r a -> ~ input a.

Variable rank : pred -> nat.
Hypothesis tight : forall r A b h, prog r -> In (Pos A) (body r) -> A b -> hatoms r h ->
  rank (pred_of b) < rank (pred_of h).

Definition ht_model (H T : interp) :=
  (forall r, prog r -> rule_sat H T r) /\ (forall a, input a -> T a -> H a).
Definition equilibrium (T : interp) :=
  ht_model T T /\ forall H, sub H T -> ht_model H T -> forall a, T a -> H a.
Definition supported (T : interp) :=
  (forall r, prog r -> rule_sat T T r) /\
  forall a, T a -> input a \/ exists r, prog r /\ kind r <> Constraint /\ hatoms r a /\ body_holds T T r.

Lemma body_mono H T r : sub H T -> body_holds H T r -> body_holds T T r.
Proof.
  intros S B. unfold body_holds in *. eapply Forall_impl; [|exact B].
  intros [A|A|A|P]; cbn; auto. intros [a [Ha Wa]]. exists a; auto.
Qed.

Theorem supported_stable T : supported T -> equilibrium T.
Proof.
  intros [M S]. split; [split; auto|].
  intros H HS [HM HF] a.
  remember (rank (pred_of a)) as n eqn:En. revert a En.
  induction n as [n IH] using lt_wf_ind. intros a En Ta.
  destruct (S a Ta) as [Hi|[r [Pr [NC [Ha B]]]]]; [apply HF; auto|].
  assert (BH : body_holds H T r).
  { unfold body_holds in *. rewrite Forall_forall in *. intros i Hi. specialize (B i Hi).
    destruct i as [A|A|A|P]; cbn in *; auto.
    destruct B as [b [Ab Tb]]. exists b; split; auto.
    apply (IH (rank (pred_of b))); auto. subst n. eapply tight; eauto. }
  destruct (HM r Pr) as [HH _]. specialize (HH BH). unfold head_holds in HH.
  destruct (kind r); [apply HH; auto| |congruence].
  destruct (HH a Ha); tauto.
Qed.

Theorem stable_supported T : equilibrium T -> supported T.
Proof.
  intros [[M F] MIN]. split; auto.
  intros a Ta. apply NNPP. intros NS.
  set (H := fun b => T b /\ b <> a).
  assert (HS : sub H T) by (intros b [Tb _]; exact Tb).
  assert (HM : ht_model H T).
  { split.
    - intros r Pr. destruct (M r Pr) as [_ MT]. split; auto.
      intros BH. pose proof (body_mono H T r HS BH) as BT. specialize (MT BT).
      unfold head_holds in *. destruct (kind r) eqn:K; auto.
      + intros b Hb. split; [apply MT; auto|]. intros ->. apply NS. right. exists r. repeat split; auto. congruence.
      + intros b Hb. destruct (MT b Hb) as [Tb|NTb]; auto. left. split; auto.
        intros ->. apply NS. right. exists r. repeat split; auto. congruence.
    - intros b Ib Tb. split; auto. intros ->. apply NS. left; exact Ib. }
  destruct (MIN H HS HM a Ta) as [_ Ne]. congruence.
Qed.
End Fages.
Print Assumptions supported_stable.
Print Assumptions stable_supported.
