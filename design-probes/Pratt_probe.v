(* DESIGN-PHASE EXPERIMENT (not part of any check): token-level round trip  parse (print t) = t  for the
   precedence printer of formatting/mod.rs (fmt_unary / fmt_binary, all-left associativity, parentheses
   when the child binds looser, or equally on the right) against pest's Pratt algorithm
   (pest-2.8.2/src/pratt_parser.rs: nud / led / `while rbp < lbp`, prefix operand parsed at prec-1,
   left-associative infix operand at prec).  Two infix levels + one prefix operator, as for terms. *)
From Coq Require Import List Arith Lia Bool.
Import ListNotations.

Inductive op := OAdd | OMul.
Inductive tree := Leaf (n : nat) | Un (t : tree) | Bin (o : op) (l r : tree).

(* printer side: precedence numbers of Format<Term>::precedence (smaller binds tighter) *)
Definition pp (o : op) : nat := match o with OMul => 2 | OAdd => 3 end.
Definition prec (t : tree) : nat := match t with Leaf _ | Un _ => 0 | Bin o _ _ => pp o end.

Inductive item := ILeaf (n : nat) | IPre | IIn (o : op) | IParen (l : list item).

Fixpoint print (t : tree) : list item :=
  let wrap (b : bool) (c : tree) := if b then [IParen (print c)] else print c in
  match t with
  | Leaf n => [ILeaf n]
  | Un c => IPre :: wrap (0 <? prec c) c                                   (* fmt_unary *)
  | Bin o l r => wrap (pp o <? prec l) l ++ IIn o :: wrap (pp o <=? prec r) r  (* fmt_binary, Left *)
  end.

(* parser side: binding powers 10*(index+1) in .op() order: add, mul, prefix *)
Definition bp (o : op) : nat := match o with OAdd => 10 | OMul => 20 end.
Definition bp_pre : nat := 30.

(* big-step transcription of expr / nud / led-loop *)
Inductive Expr : nat -> list item -> tree -> list item -> Prop :=
| E_intro rbp items lhs rest t rest' :
    Nud items lhs rest -> Loop rbp lhs rest t rest' -> Expr rbp items t rest'
with Nud : list item -> tree -> list item -> Prop :=
| N_leaf n rest : Nud (ILeaf n :: rest) (Leaf n) rest
| N_paren l t rest : Expr 0 l t [] -> Nud (IParen l :: rest) t rest
| N_pre items t rest : Expr (bp_pre - 1) items t rest -> Nud (IPre :: items) (Un t) rest
with Loop : nat -> tree -> list item -> tree -> list item -> Prop :=
| L_stop_nil rbp lhs : Loop rbp lhs [] lhs []
| L_stop_op rbp lhs o rest : ~ rbp < bp o -> Loop rbp lhs (IIn o :: rest) lhs (IIn o :: rest)
| L_step rbp lhs o rest r rest' t rest'' :
    rbp < bp o -> Expr (bp o) rest r rest' -> Loop rbp (Bin o lhs r) rest' t rest'' ->
    Loop rbp lhs (IIn o :: rest) t rest''.

(* binding power of the top-level operator as the parser sees it *)
Definition lvl (t : tree) : nat := match t with Bin o _ _ => bp o | _ => 40 end.
Definition follow_ok (b : nat) (R : list item) : Prop :=
  R = [] \/ exists o R', R = IIn o :: R' /\ bp o <= b.

Lemma pp_bp o1 o2 : pp o1 < pp o2 <-> bp o2 < bp o1.
Proof. destruct o1, o2; cbn; lia. Qed.

(* what follows a complete operand never binds tighter than allowed: the loop at that level stops *)
Lemma loop_stops b t R : follow_ok b R -> Loop b t R t R.
Proof.
  intros [->|[o [R' [-> H]]]]; [constructor|]. apply L_stop_op. lia.
Qed.

Lemma follow_weaken b b' R : b <= b' -> follow_ok b R -> follow_ok b' R.
Proof. intros L [->|[o [R' [-> H]]]]; [left; auto|right; exists o, R'; split; auto; lia]. Qed.

(* Claim: parsing the printed form of t at any rbp below its level yields t and then continues the
   loop on whatever follows, provided what follows could legally follow t *)
Theorem claim t : forall rbp R t' R', rbp < lvl t -> follow_ok (lvl t) R ->
  Loop rbp t R t' R' -> Expr rbp (print t ++ R) t' R'.
Proof.
  induction t as [n|c IH|o l IHl r IHr]; intros rbp R t' R' Hr HF HL.
  - cbn. econstructor; [constructor|exact HL].
  - cbn [print]. destruct (0 <? prec c) eqn:W.
    + cbn. econstructor; [|exact HL]. constructor.
      econstructor.
      * constructor. rewrite <- (app_nil_r (print c)).
        apply (IH 0 [] c []); [destruct c as [| |[]]; cbn; lia|left; auto|constructor].
      * apply loop_stops. destruct HF as [->|[o [R1 [-> H]]]]; [left; auto|right; exists o, R1; split; auto; destruct o; cbn; lia].
    + (* operand is a leaf or another prefix operator: parsed at rbp 29, absorbs no infix *)
      cbn. econstructor; [|exact HL]. constructor.
      apply Nat.ltb_ge in W. assert (P0 : prec c = 0) by lia.
      apply IH.
      * destruct c as [| |[]]; cbn in *; try lia.
      * destruct c as [| |[]]; cbn in P0; try discriminate; exact HF.
      * apply loop_stops. destruct HF as [->|[o [R1 [-> H]]]]; [left; auto|right; exists o, R1; split; auto; destruct o; cbn; lia].
  - cbn [print lvl] in *.
    (* right operand: parsed by Expr (bp o) on  wrap r ++ R  and must return exactly r *)
    assert (RHS : Expr (bp o) ((if pp o <=? prec r then [IParen (print r)] else print r) ++ R) r R).
    { destruct (pp o <=? prec r) eqn:W.
      - cbn. econstructor.
        + constructor. rewrite <- (app_nil_r (print r)).
          apply (IHr 0 [] r []); [destruct r as [| |[]]; cbn; lia|left; auto|constructor].
        + apply loop_stops. exact HF.
      - apply Nat.leb_gt in W. apply IHr.
        + destruct r as [| |o2]; cbn in *; try (destruct o; cbn; lia). apply pp_bp in W. exact W.
        + destruct r as [| |o2]; cbn [lvl]; [eapply follow_weaken; [|exact HF]; destruct o; cbn; lia ..|].
          apply pp_bp in W. eapply follow_weaken; [|exact HF]. cbn in W. lia.
        + apply loop_stops. exact HF. }
    assert (STEP : Loop rbp l (IIn o :: (if pp o <=? prec r then [IParen (print r)] else print r) ++ R) t' R').
    { eapply L_step; [exact Hr|exact RHS|exact HL]. }
    rewrite <- app_assoc. cbn [app].
    destruct (pp o <? prec l) eqn:W.
    + cbn. econstructor; [|exact STEP]. constructor. rewrite <- (app_nil_r (print l)).
      apply (IHl 0 [] l []); [destruct l as [| |[]]; cbn; lia|left; auto|constructor].
    + apply Nat.ltb_ge in W. apply IHl.
      * destruct l as [| |o1]; cbn in *; try (destruct o; cbn in *; lia).
        assert (bp o <= bp o1) by (destruct o, o1; cbn in *; lia). lia.
      * right. exists o, ((if pp o <=? prec r then [IParen (print r)] else print r) ++ R). split; auto.
        destruct l as [| |o1]; cbn in *; try (destruct o; cbn; lia). destruct o, o1; cbn in *; lia.
      * exact STEP.
Qed.

Corollary roundtrip t : Expr 0 (print t) t [].
Proof.
  rewrite <- (app_nil_r (print t)). apply claim; [destruct t as [| |[]]; cbn; lia|left; auto|constructor].
Qed.
Print Assumptions roundtrip.

(* determinism of the big-step relation, so that the executable parser can only return this tree *)
Scheme Expr_ind' := Induction for Expr Sort Prop
  with Nud_ind' := Induction for Nud Sort Prop
  with Loop_ind' := Induction for Loop Sort Prop.
