(* DESIGN-PHASE EXPERIMENT (not part of any check): HT/classical satisfaction over the sorted
   standard domain, persistence, and the gamma theorem of C05.  coqc: 2 s, axiom-free. *)
From Coq Require Import List Ascii String ZArith Bool Lia.
Import ListNotations.
Open Scope string_scope.

Inductive sort := SGen | SInt | SSym.
Inductive iop := IAdd | ISub | IMul.
Inductive iterm :=
| INum (z : Z) | IFun (c : string) | IVar (x : string)
| INeg (t : iterm) | IBin (o : iop) (l r : iterm).
Inductive sterm := SSymb (s : string) | SFun (c : string) | SVar (x : string).
Inductive gterm := GInf | GSup | GFun (c : string) | GVar (x : string)
| GInt (t : iterm) | GSym (t : sterm).
Inductive rel := REq | RNe | RGt | RLt | RGe | RLe.
Inductive aformula :=
| ATrue | AFalse | AAtom (p : string) (ts : list gterm)
| ACmp (t : gterm) (gs : list (rel * gterm)).
Inductive bconn := CAnd | COr | CImp | CRimp | CIff.
Inductive quant := QAll | QEx.
Record var := mkvar { vname : string; vsort : sort }.
Inductive formula :=
| FAtomic (a : aformula)
| FNot (f : formula)
| FBin (c : bconn) (l r : formula)
| FQ (q : quant) (vs : list var) (f : formula).

Inductive gval := VInf | VNum (z : Z) | VSym (s : string) | VSup.

Record env := mkenv { eg : string -> gval; ei : string -> Z; es : string -> string }.
Record fint := mkfint { fg : string -> gval; fi : string -> Z; fs : string -> string }.
Definition pint := string -> list gval -> Prop.

Section Sem.
Variable FI : fint.
Fixpoint ev_i (e : env) (t : iterm) : Z :=
  match t with
  | INum z => z | IFun c => fi FI c | IVar x => ei e x
  | INeg t => (- ev_i e t)%Z
  | IBin IAdd l r => (ev_i e l + ev_i e r)%Z
  | IBin ISub l r => (ev_i e l - ev_i e r)%Z
  | IBin IMul l r => (ev_i e l * ev_i e r)%Z
  end.
Definition ev_s (e : env) (t : sterm) : string :=
  match t with SSymb s => s | SFun c => fs FI c | SVar x => es e x end.
Definition ev_g (e : env) (t : gterm) : gval :=
  match t with
  | GInf => VInf | GSup => VSup | GFun c => fg FI c | GVar x => eg e x
  | GInt t => VNum (ev_i e t) | GSym t => VSym (ev_s e t) end.

Definition gle (a b : gval) : bool :=
  match a, b with
  | VInf, _ => true | _, VSup => true
  | VNum x, VNum y => (x <=? y)%Z
  | VNum _, VSym _ => true
  | VSym x, VSym y => String.leb x y
  | _, _ => false end.
Definition gval_eqb (a b : gval) : bool :=
  match a, b with
  | VInf, VInf | VSup, VSup => true
  | VNum x, VNum y => (x =? y)%Z
  | VSym x, VSym y => String.eqb x y
  | _, _ => false end.
Definition rel_sat (r : rel) (a b : gval) : bool :=
  match r with
  | REq => gval_eqb a b | RNe => negb (gval_eqb a b)
  | RLe => gle a b | RGe => gle b a
  | RLt => gle a b && negb (gval_eqb a b)
  | RGt => gle b a && negb (gval_eqb a b) end.

Fixpoint chain_sat (e : env) (l : gval) (gs : list (rel * gterm)) : bool :=
  match gs with
  | [] => true
  | (r, t) :: gs' => let v := ev_g e t in rel_sat r l v && chain_sat e v gs'
  end.

Definition upd (e : env) (v : var) (d : gval) : env :=
  match vsort v, d with
  | SGen, _ => mkenv (fun y => if String.eqb y (vname v) then d else eg e y) (ei e) (es e)
  | SInt, VNum z => mkenv (eg e) (fun y => if String.eqb y (vname v) then z else ei e y) (es e)
  | SSym, VSym s => mkenv (eg e) (ei e) (fun y => if String.eqb y (vname v) then s else es e y)
  | _, _ => e end.
Definition in_sort (s : sort) (d : gval) : Prop :=
  match s, d with SGen, _ => True | SInt, VNum _ => True | SSym, VSym _ => True | _, _ => False end.

Definition asat (I : pint) (e : env) (a : aformula) : Prop :=
  match a with
  | ATrue => True | AFalse => False
  | AAtom p ts => I p (map (ev_g e) ts)
  | ACmp t gs => chain_sat e (ev_g e t) gs = true end.

Fixpoint qsat (q : quant) (vs : list var) (k : env -> Prop) (e : env) : Prop :=
  match vs with
  | [] => k e
  | v :: vs' =>
      match q with
      | QAll => forall d, in_sort (vsort v) d -> qsat q vs' k (upd e v d)
      | QEx => exists d, in_sort (vsort v) d /\ qsat q vs' k (upd e v d)
      end
  end.

Fixpoint csat (I : pint) (e : env) (f : formula) : Prop :=
  match f with
  | FAtomic a => asat I e a
  | FNot f => ~ csat I e f
  | FBin CAnd l r => csat I e l /\ csat I e r
  | FBin COr l r => csat I e l \/ csat I e r
  | FBin CImp l r => csat I e l -> csat I e r
  | FBin CRimp l r => csat I e r -> csat I e l
  | FBin CIff l r => csat I e l <-> csat I e r
  | FQ q vs f => qsat q vs (fun e' => csat I e' f) e
  end.

Fixpoint hsat (H T : pint) (e : env) (f : formula) : Prop :=
  match f with
  | FAtomic a => asat H e a
  | FNot f => ~ csat T e f
  | FBin CAnd l r => hsat H T e l /\ hsat H T e r
  | FBin COr l r => hsat H T e l \/ hsat H T e r
  | FBin CImp l r => (hsat H T e l -> hsat H T e r) /\ (csat T e l -> csat T e r)
  | FBin CRimp l r => (hsat H T e r -> hsat H T e l) /\ (csat T e r -> csat T e l)
  | FBin CIff l r => ((hsat H T e l -> hsat H T e r) /\ (csat T e l -> csat T e r))
                     /\ ((hsat H T e r -> hsat H T e l) /\ (csat T e r -> csat T e l))
  | FQ q vs f => qsat q vs (fun e' => hsat H T e' f) e
  end.
End Sem.

Definition sub (H T : pint) := forall p a, H p a -> T p a.

Lemma qsat_mono q vs (k1 k2 : env -> Prop) e :
  (forall e, k1 e -> k2 e) -> qsat q vs k1 e -> qsat q vs k2 e.
Proof.
  revert e; induction vs as [|v vs IH]; intros e Hk; cbn; [apply Hk|].
  destruct q; intros Hq.
  - intros d Hd. apply IH; auto.
  - destruct Hq as [d [Hd Hq]]. exists d; split; auto.
Qed.

(* NB: `firstorder` on the binary case ran for > 4 minutes; `intuition` is instantaneous. *)
Lemma persist FI H T (HS : sub H T) f : forall e, hsat FI H T e f -> csat FI T e f.
Proof.
  induction f as [a|f IH|c l IHl r IHr|q vs f IH]; intros e; cbn.
  - destruct a; cbn; auto.
  - auto.
  - destruct c; cbn; intuition.
  - apply qsat_mono. auto.
Qed.

Definition ren_a (pre : string) (a : aformula) : aformula :=
  match a with AAtom p ts => AAtom (pre ++ p) ts | a => a end.
Fixpoint ren (pre : string) (f : formula) : formula :=
  match f with
  | FAtomic a => FAtomic (ren_a pre a)
  | FNot f => FNot (ren pre f)
  | FBin c l r => FBin c (ren pre l) (ren pre r)
  | FQ q vs f => FQ q vs (ren pre f) end.
Fixpoint gamma (f : formula) : formula :=
  match f with
  | FAtomic a => FAtomic (ren_a "h" a)
  | FNot f => FNot (ren "t" f)
  | FBin CAnd l r => FBin CAnd (gamma l) (gamma r)
  | FBin COr l r => FBin COr (gamma l) (gamma r)
  | FBin c l r => FBin CAnd (FBin c (gamma l) (gamma r)) (FBin c (ren "t" l) (ren "t" r))
  | FQ q vs f => FQ q vs (gamma f) end.

Definition merge (H T : pint) : pint := fun p a =>
  match p with
  | String "h"%char p' => H p' a
  | String "t"%char p' => T p' a
  | _ => False end.

Lemma qsat_iff q vs (k1 k2 : env -> Prop) e :
  (forall e, k1 e <-> k2 e) -> qsat q vs k1 e <-> qsat q vs k2 e.
Proof. intros Hk; split; apply qsat_mono; intros; apply Hk; auto. Qed.

Lemma there_ok FI H T f : forall e, csat FI (merge H T) e (ren "t" f) <-> csat FI T e f.
Proof.
  induction f as [a|f IH|c l IHl r IHr|q vs f IH]; intros e; cbn.
  - destruct a; cbn; tauto.
  - rewrite IH; tauto.
  - destruct c; cbn; rewrite IHl, IHr; tauto.
  - apply qsat_iff; auto.
Qed.

Theorem gamma_ok FI H T (HS : sub H T) f :
  forall e, hsat FI H T e f <-> csat FI (merge H T) e (gamma f).
Proof.
  induction f as [a|f IH|c l IHl r IHr|q vs f IH]; intros e; cbn.
  - destruct a; cbn; tauto.
  - rewrite there_ok; tauto.
  - destruct c; cbn; rewrite ?there_ok, <- ?IHl, <- ?IHr; tauto.
  - apply qsat_iff; auto.
Qed.
Print Assumptions gamma_ok.
