(* DESIGN-PHASE EXPERIMENT (not part of any check): coincidence lemma, capture-avoiding substitution
   with block renaming as in Formula::substitute *after the planned repair* (fresh names avoid the term's
   variables, the body's free variables, the substituted variable, the whole block and earlier choices),
   fv inclusion (subst_fv) and the semantic substitution theorem (subst_sem), two sorts, blocks without
   duplicates.  The attempt to prove it for the code as it is exposed defects F6 and F6b.  coqc: 3 s, axiom-free. *)
From Coq Require Import List Ascii String ZArith Bool Lia PeanoNat.
Import ListNotations.
Open Scope string_scope.
Open Scope list_scope.

Inductive sort := SGen | SInt.
Definition sort_eqb (a b : sort) := match a, b with SGen, SGen | SInt, SInt => true | _, _ => false end.
Record var := mkvar { vname : string; vsort : sort }.
Definition var_eqb (a b : var) := String.eqb (vname a) (vname b) && sort_eqb (vsort a) (vsort b).
Lemma var_eqb_spec a b : reflect (a = b) (var_eqb a b).
Proof.
  destruct a as [n s], b as [m u]; unfold var_eqb; cbn.
  destruct (String.eqb_spec n m); cbn; [subst|constructor; congruence].
  destruct s, u; cbn; constructor; congruence.
Qed.
Definition var_dec (a b : var) : {a = b} + {a <> b}.
Proof. destruct (var_eqb_spec a b); [left|right]; assumption. Defined.

Inductive iterm := INum (z : Z) | IVar (x : string) | IAdd (l r : iterm).
Inductive gterm := GVar (x : string) | GInt (t : iterm) | GSymb (s : string).
Inductive quant := QAll | QEx.
Inductive formula :=
| FAtom (p : string) (ts : list gterm)
| FEq (a b : gterm)
| FNot (f : formula)
| FAnd (l r : formula)
| FQ (q : quant) (vs : list var) (f : formula).

Inductive gval := VNum (z : Z) | VSym (s : string).
Record env := mkenv { eg : string -> gval; ei : string -> Z }.
Definition pint := string -> list gval -> Prop.

Fixpoint ev_i (e : env) (t : iterm) : Z :=
  match t with INum z => z | IVar x => ei e x | IAdd l r => (ev_i e l + ev_i e r)%Z end.
Definition ev_g (e : env) (t : gterm) : gval :=
  match t with GVar x => eg e x | GInt t => VNum (ev_i e t) | GSymb s => VSym s end.

Definition in_sort (s : sort) (d : gval) : Prop :=
  match s, d with SGen, _ => True | SInt, VNum _ => True | _, _ => False end.
Definition upd (e : env) (v : var) (d : gval) : env :=
  match vsort v, d with
  | SGen, _ => mkenv (fun y => if String.eqb y (vname v) then d else eg e y) (ei e)
  | SInt, VNum z => mkenv (eg e) (fun y => if String.eqb y (vname v) then z else ei e y)
  | _, _ => e end.
Definition getv (e : env) (v : var) : gval :=
  match vsort v with SGen => eg e (vname v) | SInt => VNum (ei e (vname v)) end.

Fixpoint qsat (q : quant) (vs : list var) (k : env -> Prop) (e : env) : Prop :=
  match vs with
  | [] => k e
  | v :: vs' => match q with
      | QAll => forall d, in_sort (vsort v) d -> qsat q vs' k (upd e v d)
      | QEx => exists d, in_sort (vsort v) d /\ qsat q vs' k (upd e v d) end
  end.
Fixpoint csat (I : pint) (e : env) (f : formula) : Prop :=
  match f with
  | FAtom p ts => I p (map (ev_g e) ts)
  | FEq a b => ev_g e a = ev_g e b
  | FNot f => ~ csat I e f
  | FAnd l r => csat I e l /\ csat I e r
  | FQ q vs f => qsat q vs (fun e' => csat I e' f) e
  end.

(* ---- variables ---- *)
Fixpoint iv (t : iterm) : list var :=
  match t with INum _ => [] | IVar x => [mkvar x SInt] | IAdd l r => iv l ++ iv r end.
Definition tv (t : gterm) : list var :=
  match t with GVar x => [mkvar x SGen] | GInt t => iv t | GSymb _ => [] end.
Definition inb (v : var) (l : list var) : bool := existsb (var_eqb v) l.
Lemma inb_spec v l : reflect (In v l) (inb v l).
Proof.
  unfold inb. destruct (existsb (var_eqb v) l) eqn:E; constructor.
  - apply existsb_exists in E. destruct E as [x [Hx E]]. destruct (var_eqb_spec v x); congruence.
  - intros H. assert (existsb (var_eqb v) l = true); [|congruence].
    apply existsb_exists. exists v; split; auto. destruct (var_eqb_spec v v); congruence.
Qed.
Definition remove_all (vs l : list var) : list var := filter (fun x => negb (inb x vs)) l.
Lemma in_remove_all x vs l : In x (remove_all vs l) <-> In x l /\ ~ In x vs.
Proof.
  unfold remove_all. rewrite filter_In. destruct (inb_spec x vs); cbn; intuition congruence.
Qed.

Fixpoint fv (f : formula) : list var :=
  match f with
  | FAtom _ ts => flat_map tv ts
  | FEq a b => tv a ++ tv b
  | FNot f => fv f
  | FAnd l r => fv l ++ fv r
  | FQ _ vs f => remove_all vs (fv f)
  end.

Definition agree (vs : list var) (e1 e2 : env) := forall v, In v vs -> getv e1 v = getv e2 v.

Lemma ev_i_agree e1 e2 t : agree (iv t) e1 e2 -> ev_i e1 t = ev_i e2 t.
Proof.
  induction t as [z|x|l IHl r IHr]; cbn; intros A; auto.
  - specialize (A (mkvar x SInt) (or_introl eq_refl)). unfold getv in A; cbn in A. congruence.
  - rewrite IHl, IHr; auto; intros v Hv; apply A; apply in_or_app; auto.
Qed.
Lemma ev_g_agree e1 e2 t : agree (tv t) e1 e2 -> ev_g e1 t = ev_g e2 t.
Proof.
  destruct t; cbn; intros A; auto.
  - apply (A (mkvar x SGen)); left; reflexivity.
  - f_equal. apply ev_i_agree; auto.
Qed.

Lemma getv_upd_same e v d : in_sort (vsort v) d -> getv (upd e v d) v = d.
Proof.
  destruct v as [n s]; unfold getv, upd; cbn. destruct s, d; cbn; try tauto; rewrite String.eqb_refl; auto.
Qed.
Lemma getv_upd_other e v w d : v <> w -> getv (upd e v d) w = getv e w.
Proof.
  destruct v as [n s], w as [m u]; unfold getv, upd; cbn; intros NE.
  destruct s, u, d; cbn; auto; destruct (String.eqb_spec m n); auto; subst; congruence.
Qed.
Lemma in_sort_getv e v : in_sort (vsort v) (getv e v).
Proof. destruct v as [n []]; cbn; auto. Qed.

Lemma qsat_ext q (k1 k2 : env -> Prop) fvs :
  (forall e1 e2, agree fvs e1 e2 -> (k1 e1 <-> k2 e2)) ->
  forall vs e1 e2, (forall w, In w fvs -> ~ In w vs -> getv e1 w = getv e2 w) ->
  (qsat q vs k1 e1 <-> qsat q vs k2 e2).
Proof.
  intros K. induction vs as [|v vs IH]; intros e1 e2 A; cbn.
  - apply K. intros w Hw. apply A; auto.
  - assert (STEP : forall d, in_sort (vsort v) d ->
       (qsat q vs k1 (upd e1 v d) <-> qsat q vs k2 (upd e2 v d))).
    { intros d Sd. apply IH. intros w Hw Nw. destruct (var_dec v w) as [->|NE].
      - rewrite !getv_upd_same; auto.
      - rewrite !getv_upd_other; auto. apply A; auto. intros [E|E]; auto. }
    destruct q; split.
    + intros H d Sd. apply STEP; auto.
    + intros H d Sd. apply STEP; auto.
    + intros [d [Sd H]]. exists d; split; auto. apply STEP; auto.
    + intros [d [Sd H]]. exists d; split; auto. apply STEP; auto.
Qed.

Lemma agree_app l1 l2 e1 e2 : agree (l1 ++ l2) e1 e2 <-> agree l1 e1 e2 /\ agree l2 e1 e2.
Proof. unfold agree; split; [intros A; split; intros v Hv; apply A; apply in_or_app; auto
  | intros [A B] v Hv; apply in_app_or in Hv; destruct Hv; auto]. Qed.

Lemma map_ev_agree ts e1 e2 : agree (flat_map tv ts) e1 e2 -> map (ev_g e1) ts = map (ev_g e2) ts.
Proof.
  induction ts as [|t ts IH]; cbn; intros A; auto. apply agree_app in A; destruct A as [A B].
  f_equal; auto. apply ev_g_agree; auto.
Qed.

Theorem coincidence I F : forall e1 e2, agree (fv F) e1 e2 -> (csat I e1 F <-> csat I e2 F).
Proof.
  induction F as [p ts|a b|f IH|l IHl r IHr|q vs f IH]; intros e1 e2 A; cbn in *.
  - rewrite (map_ev_agree ts e1 e2 A). tauto.
  - apply agree_app in A; destruct A as [A B]. rewrite (ev_g_agree e1 e2 a A), (ev_g_agree e1 e2 b B). tauto.
  - rewrite (IH e1 e2 A). tauto.
  - apply agree_app in A; destruct A as [A B]. rewrite (IHl e1 e2 A), (IHr e1 e2 B). tauto.
  - apply (qsat_ext q _ _ (fv f)); [exact IH|]. intros w Hw Nw. apply A. apply in_remove_all; auto.
Qed.
Print Assumptions coincidence.

(* ================= substitution ================= *)
Definition var_term (v : var) : gterm :=
  match vsort v with SGen => GVar (vname v) | SInt => GInt (IVar (vname v)) end.
Lemma ev_var_term e v : ev_g e (var_term v) = getv e v.
Proof. destruct v as [n []]; reflexivity. Qed.
Lemma tv_var_term v : tv (var_term v) = [v].
Proof. destruct v as [n []]; reflexivity. Qed.

Fixpoint isubst (t : iterm) (x : string) (u : iterm) : iterm :=
  match t with
  | INum z => INum z
  | IVar s => if String.eqb s x then u else IVar s
  | IAdd l r => IAdd (isubst l x u) (isubst r x u) end.
Definition gsubst (g : gterm) (x : var) (t : gterm) : gterm :=
  match g, vsort x with
  | GVar s, SGen => if String.eqb s (vname x) then t else g
  | GInt it, SInt => match t with GInt u => GInt (isubst it (vname x) u) | _ => g end
  | _, _ => g end.
Definition sort_ok (x : var) (t : gterm) : Prop :=
  match vsort x, t with SInt, GInt _ => True | SInt, _ => False | SGen, _ => True end.

Lemma isubst_sem e it x u : ev_i e (isubst it x u) = ev_i (upd e (mkvar x SInt) (VNum (ev_i e u))) it.
Proof.
  induction it as [z|s|l IHl r IHr]; cbn; auto.
  - destruct (String.eqb_spec s x); cbn; auto.
  - rewrite IHl, IHr. reflexivity.
Qed.
Lemma ev_i_ext e1 e2 it : (forall y, ei e1 y = ei e2 y) -> ev_i e1 it = ev_i e2 it.
Proof. intros H; induction it; cbn; auto. rewrite IHit1, IHit2; reflexivity. Qed.
Lemma gsubst_sem e g x t : sort_ok x t -> ev_g e (gsubst g x t) = ev_g (upd e x (ev_g e t)) g.
Proof.
  destruct x as [n s]; unfold sort_ok, gsubst; cbn [vsort vname].
  destruct g as [y|it|c]; destruct s; intros OK.
  - cbn. destruct (String.eqb_spec y n); cbn; auto.
  - unfold upd; cbn. destruct (ev_g e t); reflexivity.
  - cbn [ev_g]. f_equal. apply ev_i_ext. intros y. reflexivity.
  - destruct t as [|u|]; try tauto. cbn [ev_g]. rewrite isubst_sem. reflexivity.
  - reflexivity.
  - reflexivity.
Qed.

(* ---- iterated updates ---- *)
Fixpoint upds (e : env) (vs : list var) (ds : list gval) : env :=
  match vs, ds with v :: vs', d :: ds' => upds (upd e v d) vs' ds' | _, _ => e end.
Definition wsorted (vs : list var) (ds : list gval) := Forall2 (fun v d => in_sort (vsort v) d) vs ds.

Lemma qsat_upds q vs k : forall e,
  qsat q vs k e <-> match q with
                    | QAll => forall ds, wsorted vs ds -> k (upds e vs ds)
                    | QEx => exists ds, wsorted vs ds /\ k (upds e vs ds) end.
Proof.
  induction vs as [|v vs IH]; intros e; cbn.
  - destruct q; split.
    + intros H ds W. inversion W; subst. exact H.
    + intros H. apply (H []). constructor.
    + intros H. exists []; split; [constructor|exact H].
    + intros [ds [W H]]. inversion W; subst. exact H.
  - destruct q; split.
    + intros H ds W. inversion W as [|? d ? ds' Sd W']; subst. cbn. apply (IH (upd e v d)); auto.
    + intros H d Sd. apply IH. intros ds W. apply (H (d :: ds)). constructor; auto.
    + intros [d [Sd H]]. apply IH in H. destruct H as [ds [W H]]. exists (d :: ds); split; [constructor; auto|exact H].
    + intros [ds [W H]]. inversion W as [|? d ? ds' Sd W']; subst. exists d; split; auto. apply IH. exists ds'; split; auto.
Qed.

Lemma agree_upds vs : forall ds E1 E2 w, wsorted vs ds ->
  (In w vs \/ getv E1 w = getv E2 w) -> getv (upds E1 vs ds) w = getv (upds E2 vs ds) w.
Proof.
  induction vs as [|v vs IH]; intros ds E1 E2 w W H.
  - inversion W; subst. cbn. destruct H as [[]|H]; exact H.
  - inversion W as [|? d ? ds' Sd W']; subst. cbn. apply IH; auto.
    destruct (var_dec v w) as [->|NE].
    + right. rewrite !getv_upd_same; auto.
    + destruct H as [[E|H]|H]; [congruence|left; exact H|right]. rewrite !getv_upd_other; auto.
Qed.
Lemma getv_upds_notin vs : forall ds E w, wsorted vs ds -> ~ In w vs -> getv (upds E vs ds) w = getv E w.
Proof.
  induction vs as [|v vs IH]; intros ds E w W N; inversion W as [|? d ? ds' Sd W']; subst; cbn; auto.
  rewrite IH; auto.
  - apply getv_upd_other. intros ->. apply N; left; reflexivity.
  - intros H; apply N; right; exact H.
Qed.

Fixpoint size (f : formula) : nat :=
  match f with FAtom _ _ | FEq _ _ => 1 | FNot f => S (size f) | FAnd l r => S (size l + size r)
  | FQ _ _ f => S (size f) end.

Section Sub.
Variable pick : var -> list var -> var.
Hypothesis pick_out : forall v avoid, ~ In (pick v avoid) avoid.
Hypothesis pick_sort : forall v avoid, vsort (pick v avoid) = vsort v.

(* the repaired renaming loop of Formula::substitute: candidates avoid the term's variables, the body's
   free variables, the substituted variable, the whole block and the names chosen so far *)
Fixpoint rb (sub : formula -> var -> gterm -> formula) (tvs avoid0 : list var)
         (vs : list var) (f : formula) (chosen : list var) : formula * list var :=
  match vs with
  | [] => (f, [])
  | v :: vs' =>
      if inb v tvs then
        let v' := pick v (avoid0 ++ chosen) in
        let '(f', o) := rb sub tvs avoid0 vs' (sub f v (var_term v')) (chosen ++ [v']) in (f', v' :: o)
      else let '(f', o) := rb sub tvs avoid0 vs' f (chosen ++ [v]) in (f', v :: o)
  end.

Fixpoint subst (n : nat) (F : formula) (x : var) (t : gterm) : formula :=
  match n with O => F | S n' =>
  match F with
  | FAtom p ts => FAtom p (map (fun g => gsubst g x t) ts)
  | FEq a b => FEq (gsubst a x t) (gsubst b x t)
  | FNot f => FNot (subst n' f x t)
  | FAnd l r => FAnd (subst n' l x t) (subst n' r x t)
  | FQ q vs f =>
      if inb x vs then F else
      let '(f', vs') := rb (subst n') (tv t) (tv t ++ fv f ++ [x] ++ vs) vs f [] in
      FQ q vs' (subst n' f' x t)
  end end.

Lemma rb_size sub tvs avoid0 (Hs : forall f v t, size (sub f v t) = size f) :
  forall vs f ch, size (fst (rb sub tvs avoid0 vs f ch)) = size f.
Proof.
  induction vs as [|v vs IH]; intros f ch; cbn; auto.
  destruct (inb v tvs).
  - specialize (IH (sub f v (var_term (pick v (avoid0 ++ ch)))) (ch ++ [pick v (avoid0 ++ ch)])).
    destruct (rb _ _ _ vs _ _) as [f' o]; cbn in *. rewrite IH; auto.
  - specialize (IH f (ch ++ [v])). destruct (rb _ _ _ vs _ _) as [f' o]; cbn in *. auto.
Qed.
Lemma subst_size n : forall F x t, size (subst n F x t) = size F.
Proof.
  induction n as [|n IH]; intros F x t; cbn; auto.
  destruct F as [p ts|a b|f|l r|q vs f]; cbn; auto.
  destruct (inb x vs); cbn; auto.
  pose proof (rb_size (subst n) (tv t) (tv t ++ fv f ++ [x] ++ vs) (IH) vs f []) as HS.
  destruct (rb _ _ _ vs f []) as [f' vs']; cbn in *. rewrite IH. congruence.
Qed.

(* ---- free variables of the result:  fv (F[x:=t]) ⊆ (fv F \ {x}) ∪ fv t ---- *)
Lemma iv_isubst it x u w : In w (iv (isubst it x u)) -> (In w (iv it) /\ w <> mkvar x SInt) \/ In w (iv u).
Proof.
  induction it as [z|s|l IHl r IHr]; cbn; try tauto.
  - destruct (String.eqb_spec s x); cbn; auto. intros [<-|[]]. left; split; auto. congruence.
  - intros H; apply in_app_or in H; destruct H as [H|H]; [apply IHl in H|apply IHr in H];
    destruct H as [[H N]|H]; auto; left; split; auto; apply in_or_app; auto.
Qed.
Lemma iv_sort it w : In w (iv it) -> vsort w = SInt.
Proof. induction it; cbn; try tauto. - intros [<-|[]]; reflexivity. - intros H; apply in_app_or in H; tauto. Qed.
Lemma tv_gsubst g x t w : sort_ok x t -> In w (tv (gsubst g x t)) -> (In w (tv g) /\ w <> x) \/ In w (tv t).
Proof.
  destruct x as [n s]; unfold gsubst, sort_ok; cbn [vsort vname]. destruct g as [y|it|c]; destruct s; cbn; intros OK.
  - destruct (String.eqb_spec y n); cbn; auto. intros [<-|[]]. left; split; auto. congruence.
  - intros [<-|[]]. left; split; auto. congruence.
  - intros H. left; split; auto. intros ->. apply iv_sort in H. discriminate.
  - destruct t as [|u|]; try tauto. cbn. intros H. apply iv_isubst in H. tauto.
  - tauto.
  - tauto.
Qed.

Lemma sort_ok_var v w : vsort w = vsort v -> sort_ok v (var_term w).
Proof. destruct v as [n []], w as [m []]; cbn; intros; try discriminate; exact I. Qed.

Lemma rb_fv sub tvs avoid0 sz
  (Hs : forall f v t, size (sub f v t) = size f)
  (Hfv : forall f v w u, size f = sz -> vsort w = vsort v ->
         In u (fv (sub f v (var_term w))) -> (In u (fv f) /\ u <> v) \/ u = w) :
  forall vs f ch f' o, size f = sz -> rb sub tvs avoid0 vs f ch = (f', o) ->
    forall u, In u (fv f') -> ~ In u o -> In u (fv f) /\ ~ In u vs.
Proof.
  induction vs as [|v vs IH]; intros f ch f' o SZ E u Hu No; cbn in E.
  - inversion E; subst. tauto.
  - destruct (inb v tvs).
    + set (v' := pick v (avoid0 ++ ch)) in *.
      destruct (rb sub tvs avoid0 vs (sub f v (var_term v')) (ch ++ [v'])) as [f1 o1] eqn:E1.
      inversion E; subst. destruct (IH _ _ _ _ (eq_trans (Hs _ _ _) eq_refl) E1 u Hu) as [H1 H2];
        [intros H; apply No; right; exact H|].
      apply Hfv in H1; [|reflexivity|apply pick_sort]. destruct H1 as [[H1 N]|H1].
      * split; auto. intros [->|H]; tauto.
      * exfalso. apply No. left. congruence.
    + destruct (rb sub tvs avoid0 vs f (ch ++ [v])) as [f1 o1] eqn:E1.
      inversion E; subst. destruct (IH _ _ _ _ eq_refl E1 u Hu) as [H1 H2]; [intros H; apply No; right; exact H|].
      split; auto. intros [->|H]; [apply No; left; reflexivity|tauto].
Qed.

Lemma subst_fv n : forall F x t u, size F <= n -> sort_ok x t ->
  In u (fv (subst n F x t)) -> (In u (fv F) /\ u <> x) \/ In u (tv t).
Proof.
  induction n as [|n IH]; intros F x t u SZ OK; [destruct F; cbn in SZ; lia|].
  destruct F as [p ts|a b|f|l r|q vs f]; cbn [subst fv size] in *.
  - intros H. apply in_flat_map in H. destruct H as [g' [Hg Hu]]. apply in_map_iff in Hg.
    destruct Hg as [g [<- Hg]]. apply tv_gsubst in Hu; auto. destruct Hu as [[Hu N]|Hu]; auto.
    left; split; auto. apply in_flat_map. exists g; auto.
  - intros H. apply in_app_or in H. destruct H as [H|H]; apply tv_gsubst in H; auto;
    destruct H as [[H N]|H]; auto; left; split; auto; apply in_or_app; auto.
  - apply IH; auto; lia.
  - intros H. apply in_app_or in H. destruct H as [H|H]; apply IH in H; auto; try lia;
    destruct H as [[H N]|H]; auto; left; split; auto; apply in_or_app; auto.
  - destruct (inb_spec x vs) as [Hin|Hnin].
    + cbn [fv]. intros H. left; split; auto. apply in_remove_all in H. intros ->. tauto.
    + destruct (rb (subst n) (tv t) (tv t ++ fv f ++ [x] ++ vs) vs f []) as [f' vs'] eqn:E.
      cbn [fv]. intros H. apply in_remove_all in H. destruct H as [H No].
      assert (SZ' : size f' <= n).
      { pose proof (rb_size (subst n) (tv t) (tv t ++ fv f ++ [x] ++ vs) (subst_size n) vs f []) as HS.
        rewrite E in HS; cbn in HS. lia. }
      apply IH in H; auto. destruct H as [[H N]|H]; auto.
      left. split; auto.
      assert (R : In u (fv f) /\ ~ In u vs).
      { eapply (rb_fv (subst n) _ _ (size f) (subst_size n)); [| reflexivity | exact E | exact H | exact No].
        intros f0 v w u0 S0 SW Hu0. apply IH in Hu0; [|lia|apply sort_ok_var; auto].
        rewrite tv_var_term in Hu0. destruct Hu0 as [Hu0|[<-|[]]]; auto. }
      apply in_remove_all. exact R.
Qed.

(* ---- structure of the renamed block ---- *)
Lemma rb_struct sub tvs avoid0 :
  forall vs f ch f' o, rb sub tvs avoid0 vs f ch = (f', o) ->
    Forall2 (fun v w => vsort w = vsort v) vs o /\
    (forall w, In w o -> (In w vs /\ ~ In w tvs) \/ (~ In w avoid0 /\ ~ In w ch)).
Proof.
  induction vs as [|v vs IH]; intros f ch f' o E; cbn in E.
  - inversion E; subst. split; [constructor|intros w []].
  - destruct (inb_spec v tvs) as [Hin|Hnin].
    + set (v' := pick v (avoid0 ++ ch)) in *.
      destruct (rb sub tvs avoid0 vs (sub f v (var_term v')) (ch ++ [v'])) as [f1 o1] eqn:E1.
      inversion E; subst. destruct (IH _ _ _ _ E1) as [S1 S2]. split.
      * constructor; auto. apply pick_sort.
      * intros w [<-|Hw].
        -- right. pose proof (pick_out v (avoid0 ++ ch)) as P. fold v' in P.
           split; intros H; apply P; apply in_or_app; auto.
        -- destruct (S2 w Hw) as [[H1 H2]|[H1 H2]]; [left; split; auto; right; auto|right; split; auto].
           intros H; apply H2; apply in_or_app; auto.
    + destruct (rb sub tvs avoid0 vs f (ch ++ [v])) as [f1 o1] eqn:E1.
      inversion E; subst. destruct (IH _ _ _ _ E1) as [S1 S2]. split.
      * constructor; auto.
      * intros w [<-|Hw]; [left; split; auto; left; auto|].
        destruct (S2 w Hw) as [[H1 H2]|[H1 H2]]; [left; split; auto; right; auto|right; split; auto].
        intros H; apply H2; apply in_or_app; auto.
Qed.

Lemma rb_nodup sub tvs avoid0 :
  forall vs f ch f' o, rb sub tvs avoid0 vs f ch = (f', o) ->
    NoDup vs -> (forall u, In u vs -> In u avoid0) -> NoDup o.
Proof.
  induction vs as [|v vs IH]; intros f ch f' o E ND AV; cbn in E.
  - inversion E; subst. constructor.
  - inversion ND as [|? ? Nv ND']; subst.
    destruct (inb v tvs).
    + set (v' := pick v (avoid0 ++ ch)) in *.
      destruct (rb sub tvs avoid0 vs (sub f v (var_term v')) (ch ++ [v'])) as [f1 o1] eqn:E1.
      inversion E; subst. constructor.
      * intros H. destruct (rb_struct _ _ _ _ _ _ _ _ E1) as [_ S2]. destruct (S2 _ H) as [[H1 _]|[_ H2]].
        -- pose proof (pick_out v (avoid0 ++ ch)) as P. fold v' in P. apply P. apply in_or_app. left. apply AV. right; auto.
        -- apply H2. apply in_or_app. right. left. reflexivity.
      * eapply IH; eauto. intros u Hu; apply AV; right; auto.
    + destruct (rb sub tvs avoid0 vs f (ch ++ [v])) as [f1 o1] eqn:E1.
      inversion E; subst. constructor.
      * intros H. destruct (rb_struct _ _ _ _ _ _ _ _ E1) as [_ S2]. destruct (S2 _ H) as [[H1 _]|[H1 _]].
        -- tauto.
        -- apply H1. apply AV. left; reflexivity.
      * eapply IH; eauto. intros u Hu; apply AV; right; auto.
Qed.

Fixpoint nodup_blocks (F : formula) : Prop :=
  match F with
  | FNot f => nodup_blocks f
  | FAnd l r => nodup_blocks l /\ nodup_blocks r
  | FQ _ vs f => NoDup vs /\ nodup_blocks f
  | _ => True end.

Lemma rb_nodup_blocks sub tvs avoid0 (Hn : forall f v t, nodup_blocks f -> nodup_blocks (sub f v t)) :
  forall vs f ch f' o, rb sub tvs avoid0 vs f ch = (f', o) -> nodup_blocks f -> nodup_blocks f'.
Proof.
  induction vs as [|v vs IH]; intros f ch f' o E NB; cbn in E.
  - inversion E; subst; auto.
  - destruct (inb v tvs).
    + destruct (rb sub tvs avoid0 vs _ _) as [f1 o1] eqn:E1. inversion E; subst. eapply IH; eauto.
    + destruct (rb sub tvs avoid0 vs f _) as [f1 o1] eqn:E1. inversion E; subst. eapply IH; eauto.
Qed.

Lemma subst_nodup n : forall F x t, nodup_blocks F -> nodup_blocks (subst n F x t).
Proof.
  induction n as [|n IH]; intros F x t NB; [exact NB|].
  destruct F as [p ts|a b|f|l r|q vs f]; cbn [subst nodup_blocks] in *; auto.
  - destruct NB; split; auto.
  - destruct NB as [ND NB]. destruct (inb x vs); [cbn; auto|].
    destruct (rb (subst n) (tv t) (tv t ++ fv f ++ [x] ++ vs) vs f []) as [f' vs'] eqn:E. cbn [nodup_blocks]. split.
    + eapply rb_nodup; eauto. intros u Hu. apply in_or_app; right. apply in_or_app; right. apply in_or_app; right. exact Hu.
    + apply IH. eapply rb_nodup_blocks; eauto.
Qed.

Lemma wsorted_iff vs o ds : Forall2 (fun v w => vsort w = vsort v) vs o -> (wsorted vs ds <-> wsorted o ds).
Proof.
  intros S; revert ds; induction S as [|v w vs o E S IH]; intros ds; split; intros W.
  - inversion W; subst. constructor.
  - inversion W; subst. constructor.
  - inversion W as [|? d ? ds' Sd W']; subst. constructor; [rewrite E; exact Sd|apply IH; exact W'].
  - inversion W as [|? d ? ds' Sd W']; subst. constructor; [rewrite <- E; exact Sd|apply IH; exact W'].
Qed.
Lemma sort_ok_in_sort e x t : sort_ok x t -> in_sort (vsort x) (ev_g e t).
Proof. destruct x as [n []]; unfold sort_ok; cbn; auto. destruct t; cbn; tauto. Qed.

Lemma rb_sem I sub tvs avoid0 sz
  (Hs : forall f v t, size (sub f v t) = size f)
  (Hn : forall f v t, nodup_blocks f -> nodup_blocks (sub f v t))
  (Hfv : forall f v w u, size f = sz -> vsort w = vsort v ->
         In u (fv (sub f v (var_term w))) -> (In u (fv f) /\ u <> v) \/ u = w)
  (Hsem : forall f v w E, size f = sz -> nodup_blocks f -> vsort w = vsort v ->
          (csat I E (sub f v (var_term w)) <-> csat I (upd E v (getv E w)) f)) :
  forall vs f ch f' o, size f = sz -> nodup_blocks f -> NoDup vs ->
    rb sub tvs avoid0 vs f ch = (f', o) ->
    (forall u, In u (fv f) -> In u avoid0 \/ In u ch) ->
    (forall u, In u vs -> In u avoid0) ->
    forall E ds, wsorted vs ds -> (csat I (upds E o ds) f' <-> csat I (upds E vs ds) f).
Proof.
  induction vs as [|v vs IH]; intros f ch f' o SZ NB ND EQ INV AV E ds W; cbn in EQ.
  - inversion EQ; subst. tauto.
  - inversion ND as [|? ? Nv ND']; subst. inversion W as [|? d ? ds' Sd W']; subst.
    destruct (inb v tvs).
    + set (v' := pick v (avoid0 ++ ch)) in *.
      assert (P : ~ In v' (avoid0 ++ ch)) by apply pick_out.
      assert (PS : vsort v' = vsort v) by apply pick_sort.
      destruct (rb sub tvs avoid0 vs (sub f v (var_term v')) (ch ++ [v'])) as [f1 o1] eqn:E1.
      inversion EQ; subst. cbn [upds].
      rewrite (IH _ _ _ _ (eq_trans (Hs _ _ _) eq_refl) (Hn _ _ _ NB) ND' E1); auto.
      * rewrite Hsem; auto.
        assert (G : getv (upds (upd E v' d) vs ds') v' = d).
        { rewrite getv_upds_notin; auto.
          - apply getv_upd_same. rewrite PS; auto.
          - intros H. apply P. apply in_or_app; left. apply AV; right; auto. }
        rewrite G. apply coincidence. intros u Hu.
        destruct (var_dec v u) as [<-|NE].
        -- rewrite getv_upd_same; auto. rewrite getv_upds_notin; auto. rewrite getv_upd_same; auto.
        -- rewrite getv_upd_other; auto. apply agree_upds; auto.
           destruct (in_dec var_dec u vs) as [Hin|Hnin]; [left; auto|right].
           rewrite !getv_upd_other; auto. intros <-. apply P. destruct (INV _ Hu); apply in_or_app; auto.
      * intros u Hu. apply Hfv in Hu; auto. destruct Hu as [[Hu _]| ->].
        -- destruct (INV _ Hu); auto. right; apply in_or_app; auto.
        -- right; apply in_or_app; right; left; reflexivity.
      * intros u Hu; apply AV; right; auto.
    + destruct (rb sub tvs avoid0 vs f (ch ++ [v])) as [f1 o1] eqn:E1.
      inversion EQ; subst. cbn [upds]. apply (IH _ _ _ _ eq_refl NB ND' E1); auto.
      * intros u Hu. destruct (INV _ Hu); auto. right; apply in_or_app; auto.
      * intros u Hu; apply AV; right; auto.
Qed.

Theorem subst_sem I n : forall F x t e, size F <= n -> sort_ok x t -> nodup_blocks F ->
  (csat I e (subst n F x t) <-> csat I (upd e x (ev_g e t)) F).
Proof.
  induction n as [|n IH]; intros F x t e SZ OK NB; [destruct F; cbn in SZ; lia|].
  destruct F as [p ts|a b|f|l r|q vs f]; cbn [subst csat size nodup_blocks] in *.
  - rewrite map_map. erewrite map_ext; [reflexivity|]. intros g. apply gsubst_sem; auto.
  - rewrite !gsubst_sem; auto. tauto.
  - rewrite IH; auto; [tauto|lia].
  - destruct NB. rewrite !IH; auto; try lia. tauto.
  - destruct NB as [ND NB]. destruct (inb_spec x vs) as [Hin|Hnin].
    + cbn [csat]. apply (qsat_ext q _ _ (fv f)); [intros e1 e2 A; apply coincidence; exact A|].
      intros w Hw Nw. rewrite getv_upd_other; auto. intros <-. tauto.
    + destruct (rb (subst n) (tv t) (tv t ++ fv f ++ [x] ++ vs) vs f []) as [f' vs'] eqn:E.
      cbn [csat].
      pose proof (rb_struct _ _ _ _ _ _ _ _ E) as [SS ST].
      assert (SZ' : size f' = size f).
      { pose proof (rb_size (subst n) (tv t) (tv t ++ fv f ++ [x] ++ vs) (subst_size n) vs f []) as HS.
        rewrite E in HS; exact HS. }
      assert (NB' : nodup_blocks f').
      { eapply rb_nodup_blocks; eauto. intros; apply subst_nodup; auto. }
      set (d := ev_g e t).
      assert (Sd : in_sort (vsort x) d) by (apply sort_ok_in_sort; auto).
      assert (KEY : forall ds, wsorted vs ds ->
        (csat I (upds e vs' ds) (subst n f' x t) <-> csat I (upds (upd e x d) vs ds) f)).
      { intros ds W. assert (W' : wsorted vs' ds) by (apply (wsorted_iff vs vs' ds SS); exact W).
        rewrite IH; auto; [|lia].
        assert (Et : ev_g (upds e vs' ds) t = d).
        { apply ev_g_agree. intros w Hw. apply getv_upds_notin; auto. intros H.
          destruct (ST _ H) as [[_ H2]|[H2 _]]; [tauto|]. apply H2. apply in_or_app; left; exact Hw. }
        rewrite Et.
        assert (X : ~ In x vs').
        { intros H. destruct (ST _ H) as [[H1 _]|[H2 _]]; [tauto|]. apply H2.
          apply in_or_app; right. apply in_or_app; right. apply in_or_app; left. left; reflexivity. }
        transitivity (csat I (upds (upd e x d) vs' ds) f').
        - apply coincidence. intros w _. destruct (var_dec x w) as [<-|NE].
          + rewrite getv_upd_same; auto. rewrite getv_upds_notin; auto. rewrite getv_upd_same; auto.
          + rewrite getv_upd_other; auto. apply agree_upds; auto.
            destruct (in_dec var_dec w vs') as [Hin|Hnin']; [left; auto|right].
            rewrite getv_upd_other; auto.
        - assert (Hn' : forall f0 v t0, nodup_blocks f0 -> nodup_blocks (subst n f0 v t0))
            by (intros; apply subst_nodup; auto).
          assert (Hfv' : forall f0 v w u, size f0 = size f -> vsort w = vsort v ->
                   In u (fv (subst n f0 v (var_term w))) -> (In u (fv f0) /\ u <> v) \/ u = w).
          { intros f0 v w u S0 SW Hu. apply subst_fv in Hu; [|lia|apply sort_ok_var; auto].
            rewrite tv_var_term in Hu. destruct Hu as [Hu|[<-|[]]]; auto. }
          assert (Hsem' : forall f0 v w E0, size f0 = size f -> nodup_blocks f0 -> vsort w = vsort v ->
                   (csat I E0 (subst n f0 v (var_term w)) <-> csat I (upd E0 v (getv E0 w)) f0)).
          { intros f0 v w E0 S0 N0 SW. rewrite IH; [|lia|apply sort_ok_var; auto|auto].
            rewrite ev_var_term. tauto. }
          apply (rb_sem I (subst n) (tv t) (tv t ++ fv f ++ [x] ++ vs) (size f) (subst_size n)
                   Hn' Hfv' Hsem' vs f [] f' vs' eq_refl NB ND E); auto.
          + intros u Hu. left. apply in_or_app; right. apply in_or_app; left. exact Hu.
          + intros u Hu. apply in_or_app; right. apply in_or_app; right. apply in_or_app; right. exact Hu. }
      rewrite !qsat_upds. destruct q.
      * split; intros H ds W.
        -- apply KEY; auto. apply H. apply (wsorted_iff vs vs' ds SS); exact W.
        -- apply KEY; [apply (wsorted_iff vs vs' ds SS); exact W|]. apply H. apply (wsorted_iff vs vs' ds SS); exact W.
      * split; intros [ds [W H]]; exists ds.
        -- assert (W0 : wsorted vs ds) by (apply (wsorted_iff vs vs' ds SS); exact W). split; auto. apply KEY; auto.
        -- split; [apply (wsorted_iff vs vs' ds SS); exact W|]. apply KEY; auto.
Qed.
End Sub.
Print Assumptions subst_sem.
