(* Classical and here-and-there satisfaction of target-language formulas over the standard
   domain (infinite: all of Z, all strings).  Quantifier blocks bind left to right, each
   variable ranging over the whole carrier of its sort. *)
From Coq Require Import List Ascii String ZArith Bool Lia.
From Anthem Require Import Syntax.Fol Sem.Domain.
Import ListNotations.
Open Scope string_scope.
Open Scope list_scope.

(* variable assignment: one map per sort *)
Record env := mkenv { eg : string -> gval; ei : string -> Z; es : string -> string }.
(* interpretation of function constants (placeholders): one map per sort *)
Record fint := mkfint { fg : string -> gval; fi : string -> Z; fs : string -> string }.
(* predicate interpretation; arity = length of the argument list *)
Definition pint := string -> list gval -> Prop.

Definition upd (e : env) (v : var) (d : gval) : env :=
  match vsort v, d with
  | SGeneral, _ => mkenv (fun y => if String.eqb y (vname v) then d else eg e y) (ei e) (es e)
  | SInteger, VNum z => mkenv (eg e) (fun y => if String.eqb y (vname v) then z else ei e y) (es e)
  | SSymbol, VSym s => mkenv (eg e) (ei e) (fun y => if String.eqb y (vname v) then s else es e y)
  | _, _ => e end.
Definition getv (e : env) (v : var) : gval :=
  match vsort v with
  | SGeneral => eg e (vname v)
  | SInteger => VNum (ei e (vname v))
  | SSymbol => VSym (es e (vname v))
  end.

Section Sem.
Variable FI : fint.

Fixpoint ev_i (e : env) (t : iterm) : Z :=
  match t with
  | INum z => z | IFun c => fi FI c | IVar x => ei e x
  | IUn UNeg t => (- ev_i e t)%Z
  | IBin BAdd l r => (ev_i e l + ev_i e r)%Z
  | IBin BSub l r => (ev_i e l - ev_i e r)%Z
  | IBin BMul l r => (ev_i e l * ev_i e r)%Z
  end.
Definition ev_s (e : env) (t : sterm) : string :=
  match t with SSym s => s | SFun c => fs FI c | SVar x => es e x end.
Definition ev_g (e : env) (t : gterm) : gval :=
  match t with
  | GInf => VInf | GSup => VSup | GFun c => fg FI c | GVar x => eg e x
  | GInt t => VNum (ev_i e t) | GSym t => VSym (ev_s e t) end.

Fixpoint chain_sat (e : env) (l : gval) (gs : list guard) : bool :=
  match gs with
  | [] => true
  | g :: gs' => let v := ev_g e (gterm_of g) in rel_sat (grel g) l v && chain_sat e v gs'
  end.

Definition asat (I : pint) (e : env) (a : aformula) : Prop :=
  match a with
  | ATrue => True | AFalse => False
  | AAtom p ts => I p (map (ev_g e) ts)
  | ACmp t gs => chain_sat e (ev_g e t) gs = true end.

Fixpoint qsat (q : quant) (vs : list var) (k : env -> Prop) (e : env) : Prop :=
  match vs with
  | [] => k e
  | v :: vs' =>
      match q with
      | QForall => forall d, in_sort (vsort v) d -> qsat q vs' k (upd e v d)
      | QExists => exists d, in_sort (vsort v) d /\ qsat q vs' k (upd e v d)
      end
  end.

Fixpoint csat (I : pint) (e : env) (f : formula) : Prop :=
  match f with
  | FAtomic a => asat I e a
  | FNot f => ~ csat I e f
  | FBin CAnd l r => csat I e l /\ csat I e r
  | FBin COr l r => csat I e l \/ csat I e r
  | FBin CImp l r => csat I e l -> csat I e r
  | FBin CRimp l r => csat I e r -> csat I e l
  | FBin CIff l r => csat I e l <-> csat I e r
  | FQ q vs f => qsat q vs (fun e' => csat I e' f) e
  end.

(* here world of the HT interpretation (H,T); the there world is [csat T] *)
Fixpoint hsat (H T : pint) (e : env) (f : formula) : Prop :=
  match f with
  | FAtomic a => asat H e a
  | FNot f => ~ csat T e f
  | FBin CAnd l r => hsat H T e l /\ hsat H T e r
  | FBin COr l r => hsat H T e l \/ hsat H T e r
  | FBin CImp l r => (hsat H T e l -> hsat H T e r) /\ (csat T e l -> csat T e r)
  | FBin CRimp l r => (hsat H T e r -> hsat H T e l) /\ (csat T e r -> csat T e l)
  | FBin CIff l r => ((hsat H T e l -> hsat H T e r) /\ (csat T e l -> csat T e r))
                     /\ ((hsat H T e r -> hsat H T e l) /\ (csat T e r -> csat T e l))
  | FQ q vs f => qsat q vs (fun e' => hsat H T e' f) e
  end.
End Sem.

Definition sub (H T : pint) : Prop := forall p a, H p a -> T p a.
Definition pint_equiv (I J : pint) : Prop := forall p a, I p a <-> J p a.

(* a formula used as a problem formula means its universal closure: true under every assignment *)
Definition cvalid (FI : fint) (I : pint) (f : formula) : Prop := forall e, csat FI I e f.
Definition hvalid (FI : fint) (H T : pint) (f : formula) : Prop := forall e, hsat FI H T e f.

Lemma qsat_mono q vs (k1 k2 : env -> Prop) e :
  (forall e, k1 e -> k2 e) -> qsat q vs k1 e -> qsat q vs k2 e.
Proof.
  revert e; induction vs as [|v vs IH]; intros e Hk; cbn; [apply Hk|].
  destruct q; intros Hq.
  - intros d Hd. apply IH; auto.
  - destruct Hq as [d [Hd Hq]]. exists d; split; auto.
Qed.
Lemma qsat_iff q vs (k1 k2 : env -> Prop) e :
  (forall e, k1 e <-> k2 e) -> qsat q vs k1 e <-> qsat q vs k2 e.
Proof. intros Hk; split; apply qsat_mono; intros; apply Hk; auto. Qed.

(* persistence: the here world is included in the there world *)
Lemma persist FI H T (HS : sub H T) f : forall e, hsat FI H T e f -> csat FI T e f.
Proof.
  induction f as [a|f IH|c l IHl r IHr|q vs f IH]; intros e; cbn.
  - destruct a; cbn; auto.
  - auto.
  - destruct c; cbn; intuition.
  - apply qsat_mono. auto.
Qed.
(* a total HT interpretation (T,T) is classical *)
Lemma hsat_total FI T f : forall e, hsat FI T T e f <-> csat FI T e f.
Proof.
  induction f as [a|f IH|c l IHl r IHr|q vs f IH]; intros e; cbn.
  - tauto.
  - tauto.
  - destruct c; cbn; rewrite ?IHl, ?IHr; tauto.
  - apply qsat_iff; auto.
Qed.
